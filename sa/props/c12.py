"""C12 - The peer graph's lookups always agree with its membership."""
from __future__ import annotations

import ast

from ..core import Ctx
from ..match import (_atoms_with_polarity, arg, call_name, calls, expr_context_facts, fact_of, facts_at, local_defs, mentions, rchain, resolve,
                     same_resolved, single_def, stores)
from ..model import AnalysisError, FuncInfo, ancestors, chain, clone, const_value, enclosing_stmt, head, norm, parent, strip_cast, walk_no_nested

LEVEL = "other"
EXPLANATION = (
    "Index coherence as a matrix: rows are all mutation sites of the authoritative collections (verified_peers, "
    "_all_addresses, services_per_peer) found by scanning network.py; columns are the derived indices "
    "(verified_by_public_key_bin, reverse_ip_lookup, reverse_intro_lookup, reverse_service_lookup). A cell is satisfied "
    "when the mutator updates the index on the same path (directly or through a helper it calls) or when every reader "
    "of the index re-validates its cached value against the authoritative collection; cached lists must never be "
    "created from partial knowledge; every cache miss recomputes from the authoritative collection. Reader validation is "
    "decided by value flow, not by spelling: a value taken out of a cache may only reach a `return` through edges / filters "
    "that establish the required facts (peer in verified_peers and key in peer.addresses.values(); address in _all_addresses "
    "and introduced_by == the peer's key; peer in verified_peers and service in services_per_peer[peer key]). Plus blacklist "
    "guards (followed into private helpers of add_verified_peer), by-key pairing, removal completeness (remove_by_address "
    "looks at every verified peer on every path; remove_peer removes unless not a member; both forget the removed instance in the address and service caches, whose readers "
    "validate by equality), snapshot codec symmetry and the "
    "closed set of external writers. LRU eviction order is not explored - a miss recomputes (checked). "
    "Constructs are recognised by what they compute: a collection is denoted by self.<attr>, a local alias, a loop variable over a literal of "
    "collections or getattr(self, name); guards are decided on the CFG (edges that establish the fact, the exhausted edge of a loop that checked "
    "every element) and followed into Network's own decision helpers (every compatible return must establish the fact; bool / None / tag / tuple "
    "results, dispatch tables denote all their values); cached values handed to a helper are followed with the parameters bound; generator helpers "
    "are read as streams of what they yield. Decisions carried by VALUES (a flag / tag / Enum member, or a result object - tuple, NamedTuple, "
    "dataclass, small class, dict - with the tag in one component, produced by an inlined or a followed decision helper and acted on by if/elif, "
    "match or a dispatch table keyed by the tag) are followed along the paths: every every-path question is asked on the executable paths only "
    "(a binding of the verdict local is never paired with a dispatch arm its tag refutes; testing the same local twice does not pair contradicting "
    "outcomes; `flag = <test>` / `tag = A if <test> else B` hand <test> on to the outcome that tests the local). "
    "Three further necessary conditions: the address-cache reader must establish that the cached peer STILL USES the address (addresses of a live "
    "peer change without any removal, which purges nothing); a Peer put into a lookup cache must be the instance the graph stores, not an equal "
    "object handed in from outside (address updates are merged into the stored instance only) - reported only when the inserted value can be "
    "nothing else; remove_by_address must decide 'uses the address' over the values of peer.addresses, not by a probe under the class of the "
    "argument (the dict is keyed by the class of the registered object, addresses compare by value). remove_peer must purge the address cache by scanning it (by value), not by the addresses of the Peer "
    "object it was handed (another instance of the same identity may carry other addresses). "
    "Address update of a known identity (add_verified_peer finds the key in the by-key index): what is written into the STORED instance's address "
    "dict from the handed-in Peer object must cover every address of that object (addresses.update(other.addresses), a loop over all of "
    "other.addresses, a Peer method that does so) - a single picked address (other.address is the preferred interface only) leaves a replaced "
    "address of another interface in the stored peer; reported only when the write can be nothing but one picked address and the function has no "
    "complete merge. "
    "Two more clauses of `coherence`: a Network method that puts a peer into a cached per-service list must not skip the insertion merely because "
    "an EQUAL entry is cached (`peer not in cached`, any(x == peer ...), count): the entry may be an instance of the identity cached before it "
    "was verified, which would stay and be returned with stale addresses (accepted: identity test, remove-equal-then-append, an insertion site "
    "outside the equality test, a rebuild); and get_walkable_addresses(service) must not take the peers whose addresses it subtracts from "
    "self.verified_peers alone whatever the filter (decided positively only: no condition on the service dominates the subtraction and the "
    "service is handed to no other method of the graph). Collections named in blacklist / known-address guards may be early-bound locals "
    "(every binding of the local is the attribute)."
)

NW = "ipv8/peerdiscovery/network.py"
AUTH = ("verified_peers", "_all_addresses", "services_per_peer")
DERIVED = ("verified_by_public_key_bin", "reverse_ip_lookup", "reverse_intro_lookup", "reverse_service_lookup")

# which authoritative change can invalidate which derived index (frozen from reading network.py; one reason each)
DEPENDS = {
    ("verified_peers", "remove"): {
        "verified_by_public_key_bin": "the by-key dict mirrors the verified set",
        "reverse_ip_lookup": "address -> Peer cache may hold the removed peer",
        "reverse_service_lookup": "service -> [Peer] cache may hold the removed peer",
    },
    ("verified_peers", "add"): {
        "verified_by_public_key_bin": "the by-key dict mirrors the verified set",
        "reverse_service_lookup": "a cached per-service list must gain a peer that becomes verified",
    },
    ("_all_addresses", "remove"): {
        "reverse_intro_lookup": "Peer -> [introduced addresses] cache may hold the removed address",
    },
    ("_all_addresses", "add"): {
        "reverse_intro_lookup": "a cached introduction list must gain a newly introduced address (when it names an introducer)",
    },
    ("services_per_peer", "remove"): {
        "reverse_service_lookup": "service -> [Peer] cache may hold a peer that no longer advertises the service",
    },
    ("services_per_peer", "add"): {
        "reverse_service_lookup": "a cached per-service list must gain a peer that starts advertising the service",
    },
}


_QUERIES = ("get_verified_by_address", "get_introductions_from", "get_peers_for_service", "get_verified_by_public_key_bin",
            "get_services_for_peer", "get_walkable_addresses", "snapshot", "is_new_style")
_MUTATING = ("add", "update", "discard", "remove", "pop", "clear", "append", "extend", "insert", "setdefault", "popitem", "difference_update",
             "intersection_update", "symmetric_difference_update", "sort", "reverse")
_FRESH_CALLS = ("set", "frozenset", "list", "tuple", "dict", "sorted", "copy", "copy.copy", "copy.deepcopy", "deepcopy", "len", "bool", "any", "all")
_FRESH_METHODS = ("copy", "union", "difference", "intersection", "symmetric_difference", "keys", "values", "items")


def _fresh(fi: FuncInfo, v: ast.AST, depth: int = 3) -> bool:
    """the value of v is a new object (or immutable): mutating it cannot change a stored collection"""
    v = strip_cast(v)
    if isinstance(v, (ast.ListComp, ast.SetComp, ast.DictComp, ast.GeneratorExp, ast.List, ast.Set, ast.Dict, ast.Tuple, ast.BinOp, ast.Constant,
                      ast.Compare, ast.JoinedStr, ast.UnaryOp)):
        return True
    if isinstance(v, ast.Call):
        if (chain(v.func) or "") in _FRESH_CALLS:
            return True
        return isinstance(v.func, ast.Attribute) and v.func.attr in _FRESH_METHODS
    if isinstance(v, ast.IfExp):
        return _fresh(fi, v.body, depth) and _fresh(fi, v.orelse, depth)
    if isinstance(v, ast.BoolOp):
        return all(_fresh(fi, x, depth) for x in v.values)
    if isinstance(v, ast.Name) and depth > 0 and v.id not in fi.params():
        defs = local_defs(fi, v.id)
        return bool(defs) and all(val is not None and idx is None and _fresh(fi, val, depth - 1) for _, val, idx in defs)
    return False


def _stored_alias(fi: FuncInfo, name: str, depth: int = 3):
    """a definition of local `name` that makes it the very object held in an authoritative collection (or the collection itself)"""
    for st, v, idx in local_defs(fi, name):
        src = v
        if v is None and isinstance(st, (ast.For, ast.AsyncFor)):
            src = st.iter          # the elements of a stored collection are stored objects
            if isinstance(strip_cast(src), ast.Call) and isinstance(strip_cast(src).func, ast.Attribute) and strip_cast(src).func.attr in ("values", "items"):
                src = strip_cast(src).func.value
            elif _fresh(fi, src):
                continue
        elif v is None or _fresh(fi, v):
            continue
        if any(mentions(src, f"self.{a}") for a in AUTH):
            return src
        if depth > 0:       # services = stored if stored else set()  with  stored = self.services_per_peer.get(..)
            for p_ in _value_positions(src):
                if isinstance(p_, ast.Name) and p_.id != name and p_.id not in fi.params():
                    r = _stored_alias(fi, p_.id, depth - 1)
                    if r is not None:
                        return r
    return None


def _reaching_defs(ctx: Ctx, fi: FuncInfo, name: str, site: ast.AST):
    """definitions (stmt, value, tuple index) of local `name` that can reach `site` without being overwritten on the way"""
    cfg = ctx.cfg(fi)
    defs = local_defs(fi, name)
    at = cfg.nodes_for(site)
    out = []
    for st, v, idx in defs:
        mine = cfg.nodes_for(st)
        others = [n for st2, _v, _i in defs if st2 is not st and not isinstance(st2, ast.AugAssign) for n in cfg.nodes_for(st2)]
        r = cfg.reach([x for n in mine for x, lab in n.succ if lab != "exc"], cut_nodes=[n for n in others if n not in mine])
        if any(n in r for n in at):
            out.append((st, v, idx))
    return out


def _entry_of_index(fi: FuncInfo, recv: ast.AST, index: str, ctx: Ctx | None = None, loops: bool = False) -> bool:
    """recv is an entry stored in self.<index>: self.<index>.get(k) / self.<index>[k] itself, a local bound to such an expression, or
    (loops=True) a loop variable ranging over the stored entries (self.<index>.values(), or what a generator method of Network yields
    out of it)"""
    recv = strip_cast(recv)
    if isinstance(recv, ast.Name):
        defs = _reaching_defs(ctx, fi, recv.id, recv) if ctx is not None and getattr(recv, "_parent", None) is not None else local_defs(fi, recv.id)
        if any(v is not None and mentions(v, f"self.{index}") and not _fresh(fi, v) for _, v, _i in defs):
            return True
        return loops and any(v is None and isinstance(st, (ast.For, ast.AsyncFor)) and _loop_var_is_entry(fi, st, recv.id, index, ctx) for st, v, _i in defs)
    if chain(recv) == f"self.{index}":
        return False
    return mentions(recv, f"self.{index}") and not _fresh(fi, recv)


def _loop_var_is_entry(fi: FuncInfo, loop: ast.AST, name: str, index: str, ctx: Ctx | None) -> bool:
    t = loop.target
    it = _unwrap(loop.iter)
    if isinstance(t, ast.Name) and t.id == name:
        return _yields_entries(fi, it, index, ctx)
    # for key, entry in self.<index>.items()
    return isinstance(t, (ast.Tuple, ast.List)) and len(t.elts) == 2 and _is_name(t.elts[1], name) and isinstance(it, ast.Call) \
        and isinstance(it.func, ast.Attribute) and it.func.attr == "items" and chain(it.func.value) == f"self.{index}"


def _yield_sites(fi: FuncInfo, it: ast.AST, index: str, ctx: Ctx | None, depth: int = 2) -> list[tuple[FuncInfo, ast.AST, ast.AST]] | None:
    """
    The iterable `it` of fi hands out entries stored in self.<index> that one of Network's generator methods yields:
    [(method, yield node, yielded expression)], or None when it is not (only) that.
    """
    it = _unwrap(it)
    if not isinstance(it, ast.Call) or depth <= 0 or fi.cls is None:
        return None
    ts = _call_targets(fi.cls, fi, it)
    if not ts:
        return None
    out = []
    for t in ts:
        ys = [n for n in walk_no_nested(t.node) if isinstance(n, (ast.Yield, ast.YieldFrom))]
        if not ys or any(isinstance(n, ast.Return) and n.value is not None for n in walk_no_nested(t.node)):
            return None
        for y in ys:
            if isinstance(y, ast.YieldFrom):
                inner = _yield_sites(t, y.value, index, ctx, depth - 1)
                if inner is None:
                    if not _yields_entries(t, y.value, index, ctx, depth - 1):
                        return None
                    continue
                out += inner
            elif y.value is None or not _entry_of_index(t, y.value, index, ctx):
                return None
            else:
                out.append((t, y, y.value))
    return out


def _yields_entries(fi: FuncInfo, it: ast.AST, index: str, ctx: Ctx | None, depth: int = 2) -> bool:
    """the elements of the iterable are entries stored in self.<index>"""
    it = _unwrap(it)
    if isinstance(it, ast.Call) and isinstance(it.func, ast.Attribute) and it.func.attr == "values" and chain(it.func.value) == f"self.{index}":
        return True
    if isinstance(it, (ast.ListComp, ast.SetComp, ast.GeneratorExp)):
        elt = strip_cast(it.elt)
        if isinstance(elt, ast.Name):
            return any(isinstance(g.target, ast.Name) and g.target.id == elt.id and _yields_entries(fi, g.iter, index, ctx, depth) for g in it.generators)
        return mentions(elt, f"self.{index}") and not _fresh(fi, elt)
    if isinstance(it, ast.Name) and it.id not in fi.params() and depth > 0:
        vals = _bound_values(fi, it)
        return bool(vals) and all(v is not None and _yields_entries(fi, v, index, ctx, depth - 1) for v in vals)
    return _yield_sites(fi, it, index, ctx, depth) is not None


def _alias_mutations(fi: FuncInfo):
    """(node, local, source) for mutations applied to a local that aliases an authoritative collection / one of its stored values."""
    out = []
    for n in walk_no_nested(fi.node):
        var = None
        if isinstance(n, ast.Call) and isinstance(n.func, ast.Attribute) and n.func.attr in _MUTATING and not isinstance(n.func.value, ast.Name):
            # self.services_per_peer.get(k, set()).add(x): the stored value itself, without a local in between
            recv = strip_cast(n.func.value)
            if chain(recv) not in [f"self.{a}" for a in AUTH] and any(mentions(recv, f"self.{a}") for a in AUTH) and not _fresh(fi, recv):
                out.append((n, norm(recv)[:40], recv))
            continue
        if isinstance(n, ast.Call) and isinstance(n.func, ast.Attribute) and n.func.attr in _MUTATING and isinstance(n.func.value, ast.Name):
            var = n.func.value.id
        elif isinstance(n, ast.AugAssign) and isinstance(n.target, ast.Name):
            var = n.target.id
        elif isinstance(n, (ast.Assign, ast.Delete)):
            for t in n.targets:
                if isinstance(t, ast.Subscript) and isinstance(t.value, ast.Name):
                    var = t.value.id
        if var is None or var in fi.params():
            continue
        src = _stored_alias(fi, var)
        if src is not None:
            out.append((n, var, src))
    return out


_ADD_OPS = ("add", "update", "setdefault", "__setitem__", "set[]", "aug[]")
_REMOVE_OPS = ("remove", "discard", "pop", "clear", "popitem", "difference_update", "intersection_update", "symmetric_difference_update", "__delitem__",
               "del[]", "del")


def _added_entries(fi: FuncInfo, n: ast.AST, op: str) -> list[ast.AST] | None:
    """the value expressions a dict mutation may store (None: not syntactically known)"""
    def of_mapping(m):
        m = _unwrap(resolve(fi, m)) if m is not None else None
        if isinstance(m, ast.Dict) and all(k is not None for k in m.keys):
            return list(m.values)
        if isinstance(m, ast.DictComp):
            return [m.value]
        if isinstance(m, ast.Call) and (chain(m.func) or "").endswith("dict.fromkeys") and len(m.args) == 2:
            return [m.args[1]]
        return None
    if op == "set[]" and isinstance(n, (ast.Assign, ast.AnnAssign)):
        return [n.value] if n.value is not None else None
    if op in ("setdefault", "__setitem__") and isinstance(n, ast.Call):
        v = arg(n, 1, "default" if op == "setdefault" else "value")
        return [v] if v is not None else None
    if op == "update" and isinstance(n, ast.Call) and len(n.args) == 1 and not n.keywords:
        return of_mapping(n.args[0])
    if op == "aug" and isinstance(n, ast.AugAssign) and isinstance(n.op, ast.BitOr):
        return of_mapping(n.value)
    return None


def mutation_sites(ctx: Ctx):
    """(function, collection, kind, node) for every mutation of an authoritative collection in network.py (direct, through a local
    alias of the collection, or through a variable ranging over a literal of collections)."""
    net = ctx.repo.cls("Network", NW)
    out = []
    for fi in [f for f in ctx.repo.module(NW).all_functions if f.cls is net]:
        for a in AUTH:
            for n, op, recv, key in _coll_ops(fi, a):
                kind = None
                if op in _ADD_OPS or (op == "aug" and isinstance(n.op, ast.BitOr)):
                    kind = "add"
                    if a == "_all_addresses":
                        # WalkableAddress(b"", ...) names no introducer: irrelevant for the intro cache
                        vals = _added_entries(fi, n, op)
                        if vals and all(_blank_introducer(fi, v) for v in vals):
                            kind = "add-neutral"
                elif op in _REMOVE_OPS or op == "aug":
                    kind = "remove"
                elif op == "rebind" and fi.name != "__init__":
                    kind = "remove"      # rebinding: may drop members
                if kind is not None:
                    out.append((fi, a, kind, n))
    return out


def _blank_introducer(fi: FuncInfo, v: ast.AST) -> bool:
    wa = _wa_args(fi, v)
    return wa is not None and wa[0] is not None and const_value(resolve(fi, wa[0])) == b""


_INDEX_WRITES = ("pop", "clear", "popitem", "remove", "append", "update", "__setitem__", "__delitem__", "setdefault", "set[]", "aug[]", "del[]", "rebind", "aug", "del")


def _updates_index(ctx: Ctx, fi: FuncInfo, index: str, depth: int = 2) -> bool:
    """Does fi (or a Network helper it calls) write the derived index?"""
    if any(op in _INDEX_WRITES for _n, op, _r, _k in _coll_ops(fi, index)):
        return True
    for n in walk_no_nested(fi.node):
        if isinstance(n, ast.Call) and isinstance(n.func, ast.Attribute) and n.func.attr in ("append", "remove", "extend", "insert", "add", "discard", "pop", "clear") \
                and _entry_of_index(fi, n.func.value, index, ctx, loops=n.func.attr in ("append", "extend", "insert", "add")):
            # a cached list reached through a local / an expression: cache = self.<index>.get(k); cache.append(x) - or handed out by a
            # generator helper the mutator loops over (growth only: purging the removed peer by value is rule_removal's business, and
            # the cure for stale members the matrix relies on is the validating reader)
            return True
    if depth > 0 and fi.cls is not None:
        for c in calls(fi):
            for t in _call_targets(fi.cls, fi, c):
                if t.name not in ("add_verified_peer",) and _updates_index(ctx, t, index, depth - 1):
                    return True
    return False


_READ_ONLY_CALLEES = ("len", "list", "set", "tuple", "frozenset", "sorted", "iter", "enumerate", "reversed", "dict", "any", "all", "sum", "min", "max", "isinstance",
                      "id", "bool", "str", "repr", "print", "zip", "map", "filter", "next", "cast", "chain", "chain.from_iterable", "itertools.chain",
                      "itertools.chain.from_iterable", "islice", "itertools.islice", "copy", "copy.copy", "deepcopy", "copy.deepcopy", "OrderedDict")


def _escapes(ctx: Ctx, net, fi: FuncInfo, coll: str, depth: int = 2, _seen: frozenset = frozenset()) -> ast.AST | None:
    """
    a call in fi (or in a private Network helper it reaches) that hands the collection self.<coll> itself to code this module does not
    follow (a function / class outside Network, e.g. a small callable class that keeps it): what happens to the collection there is
    unknown, so "this function does not update it" cannot be concluded.  -> the call, or None
    """
    want = "self." + coll
    followed_ctors = set()      # helper objects whose every use is a method call this module follows (see _object_method_target)
    for c in calls(fi):
        if _object_method_target(net, fi, c) is None:
            continue
        f_ = strip_cast(c.func)
        obj = strip_cast(f_.value) if isinstance(f_, ast.Attribute) else f_
        if isinstance(obj, ast.Call):
            followed_ctors.add(id(obj))
        elif isinstance(obj, ast.Name):
            d_ = single_def(fi, obj.id)
            uses = [n for n in walk_no_nested(fi.node) if isinstance(n, ast.Name) and n.id == obj.id and isinstance(n.ctx, ast.Load)]
            if d_ is not None and all(any(strip_cast(c2.func) is u or (isinstance(strip_cast(c2.func), ast.Attribute) and strip_cast(c2.func).value is u)
                                          for c2 in calls(fi) if _object_method_target(net, fi, c2) is not None) for u in uses):
                followed_ctors.add(id(strip_cast(d_[0])))
    for c in calls(fi):
        if _call_targets(net, fi, c) or id(c) in followed_ctors:
            continue
        ch = chain(c.func) or ""
        if ch in _READ_ONLY_CALLEES or ch.split(".")[-1] in ("debug", "info", "warning", "error", "exception", "log", "format", "join"):
            continue
        if isinstance(c.func, ast.Attribute) and want in _denotes(fi, c.func.value):
            continue        # a method of the collection itself: seen by _coll_ops
        for a_ in [*c.args, *[k.value for k in c.keywords]]:
            a_ = a_.value if isinstance(a_, ast.Starred) else a_
            if want in _denotes(fi, a_):
                return c
    if depth > 0:
        for c in calls(fi):
            for t in _call_targets(net, fi, c):
                if _is_private(t) and id(t.node) not in _seen:
                    r = _escapes(ctx, net, t, coll, depth - 1, _seen | {id(fi.node)})
                    if r is not None:
                        return r
    return None


def _undecided_if_escapes(ctx: Ctx, net, fi: FuncInfo, colls, what: str) -> None:
    for coll in colls:
        c = _escapes(ctx, net, fi, coll)
        if c is not None:
            raise AnalysisError(f"undecided: {what}: {fi.qualname} hands self.{coll} to `{norm(c)[:70]}`, which is not one of Network's own methods - what it does "
                                "with the collection is not followed")


def _callers_update(ctx: Ctx, fi: FuncInfo, index: str, depth: int = 2) -> bool:
    """fi is a private helper (the mutation was moved out of the mutator): every function that uses it writes the derived index"""
    if depth <= 0 or fi.cls is None or not _is_private(fi):
        return False
    sites = _internal_call_sites(ctx, fi.cls, fi)
    if not sites:
        return False
    return all(_updates_index(ctx, caller, index) or _callers_update(ctx, caller, index, depth - 1) for caller, _c in sites)


# ------------------------------------------------------------------------------------------------------------------
# semantic helpers (alias resolution over ALL reaching definitions, fresh-copy recognition, iteration contexts)

_WRAPPERS = ("set", "list", "tuple", "frozenset", "sorted")


def _unwrap(e: ast.AST) -> ast.AST:
    """set(x) / list(x) / tuple(x) / frozenset(x) / sorted(x) / cast(T, x) -> x: same members."""
    e = strip_cast(e)
    while isinstance(e, ast.Call) and isinstance(e.func, ast.Name) and e.func.id in _WRAPPERS and len(e.args) == 1 and not e.keywords:
        e = strip_cast(e.args[0])
    return e


# ------------------------------------------------------------------------------------------------------------------
# functional pipelines read as the comprehensions they compute.  map(f, it) is (f(x) for x in it); filter(p, it) is (x for x in it if
# p(x)); chain.from_iterable(its) is (x for it in its for x in it); attrgetter("a") / itemgetter(k) / methodcaller("m", ..) /
# partial(g, ..) / a lambda / C.__contains__ applied to x are x.a / x[k] / x.m(..) / g(.., x) / the lambda's body / x in C.  The view is a
# NEW syntax tree (the repository's trees are never touched) hung under the parent of the expression it stands for, so that enclosing
# statements, CFG nodes and dominating facts are found from inside it; one view per original expression (stable identity).

_PIPE_MEMO: dict = {}
_PIPE_KEEP: list = []       # keeps the originals alive so that id() keys are never reused


def _fn_applied(fi: FuncInfo | None, f: ast.AST, args: list[ast.AST], depth: int = 4) -> ast.AST | None:
    """the expression f(*args) with the callable object f spelled out, else None"""
    f = strip_cast(f)
    if depth <= 0:
        return None
    if isinstance(f, ast.Lambda):
        a = f.args
        if a.vararg or a.kwarg or a.kwonlyargs or a.defaults or len(a.posonlyargs + a.args) != len(args):
            return None
        names = [x.arg for x in a.posonlyargs + a.args]
        if any(isinstance(n, (ast.Lambda, ast.NamedExpr)) for n in ast.walk(f.body)):
            return None
        return _SubstNames(dict(zip(names, args))).visit(clone(f.body))
    if isinstance(f, ast.Call) and not any(isinstance(x, ast.Starred) for x in f.args) and not any(k.arg is None for k in f.keywords):
        nm = (chain(f.func) or "").split(".")[-1]
        if nm == "attrgetter" and len(f.args) == 1 and isinstance(const_value(f.args[0]), str) and len(args) == 1 and not f.keywords:
            out = clone(args[0])
            for part in const_value(f.args[0]).split("."):
                if not part.isidentifier():
                    return None
                out = ast.Attribute(value=out, attr=part, ctx=ast.Load())
            return out
        if nm == "itemgetter" and len(f.args) == 1 and len(args) == 1 and not f.keywords:
            return ast.Subscript(value=clone(args[0]), slice=clone(f.args[0]), ctx=ast.Load())
        if nm == "methodcaller" and f.args and isinstance(const_value(f.args[0]), str) and const_value(f.args[0]).isidentifier() and len(args) == 1:
            return ast.Call(func=ast.Attribute(value=clone(args[0]), attr=const_value(f.args[0]), ctx=ast.Load()), args=[clone(x) for x in f.args[1:]],
                            keywords=[clone(k) for k in f.keywords])
        if nm == "partial" and f.args:
            inner = _fn_applied(fi, f.args[0], [*f.args[1:], *args], depth - 1)
            if inner is None or (f.keywords and not isinstance(inner, ast.Call)):
                return None
            if f.keywords:
                inner.keywords = [*inner.keywords, *[clone(k) for k in f.keywords]]
            return inner
        return None
    if isinstance(f, ast.Name) and fi is not None and f.id not in fi.params():
        r = resolve(fi, f)
        if r is not f and isinstance(strip_cast(r), (ast.Lambda, ast.Call, ast.Attribute)):
            return _fn_applied(fi, r, args, depth - 1)
    if isinstance(f, ast.Attribute) and f.attr == "__contains__" and len(args) == 1:
        return ast.Compare(left=clone(args[0]), ops=[ast.In()], comparators=[clone(f.value)])
    if isinstance(f, ast.Attribute) and f.attr == "__getitem__" and len(args) == 1:
        return ast.Subscript(value=clone(f.value), slice=clone(args[0]), ctx=ast.Load())
    if isinstance(f, (ast.Name, ast.Attribute)):
        return ast.Call(func=clone(f), args=[clone(x) for x in args], keywords=[])
    return None


def _pure_path(e: ast.AST) -> bool:
    e = strip_cast(e)
    while isinstance(e, ast.Attribute):
        e = strip_cast(e.value)
    return isinstance(e, ast.Name)


def _pipeline_build(fi: FuncInfo | None, e: ast.AST, counter: list) -> ast.GeneratorExp | None:
    e = strip_cast(e)
    if isinstance(e, ast.Call) and isinstance(e.func, ast.Name) and e.func.id in ("list", "tuple", "iter") and len(e.args) == 1 and not e.keywords:
        return _pipeline_build(fi, e.args[0], counter)
    if isinstance(e, ast.Name) and fi is not None and e.id not in fi.params():
        r = resolve(fi, e)
        return _pipeline_build(fi, r, counter) if r is not e and isinstance(strip_cast(r), ast.Call) else None
    if not isinstance(e, ast.Call) or e.keywords or any(isinstance(x, ast.Starred) for x in e.args):
        return None
    nm = chain(e.func) or ""

    def fresh():
        counter[0] += 1
        return f"_pv{counter[0]}"

    def source(it):
        """(element expression, generators) of the iterable `it`"""
        g = _pipeline_build(fi, it, counter)
        it0 = strip_cast(it)
        if g is None and isinstance(it0, (ast.GeneratorExp, ast.ListComp, ast.SetComp)) and not isinstance(it0, ast.SetComp):
            g = ast.GeneratorExp(elt=clone(it0.elt), generators=clone(it0.generators))      # already a comprehension
        if g is not None and (_pure_path(g.elt) or isinstance(strip_cast(g.elt), ast.Call) and _pure_path(strip_cast(g.elt).func) and not strip_cast(g.elt).args):
            return g.elt, g.generators
        x = fresh()
        return ast.Name(id=x, ctx=ast.Load()), [ast.comprehension(target=ast.Name(id=x, ctx=ast.Store()), iter=g if g is not None else clone(it), ifs=[], is_async=0)]
    if nm == "map" and len(e.args) >= 2:
        its = e.args[1:]
        consts = [strip_cast(i).args[0] if isinstance(strip_cast(i), ast.Call) and (chain(strip_cast(i).func) or "").split(".")[-1] == "repeat"
                  and len(strip_cast(i).args) == 1 else None for i in its]
        varying = [i for i, c in zip(its, consts) if c is None]
        if len(varying) != 1:
            return None
        elt, gens = source(varying[0])
        body = _fn_applied(fi, e.args[0], [elt if c is None else c for c in consts])
        return ast.GeneratorExp(elt=body, generators=gens) if body is not None else None
    if nm == "filter" and len(e.args) == 2:
        elt, gens = source(e.args[1])
        cond = clone(elt) if const_value(e.args[0]) is None and isinstance(e.args[0], ast.Constant) else _fn_applied(fi, e.args[0], [elt])
        if cond is None:
            return None
        gens = list(gens)
        last = gens[-1]
        gens[-1] = ast.comprehension(target=last.target, iter=last.iter, ifs=[*last.ifs, cond], is_async=0)
        return ast.GeneratorExp(elt=clone(elt), generators=gens)
    if nm.split(".")[-2:] == ["chain", "from_iterable"] and len(e.args) == 1:
        elt, gens = source(e.args[0])
        x = fresh()
        return ast.GeneratorExp(elt=ast.Name(id=x, ctx=ast.Load()),
                                generators=[*gens, ast.comprehension(target=ast.Name(id=x, ctx=ast.Store()), iter=clone(elt), ifs=[], is_async=0)])
    return None


def _pipeline(fi: FuncInfo | None, e: ast.AST) -> ast.AST:
    """e itself, or - when e is a map / filter / chain.from_iterable pipeline - the generator expression that computes the same elements"""
    e0 = strip_cast(e) if e is not None else None
    if not isinstance(e0, ast.Call) or (chain(e0.func) or "").split(".")[-1] not in ("map", "filter", "from_iterable"):
        return e
    memo = fi.module.__dict__.setdefault("_c12_pipeline_views", {}) if fi is not None else {}
    k = (id(e0), id(fi.node) if fi is not None else 0)
    if k not in memo:
        try:
            g = _pipeline_build(fi, e0, [getattr(e0, "lineno", 0) * 10])
        except Exception:  # noqa: BLE001
            g = None
        if g is not None:
            for n in ast.walk(g):
                if "lineno" in getattr(n, "_attributes", ()) and not hasattr(n, "lineno"):
                    ast.copy_location(n, e0)
            from ..model import set_parents
            set_parents(g)
            g._parent = parent(e0)  # type: ignore[attr-defined]
        memo[k] = (g, e0)
    return memo[k][0] if memo[k][0] is not None else e


_EAGER = ("list", "tuple", "set", "frozenset", "sorted", "dict", "sum", "deque", "collections.deque")


def _pipeline_views(fi: FuncInfo) -> list[ast.GeneratorExp]:
    """the views of the pipelines of fi that are certainly run to the end (consumed by list(..) / "".join(..) / a for loop ...), outermost only"""
    out = []
    for n in walk_no_nested(fi.node):
        if not isinstance(n, ast.Call) or (chain(n.func) or "").split(".")[-1] not in ("map", "filter", "from_iterable"):
            continue
        p_ = parent(n)
        eager = (isinstance(p_, ast.Call) and n in p_.args and ((chain(p_.func) or "") in _EAGER or (isinstance(p_.func, ast.Attribute) and p_.func.attr in ("join", "extend", "update")))) \
            or (isinstance(p_, (ast.For, ast.AsyncFor)) and p_.iter is n) or isinstance(p_, ast.YieldFrom)
        if not eager:
            continue
        v = _pipeline(fi, n)
        if v is not n and isinstance(v, ast.GeneratorExp):
            out.append(v)
    return out


def _walk_with_views(fi: FuncInfo):
    """walk_no_nested(fi.node) followed by the nodes of the pipeline views of fi"""
    yield from walk_no_nested(fi.node)
    for v in _pipeline_views(fi):
        yield from ast.walk(v)


def _calls_with_views(fi: FuncInfo) -> list[ast.Call]:
    return calls(fi) + [n for v in _pipeline_views(fi) for n in ast.walk(v) if isinstance(n, ast.Call)]


def _resolves_to(fi: FuncInfo, expr: ast.AST, pred, depth: int = 4) -> bool:
    """pred holds for expr, or expr is a local all of whose definitions (recursively) satisfy pred."""
    if expr is None:
        return False
    expr = strip_cast(expr)
    try:
        if pred(expr):
            return True
    except Exception:  # noqa: BLE001
        pass
    if depth > 0 and isinstance(expr, ast.Name) and expr.id not in fi.params():
        defs = local_defs(fi, expr.id)
        if defs and all(v is not None and idx is None for _, v, idx in defs):
            return all(_resolves_to(fi, v, pred, depth - 1) for _, v, idx in defs)
    return False


def _is_name(e: ast.AST, names) -> bool:
    e = strip_cast(e)
    return isinstance(e, ast.Name) and (e.id == names if isinstance(names, str) else e.id in names)


def _key_of(raw: ast.AST) -> ast.AST | None:
    if isinstance(raw, ast.Call):
        return arg(raw, 0, "key")
    if isinstance(raw, ast.Subscript):
        return raw.slice
    return None


def _key_bin_of(fi: FuncInfo, e: ast.AST, who: str) -> bool:
    """e evaluates <who>.public_key.key_to_bin()"""
    return _resolves_to(fi, e, lambda x: chain(x) == f"{who}.public_key.key_to_bin()")


def _raw_reads(fi: FuncInfo, index: str, helpers=()) -> list[ast.AST]:
    """Expressions that take a cached value out of self.<index> (directly, or through a private helper that hands the entry out unvalidated)."""
    out = []
    for n in walk_no_nested(fi.node):
        if isinstance(n, ast.Call) and any(chain(n.func) == f"self.{h}" for h in helpers):
            out.append(n)
        elif isinstance(n, ast.Call) and isinstance(n.func, ast.Attribute) and chain(n.func.value) == f"self.{index}" \
                and n.func.attr in ("get", "pop", "setdefault", "values", "items"):
            out.append(n)
        elif isinstance(n, ast.Subscript) and isinstance(n.ctx, ast.Load) and chain(n.value) == f"self.{index}":
            out.append(n)
    return out


def _value_positions(e: ast.AST) -> list[ast.AST]:
    """Sub-expressions whose value can be the value of e (through casts, conditional expressions, and/or)."""
    e = strip_cast(e)
    if isinstance(e, ast.IfExp):
        return _value_positions(e.body) + _value_positions(e.orelse)
    if isinstance(e, ast.BoolOp):
        return [p for v in e.values for p in _value_positions(v)]
    if isinstance(e, ast.NamedExpr):
        return _value_positions(e.value)
    return [e]


# ------------------------------------------------------------------------------------------------------------------
# which stored collection does a receiver expression denote: self.<coll> itself, a local alias of it (ALL definitions), a loop /
# comprehension variable that ranges over a literal tuple of collections (`for m in (self.a, self.b): m.pop(k, None)` - the variable
# denotes the set of the literal's values), or getattr(self, "<name>") with a constant / literal-ranged name

_COMPS = (ast.ListComp, ast.SetComp, ast.GeneratorExp, ast.DictComp)


def _loop_values(fi: FuncInfo, target: ast.AST, it: ast.AST, name: str) -> list[ast.AST]:
    """the expressions `name` is bound to by `for <target> in <it>` when <it> is a literal tuple / list / set (also behind a local)"""
    it = _unwrap(resolve(fi, it))
    if not isinstance(it, (ast.Tuple, ast.List, ast.Set)):
        return []
    if isinstance(target, ast.Name):
        return list(it.elts) if target.id == name else []
    if isinstance(target, (ast.Tuple, ast.List)):
        for i, te in enumerate(target.elts):
            if isinstance(te, ast.Name) and te.id == name:
                return [x.elts[i] for x in it.elts if isinstance(x, (ast.Tuple, ast.List)) and len(x.elts) == len(target.elts)]
    return []


def _bound_values(fi: FuncInfo, e: ast.Name) -> list[ast.AST | None]:
    """every expression the local e may be bound to (None: a binding whose value is not syntactically known)"""
    out: list[ast.AST | None] = []
    for st, v, idx in local_defs(fi, e.id):
        if v is not None and idx is None:
            out.append(v)
        elif v is None and isinstance(st, (ast.For, ast.AsyncFor)):
            vals = _loop_values(fi, st.target, st.iter, e.id)
            out += vals if vals else [None]
        else:
            out.append(None)
    for a_ in ancestors(e):
        if isinstance(a_, _COMPS):
            for g in a_.generators:
                if any(isinstance(x, ast.Name) and x.id == e.id for x in ast.walk(g.target)):
                    vals = _loop_values(fi, g.target, g.iter, e.id)
                    out += vals if vals else [None]
        if a_ is fi.node:
            break
    return out


def _const_strings(fi: FuncInfo, e: ast.AST) -> list[str]:
    e = strip_cast(e)
    c = const_value(resolve(fi, e))
    if isinstance(c, str):
        return [c]
    if isinstance(e, ast.Name) and e.id not in fi.params():
        vals = [const_value(v) if v is not None else None for v in _bound_values(fi, e)]
        return [v for v in vals if isinstance(v, str)]
    return []


def _denotes(fi: FuncInfo, e: ast.AST, depth: int = 3) -> set[str]:
    """the `self.<attr>` objects the value of e may BE (not a copy, not an element)"""
    e = strip_cast(e)
    if isinstance(e, ast.Attribute):
        return {"self." + e.attr} if isinstance(e.value, ast.Name) and e.value.id == "self" else set()
    if isinstance(e, ast.Call):
        if chain(e.func) == "getattr" and len(e.args) >= 2 and _is_name(e.args[0], "self"):
            return {"self." + s for s in _const_strings(fi, e.args[1])}
        return set()
    if isinstance(e, (ast.IfExp, ast.BoolOp, ast.NamedExpr)):
        return {d for p_ in _value_positions(e) if p_ is not e for d in _denotes(fi, p_, depth)}
    if isinstance(e, ast.Name) and depth > 0 and e.id != "self" and e.id not in fi.params():
        return {d for v in _bound_values(fi, e) if v is not None for d in _denotes(fi, v, depth - 1)}
    return set()


def _coll_ops(fi: FuncInfo, coll: str) -> list[tuple[ast.AST, str, ast.AST, ast.AST | None]]:
    """
    (node, op, receiver, key) for every operation applied to self.<coll> in fi - spelled directly, through a local alias or through a
    variable ranging over a literal of collections.  op is the method name for calls; "set[]" / "aug[]" / "del[]" for subscript targets;
    "rebind" / "aug" / "del" for the attribute itself.  key: first argument / subscript.
    """
    want = "self." + coll
    out = []
    for n in _walk_with_views(fi):
        if isinstance(n, ast.Call) and isinstance(n.func, ast.Call) and (chain(n.func.func) or "").split(".")[-1] == "methodcaller" and len(n.args) == 1 and not n.keywords:
            # methodcaller("pop", key, None)(self.<coll>)
            n2 = _fn_applied(fi, n.func, [n.args[0]])
            if isinstance(n2, ast.Call) and want in _denotes(fi, n.args[0]):
                out.append((n, n2.func.attr, n.args[0], arg(n2, 0)))
            continue
        if isinstance(n, ast.Call) and isinstance(n.func, ast.Attribute):
            if want in _denotes(fi, n.func.value):
                out.append((n, n.func.attr, n.func.value, arg(n, 0)))
        elif isinstance(n, (ast.Assign, ast.AugAssign, ast.AnnAssign, ast.Delete)):
            tgts = n.targets if isinstance(n, (ast.Assign, ast.Delete)) else [n.target]
            kind = "del" if isinstance(n, ast.Delete) else "aug" if isinstance(n, ast.AugAssign) else "set"
            for t0 in tgts:
                for t in (t0.elts if isinstance(t0, (ast.Tuple, ast.List)) else [t0]):
                    if isinstance(t, ast.Subscript) and want in _denotes(fi, t.value):
                        out.append((n, kind + "[]", t.value, t.slice))
                    elif isinstance(t, ast.Attribute) and chain(t) == want and (kind != "set" or not isinstance(n, ast.AnnAssign) or n.value is not None):
                        out.append((n, "rebind" if kind == "set" else kind, t, None))
    return out


def _loop_binding(fi: FuncInfo, recv: ast.AST):
    """the `for` statement over a literal whose variable is the receiver `recv` - or names it: getattr(self, <variable>) - and the only
    definition of that local, else None"""
    recv = strip_cast(recv)
    if isinstance(recv, ast.Call) and chain(recv.func) == "getattr" and len(recv.args) >= 2 and _is_name(recv.args[0], "self"):
        recv = strip_cast(recv.args[1])
    if not isinstance(recv, ast.Name):
        return None
    defs = local_defs(fi, recv.id)
    if len(defs) == 1 and defs[0][1] is None and isinstance(defs[0][0], (ast.For, ast.AsyncFor)) and _loop_values(fi, defs[0][0].target, defs[0][0].iter, recv.id):
        return defs[0][0]
    return None


def _must_op_nodes(ctx: Ctx, fi: FuncInfo, coll: str, want, skip_edge=None) -> list:
    """
    CFG nodes of fi at which an operation accepted by want(node, op, receiver, key) is CERTAINLY applied to self.<coll>: the operation
    node itself when its receiver can only be that collection; the head of a loop over a non-empty literal of collections that contains
    it when every iteration performs the operation on the loop variable (or takes a condition outcome accepted by skip_edge: nothing to
    do for this collection) and the loop always runs to exhaustion.
    """
    cfg = ctx.cfg(fi)
    out = []
    for n, op, recv, key in _coll_ops(fi, coll):
        if not want(n, op, recv, key):
            continue
        if _denotes(fi, recv) == {"self." + coll}:
            out += cfg.nodes_for(n)
            continue
        loop = _loop_binding(fi, recv)
        if loop is not None and _every_iteration(cfg, loop, cfg.nodes_for(n), skip_edge) and _exhaustive(cfg, loop):
            out += [h for h in cfg.nodes_for(loop) if h.kind == "loop"]
        elif loop is None and _comp_applies_to_all(fi, n, recv):
            out += cfg.nodes_for(n)
    return out


def _comp_applies_to_all(fi: FuncInfo, node: ast.AST, recv: ast.AST) -> bool:
    """node is the element expression of an unconditional comprehension (or pipeline view) that is run to the end, and recv is its variable
    ranging over a literal of collections: the operation is applied to every collection of the literal
    (`[m.pop(k, None) for m in (self.a, self.b)]`, `list(map(methodcaller("pop", k, None), (self.a, self.b)))`)"""
    recv = strip_cast(recv)
    if not isinstance(recv, ast.Name):
        return False
    comp = parent(node)
    if not isinstance(comp, (ast.ListComp, ast.SetComp, ast.GeneratorExp)) or comp.elt is not node or len(comp.generators) != 1 or comp.generators[0].ifs:
        return False
    g = comp.generators[0]
    if not (isinstance(g.target, ast.Name) and g.target.id == recv.id and _loop_values(fi, g.target, g.iter, recv.id)):
        return False
    if isinstance(comp, ast.GeneratorExp):
        return any(v is comp for v in _pipeline_views(fi)) or (isinstance(parent(comp), ast.Call) and (chain(parent(comp).func) or "") in _EAGER)
    return True


# ------------------------------------------------------------------------------------------------------------------
# calls of Network's own methods: direct (`self._h(..)`), through a local bound to a method, or picked from a literal dispatch table
# (dict / tuple literal, subscripted or .get()) - a callable picked from a table denotes the set of the table's values

def _callable_names(fi: FuncInfo, e: ast.AST, depth: int = 3) -> list[str] | None:
    """names of the `self.<method>` callables the expression may evaluate to; None when some alternative is not of that form"""
    e = strip_cast(e)
    if isinstance(e, ast.Attribute):
        return [e.attr] if isinstance(e.value, ast.Name) and e.value.id == "self" else None
    if depth <= 0:
        return None
    alts: list[ast.AST | None]
    if isinstance(e, (ast.IfExp, ast.BoolOp, ast.NamedExpr)):
        alts = [p_ for p_ in _value_positions(e) if p_ is not e]
    elif isinstance(e, ast.Name) and e.id not in fi.params():
        alts = _bound_values(fi, e)
    elif isinstance(e, ast.Subscript):
        table = _unwrap(resolve(fi, e.value))
        if isinstance(table, ast.Dict):
            alts = list(table.values)
        elif isinstance(table, (ast.Tuple, ast.List)):
            alts = list(table.elts)
        else:
            return None
    elif isinstance(e, ast.Call) and isinstance(e.func, ast.Attribute) and e.func.attr == "get" and isinstance(_unwrap(resolve(fi, e.func.value)), ast.Dict):
        alts = list(_unwrap(resolve(fi, e.func.value)).values) + [a_ for a_ in e.args[1:2] if const_value(a_) is not None]
    elif isinstance(e, ast.Call) and chain(e.func) == "getattr" and len(e.args) >= 2 and _is_name(e.args[0], "self"):
        names = _const_strings(fi, e.args[1])
        return names or None
    else:
        return None
    out: list[str] = []
    for a_ in alts:
        if a_ is not None and const_value(strip_cast(a_)) is None:
            continue        # `None` in a dispatch table: "nothing to call" (the caller tests for it)
        r = _callable_names(fi, a_, depth - 1) if a_ is not None else None
        if r is None:
            return None
        out += r
    return out or None


_RUN_CTX: list = []      # the Ctx of the run in progress (set by run()): needed where a call is resolved without a ctx at hand


class _BindFields(ast.NodeTransformer):
    """`<self>.<field>` of a small helper object -> the expression the object was built with"""

    def __init__(self, me: str, fields: dict[str, ast.AST]) -> None:
        self.me, self.fields, self.ok = me, fields, True

    def visit_Attribute(self, n: ast.Attribute):
        if isinstance(n.value, ast.Name) and n.value.id == self.me:
            if n.attr in self.fields and isinstance(n.ctx, ast.Load):
                return clone(self.fields[n.attr])
            self.ok = False
            return n
        return self.generic_visit(n)

    def visit_Name(self, n: ast.Name):
        if n.id == self.me:
            self.ok = False
        return n


def _object_method_target(net, fi: FuncInfo, call: ast.Call) -> FuncInfo | None:
    """
    `Helper(self.a, self.b)(x)` / `h = Helper(self.a, self.b)` ... `h.run(x)`: a method of a small helper class of the same module whose
    instance only closes over Network state (every constructor argument is a `self.<attr>` expression or a constant).  The method is read
    as the private Network method it amounts to: its body with `<helper self>.<field>` replaced by the expression the field was built from.
    The result is a NEW function node kept for this run only (the repository's trees and class model are not changed).
    """
    if not _RUN_CTX or fi.cls is not net:
        return None
    ctx = _RUN_CTX[0]
    f = strip_cast(call.func)
    if isinstance(f, ast.Attribute):
        obj, mname = f.value, f.attr
    else:
        obj, mname = f, "__call__"
    obj = strip_cast(obj)
    if isinstance(obj, ast.Name) and obj.id not in fi.params() and obj.id != "self":
        d = single_def(fi, obj.id)
        obj = strip_cast(d[0]) if d is not None and d[1] is None else obj
    if not isinstance(obj, ast.Call) or isinstance(obj.func, ast.Attribute) and isinstance(obj.func.value, ast.Name) and obj.func.value.id == "self":
        return None
    memo = ctx.__dict__.setdefault("_c12_object_methods", {})
    k = (id(obj), mname)
    if k in memo:
        return memo[k]
    memo[k] = None
    cc = _ctor_components(ctx, fi.module, obj)
    if cc is None or cc[3] is None or cc[3][1] is not fi.module:
        return None
    comps, _order, _imm, (cnode, _cmod) = cc
    meth = next((st for st in cnode.body if isinstance(st, (ast.FunctionDef, ast.AsyncFunctionDef)) and st.name == mname), None)
    if meth is None or meth.decorator_list or not meth.args.args or meth.args.vararg or meth.args.kwarg:
        return None
    for v in comps.values():
        v0 = strip_cast(v)
        closed = _is_const(const_value(v0)) or (isinstance(v0, ast.Attribute) and (chain(v0) or "").startswith("self."))
        if not closed:
            return None
    me = meth.args.args[0].arg
    new = clone(meth)
    tr = _BindFields(me, comps)
    new.body = [tr.visit(st) for st in new.body]
    if not tr.ok or me != "self" and any(isinstance(n, ast.Name) and n.id == "self" for st in meth.body for n in ast.walk(st)):
        return None
    new.args.args[0].arg = "self"
    new.name = f"_{cnode.name.lstrip('_')}_{mname.strip('_')}"
    ast.fix_missing_locations(new)
    from ..model import set_parents
    set_parents(new)
    new._parent = None  # type: ignore[attr-defined]
    memo[k] = FuncInfo(name=new.name, qualname=f"{net.name}.{new.name}", node=new, module=fi.module, cls=net)
    return memo[k]


def _call_targets(net, fi: FuncInfo, call: ast.Call) -> list[FuncInfo]:
    """the methods of Network a call may run (empty: not a call of Network's own methods / not resolvable)"""
    if not (isinstance(call.func, ast.Attribute) and isinstance(call.func.value, ast.Name) and call.func.value.id == "self"):
        syn = _object_method_target(net, fi, call)
        if syn is not None:
            return [syn] if syn.node is not fi.node else []
    if isinstance(call.func, ast.Attribute) and not (isinstance(call.func.value, ast.Name) and call.func.value.id == "self"):
        return []
    names = _callable_names(fi, call.func)
    if not names:
        return []
    ts = [net.methods.get(nm) for nm in names]
    return [] if any(t is None for t in ts) else [t for t in dict.fromkeys(ts) if t.node is not fi.node]


def _params_of(t: FuncInfo) -> list[str]:
    """the parameters that call arguments bind to (without self / cls)"""
    return t.params() if "staticmethod" in t.decorator_names() else t.params()[1:]


def _is_private(fi: FuncInfo) -> bool:
    return fi.name.startswith("_") and not fi.name.startswith("__")


def _bind(fi: FuncInfo, call: ast.Call, t: FuncInfo, who: ast.AST | None) -> ast.AST | None:
    """the caller's expression `who`, seen from inside the called method t: the parameter it is passed as (a Name), or None"""
    if who is None:
        return None
    params = _params_of(t)
    for i, a_ in enumerate(call.args):
        if i < len(params) and not isinstance(a_, ast.Starred) and same_resolved(fi, a_, who):
            return ast.Name(id=params[i], ctx=ast.Load())
    for k in call.keywords:
        if k.arg and same_resolved(fi, k.value, who):
            return ast.Name(id=k.arg, ctx=ast.Load())
    return None


def _arg_for(call: ast.Call, t: FuncInfo, param: str) -> ast.AST | None:
    """the argument expression a call passes for parameter `param` of method t"""
    params = _params_of(t)
    if param in params and params.index(param) < len(call.args) and not any(isinstance(a_, ast.Starred) for a_ in call.args):
        return call.args[params.index(param)]
    for k in call.keywords:
        if k.arg == param:
            return k.value
    return None


def _unbind(fi: FuncInfo, call: ast.Call, t: FuncInfo, inner: ast.AST | None) -> ast.AST | None:
    """an expression of the called method t that is (an alias of) one of its parameters, seen from the caller: the argument expression"""
    if inner is None:
        return None
    r = resolve(t, inner)
    if isinstance(r, ast.Name) and r.id in t.params():
        return _arg_for(call, t, r.id)
    return None


def _internal_call_sites(ctx: Ctx, net, t: FuncInfo) -> list[tuple[FuncInfo, ast.Call]] | None:
    """(caller, call) for every use of Network method t; None when t is referenced from outside Network or other than by a resolvable call"""
    memo = ctx.__dict__.setdefault("_c12_call_sites", {})
    if id(t.node) not in memo:
        memo[id(t.node)] = _internal_call_sites_uncached(ctx, net, t)
    return memo[id(t.node)]


def _internal_call_sites_uncached(ctx: Ctx, net, t: FuncInfo) -> list[tuple[FuncInfo, ast.Call]] | None:
    out = []
    called = set()
    for fi in net.methods.values():
        for c in calls(fi):
            if t in _call_targets(net, fi, c):
                out.append((fi, c))
                called.add(id(c.func))
                called |= {id(x) for x in ast.walk(c.func)}
    for m, fi, a in ctx.repo.attribute_uses(t.name):
        on_self = isinstance(a.value, ast.Name) and a.value.id == "self"
        if fi is not None and fi.cls is net:
            # a reference that is not itself the callee (a dispatch-table value): fine when some call in the same function resolves to t
            if not on_self or (id(a) not in called and not any(f is fi for f, _c in out)):
                return None
            continue
        if on_self or "network" not in (chain(a.value) or "network").lower():
            continue        # an attribute of the same name on another object (self.<name> of another class, <not a network>.<name>)
        return None
    return out


# ------------------------------------------------------------------------------------------------------------------
# "every way of reaching this site establishes R": decided on the CFG by cutting the edges that establish R (condition outcomes, the
# exhausted-edge of a loop that checked every element); a condition on the RESULT of one of Network's own methods (decision helper:
# bool / None / tag / tuple element) establishes R when every `return` of that helper that is compatible with the outcome does.

def _cases(e: ast.AST, pol: bool, limit: int = 24) -> list[list]:
    """the ways e can be truthy (pol) / falsy: a list of alternatives, each a list of atom facts that then hold"""
    e = strip_cast(e)
    c = const_value(e)
    if _is_const(c):
        return [[]] if bool(c) == pol else []
    if isinstance(e, ast.UnaryOp) and isinstance(e.op, ast.Not):
        return _cases(e.operand, not pol, limit)
    if isinstance(e, ast.BoolOp):
        if isinstance(e.op, ast.And) == pol:        # every operand has the polarity
            out = [[]]
            for v in e.values:
                out = [a_ + b_ for a_ in out for b_ in _cases(v, pol, limit)]
                if len(out) > limit:
                    return [[]]
            return out
        return [c_ for v in e.values for c_ in _cases(v, pol, limit)]
    if isinstance(e, ast.IfExp):
        return [t_ + b_ for t_ in _cases(e.test, True, limit) for b_ in _cases(e.body, pol, limit)] + \
               [t_ + b_ for t_ in _cases(e.test, False, limit) for b_ in _cases(e.orelse, pol, limit)]
    return [[fact_of(e, pol)]]


def _result_test(f, cv=const_value):
    """fact f is a test of one value: (subject expression, accept(constant) -> bool, 'truthy' | 'falsy' | None); cv folds an expression
    to a constant (const_value, or _cv: also members of plain Enums and module constants)"""
    if isinstance(f.left, (ast.For, ast.AsyncFor, ast.While)):
        return None
    if f.op == "truthy":
        left, pos = f.left, f.pos
        while isinstance(left, ast.UnaryOp) and isinstance(left.op, ast.Not):
            left, pos = left.operand, not pos
        return left, (lambda c, pos=pos: bool(c) == pos), "truthy" if pos else "falsy"
    if f.op == "is":
        for a_, b_ in ((f.left, f.right), (f.right, f.left)):
            cr = cv(b_)
            if cr is None or isinstance(cr, bool):
                return a_, (lambda c, pos=f.pos, cr=cr: (c is cr) == pos), None
            if isinstance(cr, _Tag):        # the members of an Enum are singletons: identity is equality
                return a_, (lambda c, pos=f.pos, cr=cr: (c == cr) == pos), None
        return None
    if f.op == "eq":
        for a_, b_ in ((f.left, f.right), (f.right, f.left)):
            c_ = cv(b_)
            if _is_const(c_):
                return a_, (lambda c, pos=f.pos, c_=c_: (c == c_) == pos), None
    if f.op == "in" and isinstance(strip_cast(f.right), (ast.Tuple, ast.List, ast.Set)):
        vals = [cv(x) for x in strip_cast(f.right).elts]
        if all(_is_const(v) for v in vals):
            return f.left, (lambda c, pos=f.pos, vals=vals: (c in vals) == pos), None
    return None


def _test_of_fact(ctx: Ctx, fi: FuncInfo, f):
    """_result_test with Enum members / module constants folded, plus `isinstance(<subject>, C)`: mode "isinstance", accept((ClassDef,
    Module) | None) -> True / False / None(unknown) says whether an instance of that class (None: a constant) has the tested outcome"""
    if f.op == "truthy" and not isinstance(f.left, (ast.For, ast.AsyncFor, ast.While)):
        left, pos = f.left, f.pos
        while isinstance(left, ast.UnaryOp) and isinstance(left.op, ast.Not):
            left, pos = left.operand, not pos
        left = strip_cast(left)
        if isinstance(left, ast.Call) and chain(left.func) == "isinstance" and len(left.args) == 2 and not left.keywords:
            view = _plain_view(ctx, fi)

            def accept(cd, pos=pos, target=left.args[1]):
                if cd is None:      # a constant is an instance of no class of this repository
                    nm = [_last_name(x) for x in (target.elts if isinstance(target, ast.Tuple) else [target])]
                    return (not pos) if all(n_ and _class_def(ctx, fi.module, n_) is not None for n_ in nm) else None
                rel = view._is_subclass(cd, target)
                return None if rel is None else rel == pos
            return left.args[0], accept, "isinstance"
    return _result_test(f, lambda x: _cv(ctx, fi, x))


class _Tag:
    """a member of a plain Enum class as a constant: equal to itself only, truthy"""
    __slots__ = ("cls", "member")

    def __init__(self, cls: str, member: str) -> None:
        self.cls, self.member = cls, member

    def __eq__(self, other) -> bool:
        return isinstance(other, _Tag) and (self.cls, self.member) == (other.cls, other.member)

    def __hash__(self) -> int:
        return hash((self.cls, self.member))

    def __bool__(self) -> bool:
        return True

    def __repr__(self) -> str:
        return f"{self.cls}.{self.member}"


def _is_const(v) -> bool:
    return v is None or isinstance(v, (bool, int, float, str, bytes, tuple, _Tag))


def _subject_path(e: ast.AST) -> tuple[str, tuple] | None:
    """`x`, `x.f`, `x[0]`, `x["k"].f` ... -> (local name, component path), else None"""
    path = []
    e = strip_cast(e)
    while True:
        if isinstance(e, ast.Attribute):
            path.append(e.attr)
            e = strip_cast(e.value)
        elif isinstance(e, ast.Subscript) and isinstance(const_value(e.slice), (int, str)) and not isinstance(const_value(e.slice), bool):
            path.append(const_value(e.slice))
            e = strip_cast(e.value)
        else:
            break
    return (e.id, tuple(reversed(path))) if isinstance(e, ast.Name) else None


def _subject_calls(fi: FuncInfo, subj: ast.AST, depth: int = 3) -> list[tuple[ast.Call, tuple]] | None:
    """the calls whose result (or whose result's component `path`: element i / field name) the subject expression is, over ALL its
    definitions; None when it may be something else"""
    subj = strip_cast(subj)
    if isinstance(subj, ast.NamedExpr):
        subj = strip_cast(subj.value)
    if isinstance(subj, ast.Await):
        subj = strip_cast(subj.value)
    if isinstance(subj, ast.Call):
        return [(subj, ())]
    if isinstance(subj, ast.Subscript) and isinstance(const_value(subj.slice), (int, str)) and not isinstance(const_value(subj.slice), bool):
        inner = _subject_calls(fi, subj.value, depth)
        return None if inner is None else [(c, (*p_, const_value(subj.slice))) for c, p_ in inner]
    if isinstance(subj, ast.Attribute) and _subject_path(subj) is not None and _subject_path(subj)[0] not in ("self", "cls"):
        inner = _subject_calls(fi, subj.value, depth)
        return None if inner is None else [(c, (*p_, subj.attr)) for c, p_ in inner]
    if isinstance(subj, ast.Name) and depth > 0 and subj.id not in fi.params():
        out = []
        defs = local_defs(fi, subj.id)
        for _st, v, idx in defs:
            if v is None:
                return None
            inner = _subject_calls(fi, v, depth - 1)
            if inner is None:
                return None
            out += [(c, (*p_, idx) if idx is not None else p_) for c, p_ in inner]
        return out or None
    return None


# ------------------------------------------------------------------------------------------------------------------
# decisions carried by VALUES.  A decision helper (inlined by the normaliser or not) may hand its verdict over as a value: a constant / an
# Enum member, or a result object (tuple, NamedTuple, dataclass, small class, dict, SimpleNamespace) with such a tag in one component; the
# caller then acts on `verdict.tag == X` / `match`.  On the CFG alone every definition of the verdict reaches every arm of the dispatch;
# the paths that pair a definition with an arm its tag contradicts cannot be executed.  _Decisions tracks, along each path, which
# definition of such a local is live (a product of CFG node and "which expression was bound last") and drops the condition outcomes
# that the bound tag refutes.  Everything else (unknown values, calls, parameters) stays unconstrained, so the result is still an
# over-approximation of the executable paths: "every path ..." questions asked through _reach remain necessary conditions.

_LIB_BASES = ("object", "NamedTuple", "typing.NamedTuple", "Enum", "enum.Enum", "ABC", "abc.ABC", "Protocol", "typing.Protocol", "Generic", "typing.Generic")


def _class_def(ctx: Ctx, module, name: str):
    """(ClassDef, Module) of the class called `name` as seen from module (defined in it at any nesting level, or imported), else None"""
    memo = ctx.__dict__.setdefault("_c12_classdefs", {})
    k = (module.relpath, name)
    if k not in memo:
        found = [n for n in ast.walk(module.tree) if isinstance(n, ast.ClassDef) and n.name == name]
        r = None
        if len(found) == 1:
            r = (found[0], module)
        elif not found:
            t = ctx.repo.resolve_name(module, name)
            if t is not None and not isinstance(t, tuple) and isinstance(getattr(t, "node", None), ast.ClassDef):
                r = (t.node, t.module)
        memo[k] = r
    return memo[k]


def _last_name(e: ast.AST) -> str | None:
    e = strip_cast(e)
    if isinstance(e, ast.Subscript):        # Generic[T]
        e = strip_cast(e.value)
    return e.id if isinstance(e, ast.Name) else e.attr if isinstance(e, ast.Attribute) else None


def _enum_members(ctx: Ctx, module, name: str):
    """the member names of the plain Enum class `name` when its members are pairwise different values, else None"""
    cd = _class_def(ctx, module, name)
    if cd is None:
        return None
    node = cd[0]
    if len(node.bases) != 1 or chain(node.bases[0]) not in ("Enum", "enum.Enum") or node.keywords:
        return None
    members, autos, consts = [], 0, []
    for st in node.body:
        if isinstance(st, ast.Expr) and isinstance(st.value, ast.Constant):
            continue
        if isinstance(st, ast.Pass):
            continue
        if isinstance(st, (ast.FunctionDef, ast.AsyncFunctionDef)):
            if st.name in ("__eq__", "__ne__", "__bool__", "__hash__", "__new__", "_missing_", "__len__", "_generate_next_value_"):
                return None
            continue
        if isinstance(st, ast.Assign) and len(st.targets) == 1 and isinstance(st.targets[0], ast.Name):
            v = st.value
            if isinstance(v, ast.Call) and chain(v.func) in ("auto", "enum.auto") and not v.args and not v.keywords:
                autos += 1
            else:
                c = const_value(v)
                if not _is_const(c) or any(c == o for o in consts):
                    return None
                consts.append(c)
            members.append(st.targets[0].id)
            continue
        return None
    if (autos and consts) or not members or len(set(members)) != len(members):
        return None
    return frozenset(members)


def _cv(ctx: Ctx, fi: FuncInfo, e: ast.AST):
    """constant folding for decision tags: literals, members of plain Enums, module / class constants (never a local or a parameter)"""
    from ..model import NOCONST
    e = strip_cast(e)
    c = const_value(e)
    if _is_const(c):
        return c
    if isinstance(e, ast.Attribute):
        ch = (chain(e) or "").split(".")
        if len(ch) >= 2 and all(x.isidentifier() for x in ch):
            ms = _enum_members(ctx, fi.module, ch[-2])
            if ms is not None:
                return _Tag(ch[-2], ch[-1]) if ch[-1] in ms else NOCONST
    if isinstance(e, ast.Name) and (e.id in fi.params() or local_defs(fi, e.id)):
        return NOCONST
    if isinstance(e, (ast.Name, ast.Attribute)):
        try:
            c = ctx.repo.resolve_const(fi.module, e, fi.cls)
        except Exception:  # noqa: BLE001
            return NOCONST
        return c if _is_const(c) else NOCONST
    return NOCONST


def _record_of(ctx: Ctx, module, callee: ast.AST):
    """
    The callee of a constructor call builds a record whose components are its arguments: {"params": [(parameter, default expr | None)],
    "fields": {field: parameter}, "consts": {field: expr}, "indexable": bool, "immutable": bool, "cls": (ClassDef, Module) | None}
    - a NamedTuple / dataclass (no hand-written __init__ / __post_init__), a namedtuple("N", ..) factory result, or a small class whose
    __init__ only stores its parameters / constants in attributes.  None when it is anything else.
    """
    name = _last_name(callee)
    if name is None:
        return None
    memo = ctx.__dict__.setdefault("_c12_records", {})
    k = (module.relpath, name)
    if k in memo:
        return memo[k]
    memo[k] = None
    cd = _class_def(ctx, module, name)
    if cd is None:
        t = ctx.repo.resolve_name(module, name) if isinstance(strip_cast(callee), ast.Name) else None
        if isinstance(t, tuple) and t[0] == "const" and isinstance(t[2], ast.Call) and (chain(t[2].func) or "").split(".")[-1] in ("namedtuple", "NamedTuple") \
                and len(t[2].args) >= 2:
            spec = t[2].args[1]
            names = None
            if isinstance(const_value(spec), str):
                names = const_value(spec).replace(",", " ").split()
            elif isinstance(spec, (ast.List, ast.Tuple)):
                names = [const_value(x) if isinstance(const_value(x), str) else const_value(x.elts[0]) if isinstance(x, ast.Tuple) and x.elts else None
                         for x in spec.elts]
            if names and all(isinstance(x, str) for x in names) and not any(kw.arg in ("defaults", "rename") for kw in t[2].keywords):
                memo[k] = {"params": [(x, None) for x in names], "fields": {x: x for x in names}, "consts": {}, "indexable": True, "immutable": True, "cls": None}
        return memo[k]
    node = cd[0]
    own = {st.name for st in node.body if isinstance(st, (ast.FunctionDef, ast.AsyncFunctionDef))}
    bases = [chain(b) or "?" for b in node.bases]
    decos = [(chain(d.func) if isinstance(d, ast.Call) else chain(d)) or "?" for d in node.decorator_list]
    annotated = []
    for st in node.body:
        if isinstance(st, ast.AnnAssign) and isinstance(st.target, ast.Name) and "ClassVar" not in norm(st.annotation):
            annotated.append((st.target.id, st.value))
    if bases and all(b in ("NamedTuple", "typing.NamedTuple") for b in bases) and not decos:
        if "__new__" in own or "__init__" in own or "__getattr__" in own or "__getattribute__" in own or "__getitem__" in own:
            return None
        memo[k] = {"params": annotated, "fields": {f_: f_ for f_, _d in annotated}, "consts": {}, "indexable": True, "immutable": True, "cls": cd}
        return memo[k]
    dc = [d for d in node.decorator_list if ((chain(d.func) if isinstance(d, ast.Call) else chain(d)) or "").split(".")[-1] == "dataclass"]
    if dc and len(decos) == 1 and all(b in _LIB_BASES for b in bases):
        if own & {"__init__", "__post_init__", "__new__", "__getattr__", "__getattribute__", "__setattr__"}:
            return None
        frozen = isinstance(dc[0], ast.Call) and any(kw.arg == "frozen" and const_value(kw.value) is True for kw in dc[0].keywords)
        if isinstance(dc[0], ast.Call) and any(kw.arg in ("init", "kw_only") or kw.arg is None for kw in dc[0].keywords):
            return None
        params = []
        for f_, d in annotated:
            if isinstance(d, ast.Call) and (chain(d.func) or "").split(".")[-1] == "field":
                if any(kw.arg in ("init", "kw_only") or kw.arg is None for kw in d.keywords):
                    return None
                d = next((kw.value for kw in d.keywords if kw.arg == "default"), None)
                if d is None:
                    d = _NO_DEFAULT
            params.append((f_, d))
        memo[k] = {"params": params, "fields": {f_: f_ for f_, _d in params}, "consts": {}, "indexable": False, "immutable": frozen, "cls": cd}
        return memo[k]
    if not decos and all(b in _LIB_BASES and b not in ("NamedTuple", "typing.NamedTuple", "Enum", "enum.Enum") for b in bases) and "__init__" in own \
            and not own & {"__new__", "__getattr__", "__getattribute__", "__setattr__"} and not node.keywords:
        init = next(st for st in node.body if isinstance(st, ast.FunctionDef) and st.name == "__init__")
        a = init.args
        if a.vararg or a.kwarg or a.posonlyargs or a.kwonlyargs or init.decorator_list or not a.args:
            return None
        names = [x.arg for x in a.args]
        defaults = [None] * (len(names) - len(a.defaults)) + list(a.defaults)
        fields, consts = {}, {}
        for st in init.body:
            if isinstance(st, ast.Expr) and isinstance(st.value, ast.Constant):
                continue
            if isinstance(st, ast.Pass):
                continue
            tgt = st.targets[0] if isinstance(st, ast.Assign) and len(st.targets) == 1 else st.target if isinstance(st, ast.AnnAssign) and st.value is not None else None
            if not (isinstance(tgt, ast.Attribute) and isinstance(tgt.value, ast.Name) and tgt.value.id == names[0]) or tgt.attr in fields or tgt.attr in consts:
                return None
            v = strip_cast(st.value)
            if isinstance(v, ast.Name) and v.id in names[1:]:
                fields[tgt.attr] = v.id
            elif _is_const(const_value(v)):
                consts[tgt.attr] = v
            else:
                return None
        # properties / class attributes of the same name would shadow nothing here: instance attributes win; methods are not components
        memo[k] = {"params": list(zip(names[1:], defaults[1:])), "fields": fields, "consts": consts, "indexable": False, "immutable": False, "cls": cd}
        return memo[k]
    if not decos and not own & {"__new__", "__init__", "__getattr__", "__getattribute__"} and all(b in _LIB_BASES and b not in ("NamedTuple", "typing.NamedTuple", "Enum", "enum.Enum")
                                                                                                  for b in bases) and not node.keywords:
        # a plain marker class without state (`class _Refused: ...`): only its identity matters (isinstance)
        memo[k] = {"params": [], "fields": {}, "consts": {}, "indexable": False, "immutable": False, "cls": cd}
    return memo[k]


_NO_DEFAULT = ast.Constant(value=Ellipsis)      # a field whose default is not syntactically known


def _ctor_components(ctx: Ctx, module, call: ast.Call):
    """(component -> expression, positional order | None, immutable, (ClassDef, Module) | None) for a call that builds a record, else None"""
    if any(isinstance(a_, ast.Starred) for a_ in call.args) or any(kw.arg is None for kw in call.keywords):
        return None
    ch = chain(call.func) or ""
    if ch in ("dict", "SimpleNamespace", "types.SimpleNamespace") and not call.args:
        return {kw.arg: kw.value for kw in call.keywords}, None, False, None
    rec = _record_of(ctx, module, call.func)
    if rec is None:
        return None
    params = rec["params"]
    if len(call.args) > len(params):
        return None
    bound = {}
    for (p_, _d), a_ in zip(params, call.args):
        bound[p_] = a_
    for kw in call.keywords:
        if kw.arg in bound or kw.arg not in [p_ for p_, _d in params]:
            return None
        bound[kw.arg] = kw.value
    for p_, d in params:
        if p_ not in bound and d is not None and d is not _NO_DEFAULT:
            bound[p_] = d
    comps = {f_: bound[p_] for f_, p_ in rec["fields"].items() if p_ in bound}
    comps.update(rec["consts"])
    order = [p_ for p_, _d in params] if rec["indexable"] else None
    return comps, order, rec["immutable"], rec["cls"]


class _Overflow(Exception):
    pass


_TRUE, _FALSE = ast.Constant(value=True), ast.Constant(value=False)       # what an outcome taught about a local's truth value


class _Decisions:
    """path-sensitive view of one function: see the section comment above"""
    LIMIT = 40000

    def __init__(self, ctx: Ctx, fi: FuncInfo) -> None:
        self.ctx, self.fi = ctx, fi
        self.cfg = ctx.cfg(fi)
        self.tracked: set[str] = set()
        self.tests: dict[tuple[int, bool], tuple] = {}
        self.defs: dict[int, list[tuple[str, ast.AST | None, int | None]]] = {}
        self._full = None
        self._ndefs: dict[str, int] = {}
        self._collect()

    # -- which locals carry decisions, where are they bound, which condition outcomes test them
    def _test_of(self, atom: ast.AST, lab: bool):
        f = fact_of(atom, lab)
        if f.op == "truthy":
            left, pos = f.left, f.pos
            while isinstance(left, ast.UnaryOp) and isinstance(left.op, ast.Not):
                left, pos = left.operand, not pos
            left = strip_cast(left)
            if isinstance(left, ast.Call) and chain(left.func) == "isinstance" and len(left.args) == 2 and not left.keywords:
                return ("isinstance", left.args[0], left.args[1], pos)
        rt = _result_test(f, lambda x: _cv(self.ctx, self.fi, x))
        if rt is None:
            return None
        return ("value", rt[0], rt[1], rt[2])

    def _collect(self) -> None:
        fi, cfg = self.fi, self.cfg
        params = set(fi.params())
        subjects: set[str] = set()
        for n in cfg.nodes:
            if n.kind != "cond" or n.ast is None:
                continue
            for lab in (True, False):
                t = self._test_of(n.ast, lab)
                if t is None:
                    continue
                sp = _subject_path(t[1])
                if sp is None or sp[0] in ("self", "cls") or not local_defs(fi, sp[0]):
                    continue
                self.tests[(n.id, lab)] = t
                subjects.add(sp[0])
        for c in calls(fi):
            if isinstance(c.func, ast.Attribute) and not (isinstance(c.func.value, (ast.Subscript, ast.Call))):
                continue        # obj.method(...): not a computed callee
            if isinstance(c.func, (ast.Name, ast.Subscript, ast.Call, ast.Attribute)):
                # handler(peer) / TABLE[tag](peer) / TABLE.get(tag)(peer): which callable runs depends on the locals in the callee expression
                subjects |= {n.id for n in ast.walk(c.func) if isinstance(n, ast.Name) and isinstance(n.ctx, ast.Load) and n.id not in ("self", "cls")
                             and local_defs(fi, n.id)}
        todo = sorted(subjects)
        while todo and len(self.tracked) < 12:
            x = todo.pop()
            if x in self.tracked:
                continue
            defs = local_defs(fi, x)
            if not defs or not self._trackable(x, defs):
                continue
            self.tracked.add(x)
            self._ndefs[x] = len(defs) + (1 if x in params else 0)
            for _st, v, _idx in defs:
                if v is not None:
                    todo += [n.id for n in ast.walk(v) if isinstance(n, ast.Name) and isinstance(n.ctx, ast.Load) and n.id not in self.tracked
                             and n.id not in ("self", "cls") and local_defs(fi, n.id)]
        self.tests = {k: t for k, t in self.tests.items() if _subject_path(t[1])[0] in self.tracked}
        for x in self.tracked:
            for st, v, idx in local_defs(fi, x):
                for n in cfg.nodes_for(st):
                    self.defs.setdefault(n.id, []).append((x, v, idx))
        self._mut_safe = {x: self._component_reads_only(x) for x in self.tracked}

    def _trackable(self, x: str, defs) -> bool:
        """every binding of x is a statement with its own CFG node (no walrus inside a test, no nonlocal / global / del games)"""
        fi, cfg = self.fi, self.cfg
        for n in ast.walk(fi.node):
            if isinstance(n, (ast.Nonlocal, ast.Global)) and x in n.names:
                return False
            if isinstance(n, ast.Name) and n.id == x and isinstance(n.ctx, ast.Del):
                return False
            if isinstance(n, ast.NamedExpr) and n.target.id == x:
                return False
            if isinstance(n, (ast.Match,)):
                return False        # capture patterns bind names without a statement
        for st, _v, _idx in defs:
            ns = cfg.nodes_for(st)
            if not ns:
                return False
            if isinstance(st, (ast.Assign, ast.AnnAssign, ast.AugAssign)) and any(n.ast is not st for n in ns):
                return False
        return True

    def _component_reads_only(self, x: str) -> bool:
        """x is only ever bound, compared and read by component (x.f / x[i]) - so a mutable record bound to it keeps its components"""
        for n in ast.walk(self.fi.node):
            if not (isinstance(n, ast.Name) and n.id == x and isinstance(n.ctx, ast.Load)):
                continue
            p_ = parent(n)
            if isinstance(p_, (ast.Attribute, ast.Subscript)) and p_.value is n and isinstance(p_.ctx, ast.Load):
                pp = parent(p_)
                if isinstance(pp, ast.Call) and pp.func is p_:
                    return False        # x.method(...)
                continue
            if isinstance(p_, ast.Compare) and all(isinstance(o, (ast.Is, ast.IsNot)) for o in p_.ops):
                continue
            if isinstance(p_, ast.Call) and chain(p_.func) == "isinstance" and p_.args and p_.args[0] is n:
                continue
            return False
        return True

    # -- abstract evaluation
    def component(self, state: dict, e: ast.AST, path: tuple = (), now: bool = True, fuel: int = 12, as_name: bool = False):
        """the sub-expression whose value the component `path` of the value of e is (under the bindings in state), else None.
        as_name: stop at the first local the component was built from (`probe.peer` -> `cached`) instead of looking through its binding"""
        ctx, fi = self.ctx, self.fi
        while fuel > 0:
            fuel -= 1
            e = strip_cast(e)
            if isinstance(e, ast.NamedExpr):
                e = e.value
                continue
            if isinstance(e, ast.Name):
                if as_name and not path and not now:
                    return e if len(local_defs(fi, e.id)) + (1 if e.id in fi.params() else 0) == 1 else None
                if e.id in self.tracked:
                    if e.id not in state or (not now and self._ndefs.get(e.id, 2) != 1):
                        return None
                    e, now = state[e.id], False
                    continue
                if not now and len(local_defs(fi, e.id)) + (1 if e.id in fi.params() else 0) != 1:
                    return None     # read out of a stored expression: the name may have been bound again since
                return e if not path else None
            if isinstance(e, (ast.Attribute, ast.Subscript)):
                sp = _subject_path(e)
                if sp is not None and sp[0] in self.tracked and sp[1]:
                    e, path = ast.Name(id=sp[0], ctx=ast.Load()), sp[1] + tuple(path)
                    continue
                if isinstance(e, ast.Subscript) and not isinstance(e.slice, ast.Slice):
                    # TABLE[key] with a key that is a known tag: the table's entry
                    kx = self.component(state, e.slice, (), now, fuel)
                    kc = _cv(ctx, fi, kx) if kx is not None else None
                    if kx is not None and _is_const(kc) and not isinstance(kc, bool) and kc is not None:
                        e, path = e.value, (kc, *path)
                        continue
                    return None if path else e
                return e if not path else None
            if isinstance(e, ast.Call) and isinstance(e.func, ast.Attribute) and e.func.attr == "get" and 1 <= len(e.args) <= 2 and not e.keywords:
                # TABLE.get(key[, default]) on a dict display with a key that is a known tag
                table = self.component(state, e.func.value, (), now, fuel)
                table = strip_cast(table) if table is not None else None
                if isinstance(table, ast.Dict):
                    kx = self.component(state, e.args[0], (), now, fuel)
                    kc = _cv(ctx, fi, kx) if kx is not None else None
                    keys = [None if key is None else _cv(ctx, fi, key) for key in table.keys]
                    if kx is None or not _is_const(kc) or kc is None or any(key is None for key in table.keys) \
                            or not all(_is_const(c_) and c_ is not None for c_ in keys):
                        return None if path else e
                    hits = [v for c_, v in zip(keys, table.values) if c_ == kc and type(c_) is type(kc)]
                    e = hits[-1] if hits else e.args[1] if len(e.args) == 2 else ast.Constant(value=None)
                    now = False
                    continue
            if not path:
                return e
            k, rest = path[0], tuple(path[1:])
            if isinstance(e, (ast.Tuple, ast.List)):
                if isinstance(k, int) and not any(isinstance(x, ast.Starred) for x in e.elts) and -len(e.elts) <= k < len(e.elts):
                    e, path = e.elts[k], rest
                    continue
                return None
            if isinstance(e, ast.Dict):
                keys = [None if key is None else _cv(ctx, fi, key) for key in e.keys]
                if any(key is None for key in e.keys) or not all(_is_const(c_) and c_ is not None for c_ in keys):
                    return None
                hits = [v for c_, v in zip(keys, e.values) if c_ == k and type(c_) is type(k)]
                if not hits:
                    return None
                e, path = hits[-1], rest
                continue
            if isinstance(e, ast.Call):
                cc = _ctor_components(ctx, fi.module, e)
                if cc is None:
                    return None
                comps, order, _imm, _cls = cc
                if isinstance(k, int):
                    if order is None or not -len(order) <= k < len(order):
                        return None
                    k = order[k]
                if k not in comps:
                    return None
                e, path = comps[k], rest
                continue
            return None
        return None

    def _mutable(self, e: ast.AST) -> bool:
        e = strip_cast(e)
        if isinstance(e, (ast.Dict, ast.List, ast.Set, ast.ListComp, ast.SetComp, ast.DictComp)):
            return True
        if isinstance(e, ast.Call):
            cc = _ctor_components(self.ctx, self.fi.module, e)
            return cc is not None and not cc[2]
        return False

    def _after(self, u, state: dict) -> dict:
        ds = self.defs.get(u.id)
        if not ds:
            return state
        new = dict(state)
        for x, v, idx in ds:
            r = self.component(state, v, () if idx is None else (idx,)) if v is not None else None
            if r is not None and self._mutable(r) and not self._mut_safe.get(x, False):
                r = None
            if r is None:
                new.pop(x, None)
            else:
                new[x] = r
            new.pop("?" + x, None)
        return new

    def _class_of(self, e: ast.AST):
        e = strip_cast(e)
        if isinstance(e, ast.Call):
            cc = _ctor_components(self.ctx, self.fi.module, e)
            if cc is not None and cc[3] is not None:
                return cc[3]
        return None

    def _is_subclass(self, cd, target: ast.AST, fuel: int = 6):
        """True / False / None (unknown): the class cd is (a subclass of) the class(es) named by the expression target"""
        target = strip_cast(target)
        if isinstance(target, ast.Tuple):
            rs = [self._is_subclass(cd, x, fuel) for x in target.elts]
            return True if any(r is True for r in rs) else None if any(r is None for r in rs) else False
        nm = _last_name(target)
        tc = _class_def(self.ctx, self.fi.module, nm) if nm else None
        if tc is None:
            return None

        def up(c, fuel):
            if c[0] is tc[0]:
                return True
            if fuel <= 0:
                return None
            unknown = False
            for b in c[0].bases:
                if (chain(b) or "?") in _LIB_BASES or (isinstance(b, ast.Subscript) and (chain(b.value) or "?") in _LIB_BASES):
                    continue
                bn = _last_name(b)
                bc = _class_def(self.ctx, c[1], bn) if bn else None
                if bc is None:
                    unknown = True
                    continue
                r = up(bc, fuel - 1)
                if r is True:
                    return True
                if r is None:
                    unknown = True
            return None if unknown else False
        return up(cd, fuel)

    def feasible(self, u, lab, state: dict) -> bool:
        t = self.tests.get((u.id, lab))
        if t is None:
            return True
        if t[0] == "isinstance":
            r = self.component(state, t[1])
            cd = self._class_of(r) if r is not None else None
            if cd is None:
                return True
            rel = self._is_subclass(cd, t[2])
            return True if rel is None else rel == t[3]
        subj = strip_cast(t[1])
        if t[3] is not None and isinstance(subj, ast.Name) and "?" + subj.id in state:
            return (state["?" + subj.id] is _TRUE) == (t[3] == "truthy")
        r = self.component(state, t[1])
        if r is None:
            return True
        alts = _value_positions(r)
        cs = [_cv(self.ctx, self.fi, a_) for a_ in alts]
        if not all(_is_const(c) for c in cs) or (len(alts) > 1 and not isinstance(strip_cast(r), ast.IfExp)):
            return True
        try:
            return any(bool(t[2](c)) for c in cs)
        except Exception:  # noqa: BLE001
            return True

    def learn(self, u, lab, state: dict) -> dict:
        """the bindings after taking outcome `lab` of condition u: a test of a plain local teaches its value (`tag == A` taken: tag is A)
        or its truth value (`if flag:` taken: flag is truthy - until flag is bound again), so that testing the same local twice
        (`if flag: a()` ... `if flag: b()`) does not pair contradicting outcomes"""
        t = self.tests.get((u.id, lab))
        if t is None or t[0] != "value":
            return state
        subj = strip_cast(t[1])
        if not (isinstance(subj, ast.Name) and subj.id in self.tracked):
            return state
        r = self.component(state, subj)
        if r is not None and _is_const(_cv(self.ctx, self.fi, r)):
            return state        # already known exactly
        f = fact_of(u.ast, lab)
        new = None
        if f.pos and f.op in ("eq", "is"):
            other = f.right if strip_cast(f.left) is subj or (isinstance(strip_cast(f.left), ast.Name) and strip_cast(f.left).id == subj.id) else f.left
            c = _cv(self.ctx, self.fi, other)
            if isinstance(c, (_Tag, str, bytes)) or (f.op == "is" and (c is None or isinstance(c, bool))):
                new = dict(state)
                new[subj.id] = strip_cast(other)
                new.pop("?" + subj.id, None)
        elif t[3] is not None and self._fixed_truth(subj.id):
            new = dict(state)
            new["?" + subj.id] = _TRUE if t[3] == "truthy" else _FALSE
        return new if new is not None else state

    def _fixed_truth(self, x: str) -> bool:
        """every binding of x is a value whose truth cannot change afterwards (a comparison / boolean / constant / tag - not a container
        or an object that may be mutated between two tests of x)"""
        memo = self.__dict__.setdefault("_fixed", {})
        if x not in memo:
            def fixed(v, fuel=4):
                v = strip_cast(v) if v is not None else None
                if v is None or fuel <= 0:
                    return False
                if isinstance(v, ast.Compare) or _is_const(_cv(self.ctx, self.fi, v)):
                    return True
                if isinstance(v, ast.UnaryOp) and isinstance(v.op, ast.Not):
                    return True
                if isinstance(v, ast.BoolOp):
                    return all(fixed(o, fuel - 1) for o in v.values)
                if isinstance(v, ast.IfExp):
                    return fixed(v.body, fuel - 1) and fixed(v.orelse, fuel - 1)
                if isinstance(v, ast.Call):
                    return (chain(v.func) or "") in ("bool", "any", "all", "isinstance", "callable", "hasattr", "issubclass")
                if isinstance(v, ast.Name) and v.id != x and v.id not in self.fi.params():
                    ds = local_defs(self.fi, v.id)
                    return bool(ds) and all(i is None and fixed(w, fuel - 1) for _s, w, i in ds)
                return False
            memo[x] = x not in self.fi.params() and all(idx is None and fixed(v) for _st, v, idx in local_defs(self.fi, x))
        return memo[x]

    def implied(self, u, lab, state: dict) -> list:
        """
        facts that the outcome `lab` of condition u implies beyond its own atom, because the tested local was bound to an expression
        whose value decides the outcome: `flag = <test>` ... `if flag:` gives <test> (as it was when flag was bound - the same moment a
        dominating `if <test>:` would have been evaluated); `tag = A if <test> else B` ... `if tag is A:` gives <test>
        """
        t = self.tests.get((u.id, lab))
        if t is None or t[0] != "value":
            return []
        r = self.component(state, t[1])
        if r is None:
            return []
        r = strip_cast(r)
        accept, mode = t[2], t[3]
        out = []
        if isinstance(r, ast.IfExp):
            ca, cb = _cv(self.ctx, self.fi, r.body), _cv(self.ctx, self.fi, r.orelse)
            if _is_const(ca) and _is_const(cb):
                try:
                    oa, ob = bool(accept(ca)), bool(accept(cb))
                except Exception:  # noqa: BLE001
                    return []
                if oa != ob:
                    out += _atoms_with_polarity(r.test, oa)
        elif mode is not None and isinstance(r, (ast.Compare, ast.BoolOp, ast.UnaryOp, ast.Call)) and not _is_const(_cv(self.ctx, self.fi, r)):
            out += _atoms_with_polarity(r, mode == "truthy")
        return out

    # -- product search
    @staticmethod
    def _key(state: dict):
        return tuple(sorted((x, id(e)) for x, e in state.items()))

    def search(self, starts, cut_nodes=(), cut_edge=None, follow_exc: bool = True, cut_fact=None) -> dict:
        """{CFG node id: {state key: state}} reachable from the (node, state) pairs in starts"""
        cut_nodes = set(cut_nodes)
        seen: dict[int, dict] = {}
        todo = [(n, s) for n, s in starts if n not in cut_nodes]
        count = 0
        while todo:
            u, s = todo.pop()
            k = self._key(s)
            at = seen.setdefault(u.id, {})
            if k in at:
                continue
            at[k] = s
            count += 1
            if count > self.LIMIT:
                raise _Overflow
            s2 = None
            for v, lab in u.succ:
                if v in cut_nodes:
                    continue
                if lab == "exc":
                    if not follow_exc:
                        continue
                    nxt = s
                else:
                    if s2 is None:
                        s2 = self._after(u, s)
                    nxt = s2
                    if u.kind == "cond" and lab in (True, False):
                        if not self.feasible(u, lab, s2):
                            continue
                        if cut_fact is not None and any(cut_fact(g) for g in self.implied(u, lab, s2)):
                            continue
                        nxt = self.learn(u, lab, s2)
                if cut_edge is not None and cut_edge(u, v, lab):
                    continue
                todo.append((v, nxt))
        return seen

    def states_at(self, node) -> list[dict]:
        """the bindings with which an executable path from the entry can arrive at node ([{}]: nothing known)"""
        if self._full is None:
            try:
                self._full = self.search([(self.cfg.entry, {})])
            except _Overflow:
                self._full = {}
        return list(self._full.get(node.id, {}).values()) or [{}]


def _decisions(ctx: Ctx, fi: FuncInfo) -> "_Decisions | None":
    memo = ctx.__dict__.setdefault("_c12_decisions", {})
    k = id(fi.node)
    if k not in memo:
        try:
            d = _Decisions(ctx, fi)
        except AnalysisError:
            raise
        except Exception:  # noqa: BLE001  - the path-sensitive view only removes paths: without it the plain CFG is used
            d = None
        memo[k] = d if d is not None and d.tracked else None
    return memo[k]


def _reach(ctx: Ctx, fi: FuncInfo, starts=None, *, cut_nodes=(), cut_edge=None, follow_exc: bool = True, states: dict | None = None, cut_fact=None,
           after=None) -> set:
    """cfg.reach() without the paths that a value-carried decision refutes (see _Decisions); identical to cfg.reach() when the function
    has no such decision.  states (out): {node id: [bindings an executable path arrives with]} when the function has decisions"""
    cfg = ctx.cfg(fi)
    d = _decisions(ctx, fi)
    if after is not None:       # start behind the normal completion of these (statement) nodes, with the bindings they are reached with
        starts = [v for n in after for v, lab in n.succ if lab != "exc"]
    if d is None:
        return cfg.reach(starts, cut_nodes=cut_nodes, cut_edge=cut_edge, follow_exc=follow_exc)
    try:
        if after is not None:
            init = [(v, d._after(n, s)) for n in after for s in d.states_at(n) for v, lab in n.succ if lab != "exc" and lab not in (True, False)]
            init += [(v, s) for n in after for v, lab in n.succ if lab in (True, False) for s in d.states_at(v)]
        elif starts is None:
            init = [(cfg.entry, {})]
        else:
            init = [(n, s) for n in starts for s in d.states_at(n)]
        seen = d.search(init, cut_nodes, cut_edge, follow_exc, cut_fact)
    except _Overflow:
        return cfg.reach(starts, cut_nodes=cut_nodes, cut_edge=cut_edge, follow_exc=follow_exc)
    except AnalysisError:
        raise
    except Exception:  # noqa: BLE001  - see _decisions()
        ctx.__dict__.setdefault("_c12_decisions", {})[id(fi.node)] = None
        return cfg.reach(starts, cut_nodes=cut_nodes, cut_edge=cut_edge, follow_exc=follow_exc)
    if states is not None:
        states.update({k: list(v.values()) for k, v in seen.items()})
    return {n for n in cfg.nodes if n.id in seen}


def _may_call(ctx: Ctx, fi: FuncInfo, call: ast.Call, t: FuncInfo, state: dict) -> bool:
    """with the bindings in state, can the (computed) callee of `call` be Network method t?  (a callable picked from a dispatch table by a
    known tag is that entry, not any entry)"""
    d = _decisions(ctx, fi)
    if d is None:
        return True
    r = d.component(state, call.func)
    r = strip_cast(r) if r is not None else None
    if r is None:
        return True
    if isinstance(r, ast.Attribute) and isinstance(r.value, ast.Name) and r.value.id == "self":
        return r.attr == t.name
    if _is_const(const_value(r)):
        return False        # None / a constant is not callable: this binding cannot complete the call
    return True


def _facts_here(ctx: Ctx, fi: FuncInfo, site) -> list:
    """
    match.facts_at() on the EXECUTABLE paths: the condition outcomes every executable path to the site took (the engine's cut-an-edge
    test, asked through _reach, so paths refuted by a value-carried decision do not count).  An outcome that only tests a verdict local
    whose value is known on every arriving path says nothing beyond "which path was taken" and is left out; what such an outcome implies
    through the expression the local was bound to (`flag = <test>` / `tag = A if <test> else B`) is added instead.
    """
    cfg = ctx.cfg(fi)
    d = _decisions(ctx, fi)
    if d is None:
        return facts_at(cfg, site)
    nodes = cfg.nodes_for(site) if isinstance(site, ast.AST) else [site]
    live = _reach(ctx, fi)
    nodes = [n for n in nodes if n in live]
    if not nodes:
        return facts_at(cfg, site)
    out = list(expr_context_facts(site)) if isinstance(site, ast.AST) else []
    for c in cfg.nodes:
        if c.kind != "cond" or c.ast is None or c in nodes or c not in live:
            continue
        for pol in (True, False):
            if not any(lab is pol for _v, lab in c.succ):
                continue
            r2 = _reach(ctx, fi, cut_edge=lambda u, v, lab, c=c, pol=pol: u is c and lab is pol)
            if any(n in r2 for n in nodes):
                continue
            f = fact_of(c.ast, pol)
            t = d.tests.get((c.id, pol))
            if t is None or t[0] != "value":
                out.append(f)
                continue
            states = [s_ for s_ in d.states_at(c) if d.feasible(c, pol, s_)]
            explained, common = bool(states), None
            for s_ in states:
                r = d.component(s_, t[1])
                imp = d.implied(c, pol, s_)
                if not imp and not (r is not None and _is_const(_cv(ctx, fi, r))):
                    explained = False
                mine = {(ast.dump(g.atom), g.pos): g for g in imp}
                common = mine if common is None else {k: v for k, v in common.items() if k in mine}
            if not explained:
                out.append(f)
            out += list((common or {}).values())
    return out


def _guarded(ctx: Ctx, net, fi: FuncInfo, site, who, edge_ok, depth: int = 2, extra=(), leads_to: FuncInfo | None = None) -> bool:
    """every path from fi's entry to `site` takes an edge that establishes the requirement (edge_ok(fi, fact, who)), possibly decided by a helper.
    leads_to: the site is a call and only the executions in which it runs that method matter (computed callee picked by a tag)"""
    cfg = ctx.cfg(fi)
    memo: dict = {}

    def est(f) -> bool:
        k = (id(f.atom), f.pos)
        if k not in memo:
            memo[k] = False         # recursion guard
            try:
                memo[k] = bool(edge_ok(fi, f, who))
            except AnalysisError:
                raise
            except Exception:  # noqa: BLE001
                memo[k] = False
            if not memo[k] and depth > 0:
                memo[k] = _decided_by_helper(ctx, net, fi, f, who, edge_ok, depth - 1)
        return memo[k]
    if any(est(f) for f in extra):
        return True
    if isinstance(site, ast.AST):
        if any(est(f) for f in expr_context_facts(site)):
            return True
        nodes = cfg.nodes_for(site)
    else:
        nodes = [site]
    if not nodes:
        raise AnalysisError(f"undecided: no control-flow node for `{norm(site)[:60]}` in {fi.qualname}")

    def cut(u, v, lab):
        return u.kind in ("cond", "loop") and lab in (True, False) and u.ast is not None and est(fact_of(u.ast, lab))
    states: dict = {}
    r = _reach(ctx, fi, cut_edge=cut, states=states, cut_fact=est)
    hit = [n for n in nodes if n in r]
    if hit and leads_to is not None and isinstance(site, ast.Call) and states:
        return not any(_may_call(ctx, fi, site, leads_to, s_) for n in hit for s_ in states.get(n.id, [{}]))
    return not hit


def _decided_by_helper(ctx: Ctx, net, fi: FuncInfo, f, who, edge_ok, depth: int) -> bool:
    """fact f tests the result of one of Network's own methods, and every `return` of it that is compatible with f establishes the requirement"""
    rt = _test_of_fact(ctx, fi, f)
    if rt is None:
        return False
    subj, accept, mode = rt
    subjects = _subject_calls(fi, subj)
    if not subjects:
        return False
    for call, path in subjects:
        targets = _call_targets(net, fi, call)
        if not targets:
            return False
        for t in targets:
            if not _returns_establish(ctx, net, t, path, accept, mode, _bind(fi, call, t, who), edge_ok, depth):
                return False
    return True


def _compatible_returns(ctx: Ctx, t: FuncInfo, path, accept, mode) -> list[tuple[ast.Return, list[list]]]:
    """(return statement, alternatives) for every `return` of t whose value (its component `path`: tuple element / record field) may be
    compatible with the tested outcome; each alternative is the list of atom facts that hold when the returned expression has the outcome"""
    out = []
    path = tuple(path or ())
    d = _decisions(ctx, t) or _plain_view(ctx, t)
    cfg = ctx.cfg(t)
    for r in [n for n in walk_no_nested(t.node) if isinstance(n, ast.Return)]:
        if r.value is None:
            vs = [None] if not path else [_UNKNOWN]
        else:
            # the returned component under every binding of t's own decision locals an executable path can arrive with
            states = [s for n in cfg.nodes_for(r) for s in d.states_at(n)] if d.tracked else [{}]
            vs = []
            for s in states or [{}]:
                c_ = d.component(s, r.value, path)
                vs.append(_UNKNOWN if c_ is None else c_)
        cases: list[list] = []
        compatible = False
        if mode == "isinstance":
            for v in vs:
                if v is _UNKNOWN:
                    compatible = True
                elif v is None or _is_const(_cv(ctx, t, v)):
                    compatible = compatible or accept(None) is not False
                else:
                    cd = d._class_of(v)
                    compatible = compatible or cd is None or accept(cd) is not False
            if compatible:
                out.append((r, [[]]))
            continue
        for v in vs:
            if v is _UNKNOWN:
                compatible, cases = True, [[]]
                break
            c = None if v is None else _cv(ctx, t, v)
            if _is_const(c):
                if accept(c):
                    compatible = True
                    cases = cases or [[]]
                continue
            compatible = True
            if mode is not None and len(vs) == 1:
                cases = _cases(v, mode == "truthy")
            else:
                cases = [[]]
                break
        if compatible:
            out.append((r, cases or [[]]))
    return out


_UNKNOWN = object()


def _plain_view(ctx: Ctx, t: FuncInfo) -> "_Decisions":
    """a _Decisions object for a function without decision locals: component() still looks into tuple displays / record constructors"""
    memo = ctx.__dict__.setdefault("_c12_plain_views", {})
    if id(t.node) not in memo:
        d = _Decisions.__new__(_Decisions)
        d.ctx, d.fi, d.cfg = ctx, t, ctx.cfg(t)
        d.tracked, d.tests, d.defs, d._full, d._ndefs, d._mut_safe = set(), {}, {}, {}, {}, {}
        memo[id(t.node)] = d
    return memo[id(t.node)]


def _falls_off_end(ctx: Ctx, t: FuncInfo, cut_edge=None, cut_fact=None) -> bool:
    """the end of t's body can be reached without a `return` (the call then yields None)"""
    cfg = ctx.cfg(t)
    rets = [n for r in walk_no_nested(t.node) if isinstance(r, ast.Return) for n in cfg.nodes_for(r)]
    return cfg.exit in _reach(ctx, t, cut_nodes=rets, cut_edge=cut_edge, follow_exc=False, cut_fact=cut_fact)


def _returns_establish(ctx: Ctx, net, t: FuncInfo, path, accept, mode, who, edge_ok, depth: int) -> bool:
    if any(isinstance(n, (ast.Yield, ast.YieldFrom)) for n in walk_no_nested(t.node)):
        return False
    for r, cases in _compatible_returns(ctx, t, path, accept, mode):
        for case in cases:
            if not _guarded(ctx, net, t, r, who, edge_ok, depth, extra=case):
                return False
    if not path and (accept(None) if mode != "isinstance" else accept(None) is not False):
        # falling off the end returns None, which is compatible with the outcome: the end must not be reachable around the requirement
        memo: dict = {}

        def cut_f(f):
            k = (id(f.atom), f.pos)
            if k not in memo:
                try:
                    memo[k] = bool(edge_ok(t, f, who))
                except AnalysisError:
                    raise
                except Exception:  # noqa: BLE001
                    memo[k] = False
            return memo[k]

        def cut(u, v, lab):
            if not (u.kind in ("cond", "loop") and lab in (True, False) and u.ast is not None):
                return False
            return cut_f(fact_of(u.ast, lab))
        if _falls_off_end(ctx, t, cut, cut_f):
            return False
    return True


class _SubstNames(ast.NodeTransformer):
    def __init__(self, mapping: dict[str, ast.AST]) -> None:
        self.mapping = mapping

    def visit_Name(self, n: ast.Name):
        return clone(self.mapping[n.id]) if n.id in self.mapping and isinstance(n.ctx, ast.Load) else n


def _translate(t: FuncInfo, expr: ast.AST, binding: dict[str, ast.AST], depth: int = 3) -> ast.AST | None:
    """an expression of method t in the caller's terms: pure single-assignment locals expanded, parameters replaced by the arguments;
    None when it depends on anything else that is local to t"""
    e = clone(expr)
    own = {n.id for n in ast.walk(e) if isinstance(n, ast.Name) and isinstance(n.ctx, ast.Store)}
    params = set(t.params())
    locals_ = {n.id for n in walk_no_nested(t.node) if isinstance(n, ast.Name) and isinstance(n.ctx, ast.Store)} - params
    for _ in range(depth + 1):
        names = {n.id for n in ast.walk(e) if isinstance(n, ast.Name) and isinstance(n.ctx, ast.Load)} & locals_ - own
        if not names:
            break
        m = {}
        for nm in names:
            d = single_def(t, nm)
            if d is None or d[1] is not None or not _pure_expr(d[0]):
                return None
            m[nm] = d[0]
        e = _SubstNames(m).visit(e)
    else:
        return None
    used = {n.id for n in ast.walk(e) if isinstance(n, ast.Name) and isinstance(n.ctx, ast.Load)} & params - {"self", "cls"} - own
    if not used <= set(binding):
        return None
    return _SubstNames(binding).visit(e)


def _pure_expr(e: ast.AST) -> bool:
    """no call other than the read-only ones this module reasons about (dict.get / .values / key_to_bin / len ...)"""
    for n in ast.walk(e):
        if isinstance(n, (ast.Await, ast.Yield, ast.YieldFrom, ast.NamedExpr)):
            return False
        if isinstance(n, ast.Call):
            nm = n.func.attr if isinstance(n.func, ast.Attribute) else n.func.id if isinstance(n.func, ast.Name) else None
            if nm not in ("get", "values", "keys", "items", "key_to_bin", "len", "set", "list", "tuple", "frozenset", "sorted", "cast", "bool", "any", "all"):
                return False
    return True


def _call_binding(t: FuncInfo, call: ast.Call) -> dict[str, ast.AST]:
    params = _params_of(t)
    out = {params[i]: a_ for i, a_ in enumerate(call.args) if i < len(params) and not isinstance(a_, ast.Starred)}
    out.update({k.arg: k.value for k in call.keywords if k.arg})
    return out


def _helper_facts(ctx: Ctx, net, fi: FuncInfo, f, depth: int = 1) -> list:
    """
    Fact f tests the result of one of Network's own methods (a predicate / decision helper that could not be inlined): the facts, in the
    caller's terms, that hold at EVERY `return` of the helper compatible with the tested outcome.  [] when f is not such a test.
    """
    rt = _test_of_fact(ctx, fi, f)
    if rt is None:
        return []
    subj, accept, mode = rt
    subjects = _subject_calls(fi, subj)
    if not subjects:
        return []
    common: dict | None = None
    for call, idx in subjects:
        ts = _call_targets(net, fi, call)
        if not ts:
            return []
        for t in ts:
            if any(isinstance(n, (ast.Yield, ast.YieldFrom)) for n in walk_no_nested(t.node)):
                return []
            binding = _call_binding(t, call)
            cfg = ctx.cfg(t)
            alts: list[list] = []
            for r, cases in _compatible_returns(ctx, t, idx, accept, mode):
                here = _facts_here(ctx, t, r)
                alts += [here + case for case in cases]
            if not idx and (accept(None) if mode != "isinstance" else accept(None) is not False) and _falls_off_end(ctx, t):
                alts.append([])
            for facts in alts:
                if depth > 0:
                    facts = facts + [g for h in facts for g in _helper_facts_local(ctx, net, t, h, depth - 1)]
                mine = {}
                facts = facts + [g for h in facts for g in _evaluation_facts(t, h)]
                for h in facts:
                    if isinstance(h.left, (ast.For, ast.AsyncFor, ast.While)):
                        continue
                    atom = _translate(t, h.atom, binding)
                    if atom is None:
                        continue
                    pol = fact_of(h.atom, True).pos == h.pos
                    g = fact_of(atom, pol)
                    mine[(ast.dump(atom), g.pos)] = g
                common = mine if common is None else {k: v for k, v in common.items() if k in mine}
    return list((common or {}).values())


def _evaluation_facts(t: FuncInfo, h) -> list:
    """
    Fact h of function t holds, so its atom was evaluated to the end: a read `self.<dict>[k]` in it (evaluated unconditionally, inside a
    try whose handler takes the KeyError of a missing key, i.e. the function answers instead of failing for a missing key) did not raise,
    which establishes the pre-check the look-before-you-leap spelling makes: `k in self.<dict>`.
    """
    if isinstance(h.left, (ast.For, ast.AsyncFor, ast.While)) or getattr(h.atom, "_parent", None) is None:
        return []
    out = []
    for s in ast.walk(h.atom):
        if not (isinstance(s, ast.Subscript) and isinstance(s.ctx, ast.Load) and (chain(s.value) or "").startswith("self.") and chain(s.value).count(".") == 1):
            continue
        cur, ok = s, True
        while cur is not h.atom and ok:
            up = parent(cur)
            if up is None or isinstance(up, (ast.IfExp, ast.BoolOp, ast.Lambda, ast.ListComp, ast.SetComp, ast.DictComp, ast.GeneratorExp)):
                ok = False
            cur = up
        if ok and _in_try_catching(t, s, ("KeyError", "LookupError")):
            atom = ast.Compare(left=clone(s.slice), ops=[ast.In()], comparators=[clone(s.value)])
            ast.copy_location(atom, s)
            ast.fix_missing_locations(atom)
            out.append(fact_of(atom, True))
    return out


def _helper_facts_local(ctx: Ctx, net, fi: FuncInfo, f, depth: int) -> list:
    try:
        return _helper_facts(ctx, net, fi, f, depth)
    except RecursionError:      # pragma: no cover
        return []


def _with_helper_facts(ctx: Ctx, fi: FuncInfo, facts: list) -> list:
    """facts plus what the decision helpers they test establish (see _helper_facts)"""
    if not any(isinstance(n, ast.Call) for f in facts if not isinstance(f.left, (ast.For, ast.AsyncFor, ast.While)) for n in ast.walk(f.atom)):
        return facts
    net = ctx.repo.cls("Network", NW)
    return facts + [g for f in facts for g in _helper_facts(ctx, net, fi, f)]


def _loop_forall(ctx: Ctx, fi: FuncInfo, loop: ast.AST, holds) -> bool:
    """every iteration of `loop` that goes on to the next element took a condition edge with holds(fact, loop variable): when the loop is
    exhausted, the fact holds for EVERY element of the iterable"""
    if not isinstance(loop, (ast.For, ast.AsyncFor)) or not isinstance(loop.target, ast.Name):
        return False
    cfg = ctx.cfg(fi)
    x = loop.target.id

    def cut(u, v, lab):
        return u.kind == "cond" and lab in (True, False) and u.ast is not None and bool(holds(fact_of(u.ast, lab), x))
    heads = [h for h in cfg.nodes_for(loop) if h.kind == "loop"]
    if not heads:
        return False
    for h in heads:
        first = [v for v, lab in h.succ if lab is True]
        if h in cfg.reach(first, cut_edge=cut, follow_exc=False):
            return False
    return True


def _reach_sites(ctx: Ctx, net, fi: FuncInfo, find, depth: int = 3, _stack: tuple = ()) -> list[list[tuple[FuncInfo, ast.AST]]]:
    """
    Call chains from fi down to the nodes find(function) yields, through Network's private helpers: each result is a list of frames
    (function, node) where the node of every frame but the last is the call that enters the next frame's function.
    """
    out = [[(fi, n)] for n in find(fi)]
    if depth > 0:
        for c in calls(fi):
            for t in _call_targets(net, fi, c):
                if not _is_private(t) or t in _stack:
                    continue
                out += [[(fi, c)] + s for s in _reach_sites(ctx, net, t, find, depth - 1, (*_stack, fi))]
    return out


def _who_down(frames, who):
    """the caller's expression `who` as each frame of a call chain sees it (parameter passing)"""
    out = [who]
    for (fi, c), (t, _n) in zip(frames, frames[1:]):
        who = _bind(fi, c, t, who)
        out.append(who)
    return out


def _who_up(frames, inner):
    """an expression of the last frame as each outer frame sees it (the argument it passed), None where it is not a parameter"""
    out = [inner]
    for (fi, c), (t, _n) in zip(reversed(frames[:-1]), reversed(frames[1:])):
        inner = _unbind(fi, c, t, inner)
        out.append(inner)
    return list(reversed(out))


class _SeeThrough(ast.NodeTransformer):
    """replace every component read of a verdict local (`probe.peer`, `outcome[1]`) by the local the component was built from"""

    def __init__(self, dec: "_Decisions", state: dict) -> None:
        self.dec, self.state, self.changed = dec, state, False

    def visit(self, node):
        if isinstance(node, (ast.Attribute, ast.Subscript)) and isinstance(getattr(node, "ctx", None), ast.Load):
            sp = _subject_path(node)
            if sp is not None and sp[1] and sp[0] in self.dec.tracked:
                r = self.dec.component(self.state, node, as_name=True)
                if isinstance(r, ast.Name):
                    self.changed = True
                    return ast.Name(id=r.id, ctx=ast.Load())
        return self.generic_visit(node)


def _see_fact(dec: "_Decisions", state: dict, f):
    """fact f with the component reads of verdict locals replaced by what they were built from (same truth value on this path)"""
    if isinstance(f.left, (ast.For, ast.AsyncFor, ast.While)) or not any(isinstance(n, ast.Name) and n.id in dec.tracked for n in ast.walk(f.atom)):
        return f
    tr = _SeeThrough(dec, state)
    atom = tr.visit(clone(f.atom))
    if not tr.changed:
        return f
    pol = fact_of(f.atom, True).pos == f.pos
    return fact_of(ast.fix_missing_locations(atom), pol)


class _ReaderFlow:
    """
    Where does a value taken out of a cache (self.<index>) flow to inside one function, and is it re-validated against the
    authoritative collections before it is returned?

      kind "elem": the cached value is one member (reverse_ip_lookup: address -> Peer).  Every path from the cache read to a
                   `return <that value>` must pass, for each required fact, an edge that establishes it (or establishes that
                   the value is None / falsy, i.e. a miss), unless the variable is re-assigned from a clean source first.
      kind "list": the cached value is a list of members.  A list built from it is clean iff it is a filter (comprehension
                   with conditions, or a loop that appends the loop variable under dominating facts) whose conditions imply
                   the required facts for every kept element; anything else built from it (list(x), x[:], unfiltered
                   comprehension, ...) is as stale as the cache entry.  No path may return a stale list (None / empty is a miss).
    No statement positions are used: only definitions, dominating facts and CFG reachability.
    """

    def __init__(self, ctx: Ctx, fi: FuncInfo, index: str, kind: str, required, helpers=(), seed=None, depth: int = 2) -> None:
        self.ctx, self.fi, self.index, self.kind, self.required = ctx, fi, index, kind, required
        self.helpers, self.depth = helpers, depth
        self.raws = _raw_reads(fi, index, helpers)
        self.raw_ids = {id(r) for r in self.raws}
        self.keys = [k for k in (_key_of(r) for r in self.raws) if k is not None]
        self.tainted: set[str] = set()
        # seed: this function is followed from a caller that hands it the cached value: (parameters that hold it, parameters that hold
        # the cache key, parameters that hold the key peer's key_to_bin())
        self.seeds: frozenset[str] = frozenset(seed[0]) if seed else frozenset()
        self.key_bins: frozenset[str] = frozenset(seed[2]) if seed else frozenset()
        if seed:
            self.keys += [ast.Name(id=p_, ctx=ast.Load()) for p_ in seed[1]]
            self.tainted |= set(self.seeds)
        self._sub_memo: dict = {}
        self.events: dict[str, list[tuple[ast.stmt, str]]] = {}
        self.problems: list[str] = []
        self.failed: dict[str, list[str]] = {}       # required fact (label) -> the returns that are reached without it
        self._label: str | None = None
        self.validated: list[str] = []
        self.why: dict[int, str] = {}
        self.loop_events: list[tuple[str, ast.stmt, str]] = []
        self.cfg = ctx.cfg(fi) if self.raws or self.seeds else None

    # -- decision helpers and followed calls
    def expand(self, facts: list) -> list:
        return _with_helper_facts(self.ctx, self.fi, facts)

    def is_key_bin(self, e: ast.AST) -> bool:
        """e evaluates the key_to_bin() of the peer that is the cache key"""
        return any(_key_bin_of(self.fi, e, chain(k) or "?") for k in self.keys) or \
            (bool(self.key_bins) and _resolves_to(self.fi, e, lambda x: isinstance(strip_cast(x), ast.Name) and strip_cast(x).id in self.key_bins))

    def _clean_call(self, e: ast.AST, carrying) -> bool | None:
        """
        e is a call of one of Network's own methods that is handed the cached value (carrying(arg)): followed with the parameters bound.
        True: nothing unvalidated comes back (the method filters / validates what it returns or yields); False: it may; None: not such a call.
        """
        e = _unwrap(e) if self.kind == "list" else strip_cast(e)
        if not isinstance(e, ast.Call) or id(e) in self.raw_ids:
            return None
        net = self.ctx.repo.cls("Network", NW)
        ts = _call_targets(net, self.fi, e)
        if not ts:
            return None
        for t in ts:
            pairs = list(_call_binding(t, e).items())
            seeds = frozenset(p_ for p_, a_ in pairs if carrying(a_))
            if not seeds:
                return None
            if self.depth <= 0:
                return False
            keys = frozenset(p_ for p_, a_ in pairs if any(same_resolved(self.fi, a_, k) for k in self.keys))
            key_bins = frozenset(p_ for p_, a_ in pairs if self.is_key_bin(a_))
            memo = (id(t.node), seeds, keys, key_bins)
            if memo not in self._sub_memo:
                self._sub_memo[memo] = None       # recursion guard
                sub = _ReaderFlow(self.ctx, t, self.index, self.kind, self.required, self.helpers, (seeds, keys, key_bins), self.depth - 1).run()
                self._sub_memo[memo] = sub
            sub = self._sub_memo[memo]
            # while one required fact is being followed (self._label), only what the helper leaves open about THAT fact counts: a helper
            # may establish one fact and leave the other to its caller
            open_ = sub.problems if sub is not None and (self._label is None or self.kind != "elem") else sub.failed.get(self._label, []) if sub is not None else None
            if sub is None or open_:
                if sub is not None:
                    self.why[id(e)] = f"{t.name}: " + "; ".join(sub.problems)[:160]
                return False
            self.validated += [f"{t.name}: {v}" for v in sub.validated]
        return True

    # -- taint of expressions
    def _mentions(self, e: ast.AST) -> bool:
        return any(id(n) in self.raw_ids or (isinstance(n, ast.Name) and n.id in self.tainted) for n in ast.walk(e))

    def _carries(self, e: ast.AST) -> bool:
        """Can the value of e be (kind elem) / contain members of (kind list) the cached value?"""
        if e is None:
            return False
        if self.kind == "elem":
            return any(id(p) in self.raw_ids or (isinstance(p, ast.Name) and p.id in self.tainted) or self._clean_call(p, self._carries) is False
                       for p in _value_positions(e))
        e = strip_cast(e)
        if isinstance(e, ast.Compare) or (isinstance(e, ast.Call) and chain(e.func) in ("len", "bool", "any", "all", "isinstance")):
            return False
        if not self._mentions(e):
            return False
        if self._clean_call(e, self._carries) is True:
            return False
        return not self._clean_filter(e)

    def _clean_filter(self, value: ast.AST) -> bool:
        v = _unwrap(_pipeline(self.fi, _unwrap(value)))
        if not isinstance(v, (ast.ListComp, ast.SetComp, ast.GeneratorExp)):
            return False
        if self._mentions(v.elt) and not any(isinstance(g.target, ast.Name) and _is_name(v.elt, g.target.id) for g in v.generators):
            return False
        ok = False
        for i, g in enumerate(v.generators):
            if not self._mentions(g.iter):
                continue
            if not isinstance(g.target, ast.Name):
                return False
            facts = self.expand([f for g2 in v.generators[i:] for c in g2.ifs for f in _atoms_with_polarity(c, True)])
            missing = self.required(self, g.target.id, facts)
            if missing:
                self.why[id(value)] = "keeps cached members without checking " + " and ".join(missing)
                return False
            self.validated.append(f"comprehension over the cached list filtered by {'; '.join(str(f) for f in facts)}")
            ok = True
        return ok

    # -- fixpoint over local names
    def run(self) -> "_ReaderFlow":
        if not self.raws and not self.seeds:
            return self
        fi = self.fi
        names = {n.id for n in walk_no_nested(fi.node) if isinstance(n, ast.Name) and isinstance(n.ctx, ast.Store)}
        changed = True
        rounds = 0
        while changed and rounds < 10:
            changed = False
            rounds += 1
            self.problems, self.validated, self.loop_events, self.failed = [], [], [], {}
            events: dict[str, list[tuple[ast.stmt, str]]] = {}
            for name in sorted(names):
                for st, v, idx in local_defs(fi, name):
                    if v is not None and not isinstance(st, (ast.For, ast.AsyncFor)) and self._carries(v):
                        events.setdefault(name, []).append((st, f"`{norm(st)[:80]}`" + (" " + self.why[id(v)] if id(v) in self.why else "")))
            if self.kind == "list":
                self._loops(events)
            for name in events:
                if name not in self.tainted:
                    self.tainted.add(name)
                    changed = True
            self.events = events
        self._returns()
        return self

    def _loops(self, events) -> None:
        fi, cfg = self.fi, self.cfg
        validated_calls = set()
        for loop in [n for n in walk_no_nested(fi.node) if isinstance(n, (ast.For, ast.AsyncFor)) and self._mentions(n.iter)]:
            if not isinstance(loop.target, ast.Name):
                raise AnalysisError(f"undecided: {fi.qualname} iterates over a cached {self.index} entry with a structured loop target "
                                    f"(`{norm(loop.target)}`)")
            e = loop.target.id
            for n in [x for s in loop.body for x in walk_no_nested(s)]:
                sink, what = None, None
                if isinstance(n, ast.Call) and isinstance(n.func, ast.Attribute) and n.func.attr in ("append", "add", "extend", "insert", "update") \
                        and isinstance(n.func.value, ast.Name) and any(_is_name(x, e) for a in n.args for x in ast.walk(a)):
                    sink, what = n.func.value.id, n
                elif isinstance(n, ast.AugAssign) and isinstance(n.target, ast.Name) and any(_is_name(x, e) for x in ast.walk(n.value)):
                    sink, what = n.target.id, n
                elif isinstance(n, (ast.Return, ast.Yield)) and n.value is not None and any(_is_name(p, e) for p in _value_positions(n.value)):
                    sink, what = "<result>", n
                if sink is None:
                    continue
                facts = self.expand(_facts_here(self.ctx, fi, what))
                missing = self.required(self, e, facts)
                validated_calls.add(id(what))
                if missing:
                    msg = f"`{norm(what)[:80]}` keeps a cached member without checking " + " and ".join(missing)
                    if sink == "<result>":
                        self.problems.append(msg)
                    else:
                        events.setdefault(sink, []).append((enclosing_stmt(what), msg))
                        self.loop_events.append((sink, enclosing_stmt(what), msg))
                else:
                    self.validated.append(f"loop over the cached list keeps `{e}` only under {'; '.join(str(f) for f in facts)}")
        # the cached list handed to another container wholesale: X.extend(cache) / X.append(cache[i]) / X += cache
        for n in walk_no_nested(fi.node):
            if id(n) in validated_calls:
                continue
            if isinstance(n, ast.Call) and isinstance(n.func, ast.Attribute) and n.func.attr in ("append", "add", "extend", "insert", "update") \
                    and isinstance(n.func.value, ast.Name) and any(self._carries(a) for a in n.args):
                events.setdefault(n.func.value.id, []).append((enclosing_stmt(n), f"`{norm(n)[:80]}`"))
            elif isinstance(n, ast.AugAssign) and isinstance(n.target, ast.Name) and self._carries(n.value):
                events.setdefault(n.target.id, []).append((n, f"`{norm(n)[:80]}`"))

    # -- returns
    def _miss_fact(self, f, holders) -> bool:
        """the value is None / falsy on this edge: nothing cached is returned"""
        if f.op == "is" and f.pos and _is_name(f.left, holders) and const_value(f.right) is None:
            return True
        if f.op == "truthy" and not f.pos and _is_name(f.left, holders):
            return True
        return False

    def _leaves_open(self, raw, label) -> bool:
        """the cache read `raw` hands the value out without `label` established (a helper call: unless the helper establishes it)"""
        if isinstance(raw, ast.Call) and label:
            for h in self.helpers:
                if chain(raw.func) == f"self.{h}":
                    open_ = self.ctx.__dict__.get("_c12_helper_open", {}).get((self.index, h))
                    return open_ is None or label in open_
        return True

    def _carried_by(self, e: ast.AST, holders, pred=None) -> bool:
        """the value of e is (elem) / contains members of (list) what the locals in `holders` hold or what a cache read yields"""
        if e is None:
            return False
        if self.kind == "elem":
            for p in _value_positions(e):
                if (id(p) in self.raw_ids and self._leaves_open(p, self._label)) or _is_name(p, holders) or self._clean_call(p, lambda a_: self._carried_by(a_, holders, pred)) is False:
                    # `hit if hit in self.verified_peers and ... else None`: the position is only evaluated under these facts
                    if not any(self._miss_fact(f, holders) or (pred is not None and pred(f, holders)) for f in self.expand(expr_context_facts(p))):
                        return True
            return False
        e = strip_cast(e)
        if isinstance(e, ast.Compare) or (isinstance(e, ast.Call) and chain(e.func) in ("len", "bool", "any", "all", "isinstance")):
            return False
        if not any(id(n) in self.raw_ids or _is_name(n, holders) for n in ast.walk(e)):
            return False
        if self._clean_call(e, lambda a_: self._carried_by(a_, holders, pred)) is True:
            return False
        return not self._clean_filter(e)

    @staticmethod
    def _defs_at(node) -> list[tuple[str, ast.AST | None, bool]]:
        """(local, value or None, keeps-old-value) bound by the CFG node"""
        a_ = node.ast
        out = []

        def target(t, v):
            if isinstance(t, ast.Name):
                out.append((t.id, v, False))
            elif isinstance(t, (ast.Tuple, ast.List)):
                vs = v.elts if isinstance(v, (ast.Tuple, ast.List)) and len(v.elts) == len(t.elts) else [None] * len(t.elts)
                for te, ve in zip(t.elts, vs):
                    target(te.value if isinstance(te, ast.Starred) else te, ve)
        if node.kind == "loop" and isinstance(a_, (ast.For, ast.AsyncFor)):
            target(a_.target, None)
        elif node.kind == "handler" and isinstance(a_, ast.ExceptHandler) and a_.name:
            out.append((a_.name, None, False))
        elif node.kind in ("stmt", "cond") and a_ is not None:
            if isinstance(a_, ast.Assign):
                for t in a_.targets:
                    target(t, a_.value)
            elif isinstance(a_, ast.AnnAssign) and a_.value is not None:
                target(a_.target, a_.value)
            elif isinstance(a_, ast.AugAssign) and isinstance(a_.target, ast.Name):
                out.append((a_.target.id, a_.value, True))
            elif isinstance(a_, (ast.With, ast.AsyncWith)):
                for i in a_.items:
                    if i.optional_vars is not None:
                        target(i.optional_vars, None)
            if not isinstance(a_, (ast.With, ast.AsyncWith, ast.For, ast.AsyncFor, ast.While, ast.If, ast.Try)):
                for n in walk_no_nested(a_):
                    if isinstance(n, ast.NamedExpr):
                        out.append((n.target.id, n.value, False))
                    elif isinstance(n, ast.Call) and isinstance(n.func, ast.Attribute) and isinstance(n.func.value, ast.Name) \
                            and n.func.attr in ("append", "add", "extend", "insert", "update"):
                        out += [(n.func.value.id, a2, True) for a2 in n.args]       # x.extend(cache): x holds cached members too
        return out

    def _in_place(self, held, ret: ast.Return) -> None:
        """a returned cache entry that is pruned in place (x.remove(..) / del x[..] / x[:] = ..) is a filter this analysis cannot follow"""
        if self.kind != "list":
            return
        for n in walk_no_nested(self.fi.node):
            hit = (isinstance(n, ast.Call) and isinstance(n.func, ast.Attribute) and n.func.attr in ("remove", "pop", "clear", "discard", "difference_update",
                                                                                                    "intersection_update") and _is_name(n.func.value, held)) \
                or (isinstance(n, (ast.Delete, ast.Assign)) and any(isinstance(t, ast.Subscript) and _is_name(t.value, held) for t in n.targets))
            if hit and self._pruned_while_iterated(n, held):
                continue        # reported: the in-place filter does not look at every cached member
            if hit:
                raise AnalysisError(f"undecided: {self.fi.qualname} prunes the cached {self.index} entry in place (`{norm(n)[:60]}`) before `{norm(ret)[:40]}`; "
                                    "in-place filters are not followed")

    def _pruned_while_iterated(self, n: ast.AST, held) -> bool:
        """
        The pruning statement n (x.remove(..) / x.pop(..) / del x[..]) runs inside `for .. in x` over the very list it shrinks, and the
        loop goes on afterwards: the list iterator then skips the member that follows each removed one, so that member is never examined
        - of two adjacent stale members the second stays in the answer.  A definite violation of "every kept member was validated".
        """
        if not (isinstance(n, ast.Delete) or isinstance(n, ast.Call) and n.func.attr in ("remove", "pop")):
            return False
        loop = next((a for a in ancestors(n) if isinstance(a, (ast.For, ast.AsyncFor)) and _is_name(a.iter, held)), None)
        if loop is None:
            return False
        if isinstance(n, ast.Call) and not same_resolved(self.fi, n.func.value, loop.iter):
            # another holder of the same list object: only when both names are bound to the same cache read
            a, b = strip_cast(n.func.value), strip_cast(loop.iter)
            if not (isinstance(a, ast.Name) and isinstance(b, ast.Name) and (single_def(self.fi, a.id) or (None,))[0] is not None
                    and _is_name((single_def(self.fi, a.id) or (None,))[0], b.id)):
                return False
        cfg = self.cfg
        heads = cfg.nodes_for(loop)
        after = [v for m in cfg.nodes_for(enclosing_stmt(n)) for v, lab in m.succ if lab != "exc"]
        if not any(h in cfg.reach(after, follow_exc=False) for h in heads):
            return False        # the loop is left right after the removal: nothing is skipped
        self.ctx.check(False, "coherence", self.fi, enclosing_stmt(n), f"{self.fi.name}: the cached {self.index} entry is filtered without skipping members",
                       f"{self.fi.name} removes stale members from the cached {self.index} list while iterating over that same list "
                       f"(`{head(loop)[:60]}` ... `{norm(n)[:50]}`): the list iterator skips the member that follows each removed one, so a stale member "
                       "next to another stale member is never validated and is returned (and cached) as a lookup result; the next identical query "
                       "removes it - asking changes the answer")
        return True

    def _returns(self) -> None:
        """
        Path search over (CFG node, locals that hold the still unvalidated cached value): a state dies on an edge that establishes the
        wanted fact about one of the holders (or that the value is None / falsy), and when the last holder is re-assigned from a clean
        source; `b = a` makes b a further holder.  Reaching `return <holder>` is a path that returns the cache entry unvalidated.
        """
        fi, cfg = self.fi, self.cfg
        dec = _decisions(self.ctx, fi)       # value-carried decisions: which binding of a verdict local is live on the path

        def seen_through(e, st):
            """`probe.peer` with probe bound to _Lookup(.., cached) on this path is `cached`"""
            if dec is None or e is None:
                return e
            r_ = dec.component(st, e, as_name=True)
            return r_ if isinstance(r_, ast.Name) and not (isinstance(strip_cast(e), ast.Name) and strip_cast(e).id == r_.id) else e

        def edge_facts(n, lab, st):
            fs = [fact_of(n.ast, lab)]
            if dec is not None:
                fs += dec.implied(n, lab, st)
                fs = [_see_fact(dec, st, f) for f in fs]
            return self.expand(fs)
        leaves_open = self._leaves_open
        raw_returns = []
        for r in [n for n in walk_no_nested(fi.node) if isinstance(n, ast.Return) and n.value is not None]:
            hits = [p for p in _value_positions(r.value) if id(p) in self.raw_ids or (self.kind == "list" and id(_unwrap(p)) in self.raw_ids)]
            if hits:
                self.problems.append(f"`{norm(r)[:80]}` returns the cache entry itself")
                raw_returns.append((norm(r)[:60], [p if id(p) in self.raw_ids else _unwrap(p) for p in hits]))
        origins = [(n, frozenset(), f"`{norm(enclosing_stmt(raw))[:80]}`") for raw in self.raws for n in cfg.nodes_for(raw)]
        if self.seeds:      # followed from a caller: the parameters hold the cached value from the start
            origins.append((cfg.entry, self.seeds, "the cached value handed in as " + "/".join(sorted(self.seeds))))
        for name, st, msg in self.loop_events:      # a loop over the cached list that keeps members without the required checks
            origins += [(n, frozenset({name}), msg) for n in cfg.nodes_for(st)]
        wanted = self.required(self, None, None) if self.kind == "elem" else [("", None)]
        for label, pred in wanted:
            self._label = label or None
            for txt_, hits_ in raw_returns:
                if any(leaves_open(h_, label) for h_ in hits_):
                    self.failed.setdefault(label, []).append(txt_)
            bad = set()
            seen = set()
            skip = {id(n) for raw in self.raws if not leaves_open(raw, label) for n in cfg.nodes_for(raw)}
            todo = [(n, held, src, st) for n, held, src in origins if not (id(n) in skip and not held) for st in (dec.states_at(n) if dec is not None else [{}])]
            origin_nodes = {id(n) for n, _, _ in origins}
            while todo:
                n, held, src, st = todo.pop()
                sk = dec._key(st) if dec is not None else ()
                if (n.id, held, sk) in seen:
                    continue
                seen.add((n.id, held, sk))
                if len(seen) > 60000:
                    raise AnalysisError(f"undecided: too many path states in {fi.qualname} while following the cached {self.index} value")
                if isinstance(n.ast, ast.Return) and n.kind == "stmt":
                    if n.ast.value is not None:
                        for p in _value_positions(n.ast.value):
                            q = _unwrap(p) if self.kind == "list" else strip_cast(p)
                            q = seen_through(q, st)
                            if not (_is_name(q, held) or (self.kind == "list" and self._carried_by(q, held))):
                                continue
                            cf = self.expand(expr_context_facts(p))
                            if any(self._miss_fact(f, held) or (pred is not None and pred(f, held)) for f in cf):
                                continue
                            self._in_place(held, n.ast)
                            bad.add((norm(n.ast)[:60], src))
                    continue
                if n.kind == "stmt" and isinstance(n.ast, ast.Expr) and isinstance(n.ast.value, (ast.Yield, ast.YieldFrom)) and n.ast.value.value is not None:
                    # a generator hands the held value out: `yield from cached` / `yield cached_peer`
                    y = n.ast.value.value
                    for p in _value_positions(y):
                        q = _unwrap(p) if self.kind == "list" else strip_cast(p)
                        if (_is_name(q, held) or (self.kind == "list" and isinstance(n.ast.value, ast.YieldFrom) and self._carried_by(q, held))) \
                                and not (self.kind == "list" and isinstance(n.ast.value, ast.Yield)):
                            bad.add((norm(n.ast)[:60], src))
                for name, v, keeps in self._defs_at(n):
                    if self._carried_by(seen_through(v, st), held, pred):
                        held = held | {name}
                    elif not keeps:
                        held = held - {name}
                if not held:
                    continue
                st2 = dec._after(n, st) if dec is not None else st
                for v, lab in n.succ:
                    if lab == "exc":
                        continue
                    if n.kind == "cond" and lab in (True, False):
                        if dec is not None and not dec.feasible(n, lab, st2):
                            continue
                        if any(self._miss_fact(f, held) or (pred is not None and pred(f, held)) for f in edge_facts(n, lab, st2)):
                            continue
                        if dec is not None:
                            todo.append((v, held, src, dec.learn(n, lab, st2)))
                            continue
                    todo.append((v, held, src, st2))
            for ret, src in sorted(bad):
                self.failed.setdefault(label, []).append(ret)
                self.problems.append(f"a path from the cache read ({src[:120]}) reaches `{ret}`" +
                                     (f" without establishing {label}" if label else " with the unvalidated cached list"))
            if not bad and label and seen:
                self.validated.append(f"every path returning the cached value establishes {label}")
        self._label = None


def _ip_required(flow: _ReaderFlow, _group, _facts):
    """reverse_ip_lookup (address -> Peer): the cached peer is still verified and still uses the address."""
    fi = flow.fi

    def still_verified(f, held):
        return f.op == "in" and f.pos and _is_name(f.left, held) and chain(_unwrap(f.right)) == "self.verified_peers"

    def addresses_of_held(x, held):
        return _resolves_to(fi, _unwrap(x), lambda y: isinstance(_unwrap(y), ast.Call)
                            and any(chain(_unwrap(y).func) == f"{g}.addresses.values" for g in held))

    def still_uses(f, held):
        if f.op == "truthy" and f.pos and isinstance(strip_cast(f.left), ast.Call) and chain(strip_cast(f.left).func) == "any" and len(strip_cast(f.left).args) == 1:
            # any(a == key for a in cached.addresses.values())
            g = strip_cast(f.left).args[0]
            if isinstance(g, (ast.GeneratorExp, ast.ListComp, ast.SetComp)) and len(g.generators) == 1 and not g.generators[0].ifs \
                    and isinstance(g.generators[0].target, ast.Name) and addresses_of_held(g.generators[0].iter, held):
                a_ = g.generators[0].target.id
                return any(h.op == "eq" and h.pos and ((_is_name(h.left, a_) and any(same_resolved(fi, h.right, k) for k in flow.keys))
                                                       or (_is_name(h.right, a_) and any(same_resolved(fi, h.left, k) for k in flow.keys)))
                           for h in _atoms_with_polarity(g.elt, True))
            return False
        if f.op == "eq" and f.pos:
            # for a in cached.addresses.values(): if a == key: <hit>
            for a_, b_ in ((f.left, f.right), (f.right, f.left)):
                a_ = strip_cast(a_)
                if isinstance(a_, ast.Name) and a_.id not in fi.params() and any(same_resolved(fi, b_, k) for k in flow.keys):
                    defs = local_defs(fi, a_.id)
                    if defs and all(v is None and isinstance(st, (ast.For, ast.AsyncFor)) and isinstance(st.target, ast.Name) and addresses_of_held(st.iter, held)
                                    for st, v, _i in defs):
                        return True
            return False
        if not (f.op == "in" and f.pos and any(same_resolved(fi, f.left, k) for k in flow.keys)):
            return False
        return addresses_of_held(f.right, held)
    return [("`<cached> in self.verified_peers`", still_verified), (_STILL_USES, still_uses)]


_STILL_USES = "`<key> in <cached>.addresses.values()`"


def _service_required(flow: _ReaderFlow, e: str, facts) -> list[str]:
    """reverse_service_lookup (service -> [Peer]): each kept peer is verified and still advertises the service."""
    fi = flow.fi

    def services_of(x):
        x = _unwrap(x)
        if isinstance(x, ast.Call) and chain(x.func) == "self.services_per_peer.get":
            return _key_bin_of(fi, arg(x, 0, "key"), e)
        if isinstance(x, ast.Subscript) and chain(x.value) == "self.services_per_peer":
            return _key_bin_of(fi, x.slice, e)
        if isinstance(x, ast.Call) and chain(x.func) == "self.get_services_for_peer":
            return _is_name(arg(x, 0, "peer"), e)
        return False
    missing = []
    if not any(f.op == "in" and f.pos and _is_name(f.left, e) and chain(_unwrap(f.right)) == "self.verified_peers" for f in facts):
        missing.append("that the peer is in self.verified_peers")
    if not any(f.op == "in" and f.pos and any(same_resolved(fi, f.left, k) for k in flow.keys) and _resolves_to(fi, f.right, services_of) for f in facts):
        missing.append("that the peer still advertises the service (services_per_peer)")
    return missing


def _intro_required(flow: _ReaderFlow, e: str, facts) -> list[str]:
    """reverse_intro_lookup (Peer -> [address]): each kept address is still known and still introduced by that peer."""
    fi = flow.fi

    def entry_of(x):           # self._all_addresses[e] / self._all_addresses.get(e)
        x = strip_cast(x)
        if isinstance(x, ast.Subscript) and chain(x.value) == "self._all_addresses":
            return _is_name(x.slice, e)
        if isinstance(x, ast.Call) and chain(x.func) == "self._all_addresses.get":
            return _is_name(arg(x, 0, "key"), e)
        return False

    evaluated: list[ast.AST] = []        # the entry reads an introducer comparison went through

    def entry_or_blank(x):
        """the entry of e, or `self._all_addresses.get(e) or WalkableAddress(b"", ..)`: a blank introducer equals no peer's key"""
        x = strip_cast(x)
        if entry_of(x):
            evaluated.append(x)
            return True
        if isinstance(x, ast.BoolOp) and isinstance(x.op, ast.Or) and len(x.values) == 2 and entry_of(x.values[0]) and _blank_introducer(fi, x.values[1]):
            evaluated.append(x)
            return True
        if isinstance(x, ast.Call) and chain(x.func) == "self._all_addresses.get" and len(x.args) == 2 and _is_name(x.args[0], e) and _blank_introducer(fi, x.args[1]):
            evaluated.append(x.args[1])     # .get(e, WalkableAddress(b"", ..)): never None
            return True
        return False

    def introducer(x):
        x = strip_cast(x)
        if isinstance(x, ast.Attribute) and x.attr == "introduced_by":
            return _resolves_to(fi, x.value, entry_or_blank)
        if isinstance(x, ast.Subscript) and const_value(x.slice) == 0:
            return _resolves_to(fi, x.value, entry_or_blank)
        if isinstance(x, ast.Name):     # intro_peer, service, new_style = self._all_addresses[e]
            defs = local_defs(fi, x.id)
            return bool(defs) and all(v is not None and idx == 0 and entry_or_blank(v) for _, v, idx in defs)
        return False

    def known_by_evaluation() -> bool:
        """the introducer comparison was reached, so reading the entry did not fail: `self._all_addresses[e]` inside a try that catches the
        KeyError (an unknown address is skipped, not kept), or a read with a blank default entry (whose introducer matches no peer)"""
        if not evaluated:
            return False
        for x in evaluated:
            if isinstance(x, ast.Subscript):
                if not _in_try_catching(fi, x, ("KeyError", "LookupError", "Exception", "BaseException")):
                    return False
            elif isinstance(x, ast.Call) and chain(x.func) == "self._all_addresses.get":
                return False        # a bare .get(e): None has no introduced_by - the membership must be tested
        return True

    def introducer_fact(f):
        if not (f.op == "eq" and f.pos):
            return False
        for a, b in ((f.left, f.right), (f.right, f.left)):
            if (introducer(a) or _resolves_to(fi, a, introducer)) and flow.is_key_bin(b):
                return True
        return False

    def known_fact(f):
        if f.op == "in" and f.pos and _is_name(f.left, e) and chain(_unwrap(f.right)) in ("self._all_addresses", "self._all_addresses.keys()"):
            return True
        if (f.op == "is" and not f.pos and const_value(f.right) is None) or (f.op == "truthy" and f.pos):
            return _resolves_to(fi, f.left, lambda x: isinstance(x, ast.Call) and entry_of(x))
        return False
    missing = []
    has_introducer = any(introducer_fact(f) for f in facts)
    if not any(known_fact(f) for f in facts) and not (has_introducer and known_by_evaluation()):
        missing.append("that the address is still in self._all_addresses")
    if not has_introducer:
        missing.append("that the address is still introduced by this peer (introduced_by == the peer's key)")
    return missing


def _in_try_catching(fi: FuncInfo, node: ast.AST, names) -> bool:
    """node is evaluated inside the body of a try statement with a handler for one of the exception names (or a bare except)"""
    cur = node
    for a_ in ancestors(node):
        if isinstance(a_, ast.Try) and any(cur is st for st in a_.body):
            for h in a_.handlers:
                ts = [] if h.type is None else (h.type.elts if isinstance(h.type, ast.Tuple) else [h.type])
                if h.type is None or any((chain(t_) or "").split(".")[-1] in names for t_ in ts):
                    return True
        if isinstance(a_, (ast.With, ast.AsyncWith)) and any(cur is st for st in a_.body):
            for i_ in a_.items:
                c_ = strip_cast(i_.context_expr)
                if isinstance(c_, ast.Call) and (chain(c_.func) or "").split(".")[-1] == "suppress" and any((chain(t_) or "").split(".")[-1] in names for t_ in c_.args):
                    return True
        if a_ is fi.node:
            break
        cur = a_
    return False


def _private_to_class(ctx: Ctx, net, fi: FuncInfo) -> bool:
    """a private method of Network that is only called from Network's own methods"""
    if not fi.name.startswith("_") or fi.name.startswith("__"):
        return False
    sites = list(ctx.repo.callers_of_name(fi.name))
    return bool(sites) and all(caller is not None and caller.cls is net for _m, caller, _c in sites)


_READER_SPEC = {
    "reverse_ip_lookup": ("get_verified_by_address", "elem", _ip_required,
                          "the cached peer is returned without checking that it is still verified and still uses the address"),
    "reverse_intro_lookup": ("get_introductions_from", "list", _intro_required,
                             "the cached address list is returned without checking the addresses are still known and introduced by that peer"),
    "reverse_service_lookup": ("get_peers_for_service", "list", _service_required,
                               "cached per-service list returned without filtering by verified_peers and services_per_peer"),
}


def reader_validation(ctx: Ctx) -> dict[str, tuple[bool, str]]:
    """index -> (every reader validates the cached value against the authoritative collection, explanation)."""
    net = ctx.repo.cls("Network", NW)
    out = {}
    for index, (reader, kind, required, dflt) in _READER_SPEC.items():
        ctx.anchor(net.methods.get(reader), f"Network.{reader}")
        # a private helper that hands a cache entry out as it is (e.g. "pop and re-insert on top") is not a reader of its own:
        # its call sites are cache reads, and the callers must validate what they got
        helpers: set[str] = set()
        for _round in range(3):
            problems, how, nreads, grew = [], [], 0, False
            failed: dict[str, list[str]] = {}
            for fi in net.methods.values():
                flow = _ReaderFlow(ctx, fi, index, kind, required, helpers).run()
                if flow.problems and fi.name != reader and fi.name not in helpers and _private_to_class(ctx, net, fi):
                    helpers.add(fi.name)
                    # ... but what it does establish about every value it hands out need not be established again by its callers
                    ctx.__dict__.setdefault("_c12_helper_open", {})[(index, fi.name)] = None if kind != "elem" or not flow.failed else set(flow.failed)
                    grew = True
                    continue
                if fi.name in helpers:
                    continue
                nreads += len(flow.raws) if fi.name == reader else 0
                problems += [f"{fi.name}: {p}" for p in flow.problems]
                for lab_, rets_ in flow.failed.items():
                    failed.setdefault(lab_, []).extend(f"{fi.name}: `{r_}`" for r_ in rets_)
                how += [f"{fi.name}: {v}" for v in flow.validated]
            if not grew:
                break
        ctx.__dict__.setdefault("_c12_reader_failed", {})[index] = (failed, nreads)
        if problems:
            out[index] = (False, dflt + " [" + "; ".join(dict.fromkeys(problems))[:300] + "]")
        elif nreads == 0:
            out[index] = (True, f"{reader} never reads the cache: every answer is recomputed")
        else:
            out[index] = (True, "; ".join(dict.fromkeys(how))[:300] or "no cached value reaches a return")
    out["verified_by_public_key_bin"] = (False, "plain dict read (get_verified_by_public_key_bin, lazy_wrapper): no validation possible")
    return out


def _null_knowledge_after(node, know: dict) -> dict:
    """{local: "N" (None / falsy) | "T" (not None / truthy)} after CFG node `node` ran, given the knowledge it is reached with"""
    a_ = node.ast
    stored: set = set()
    if a_ is None:
        return know
    if node.kind == "loop":
        if isinstance(a_, (ast.For, ast.AsyncFor)):
            stored = {n.id for n in ast.walk(a_.target) if isinstance(n, ast.Name)}
    elif isinstance(a_, ast.ExceptHandler):
        stored = {a_.name} if a_.name else set()
    elif isinstance(a_, (ast.With, ast.AsyncWith)):
        stored = {n.id for i in a_.items if i.optional_vars is not None for n in ast.walk(i.optional_vars) if isinstance(n, ast.Name)}
    elif isinstance(a_, (ast.FunctionDef, ast.AsyncFunctionDef, ast.ClassDef)):
        stored = {a_.name}
    elif node.kind in ("stmt", "cond"):
        stored = {n.id for n in walk_no_nested(a_) if isinstance(n, ast.Name) and isinstance(n.ctx, (ast.Store, ast.Del))}
    if not stored:
        return know
    new = {k: v for k, v in know.items() if k not in stored}
    if isinstance(a_, ast.Assign) and len(a_.targets) == 1 and isinstance(a_.targets[0], ast.Name):
        v = strip_cast(a_.value)
        if isinstance(v, ast.Constant) and v.value is None:
            new[a_.targets[0].id] = "N"
        elif isinstance(v, ast.Name) and v.id in know:
            new[a_.targets[0].id] = know[v.id]
    return new


def _null_knowledge_of_edge(node, lab) -> tuple[str, str] | None:
    """(local, "N" | "T") that the outcome `lab` of condition node `node` says about a local's being None / falsy"""
    if node.kind != "cond" or lab not in (True, False) or node.ast is None:
        return None
    f = fact_of(node.ast, lab)
    left = strip_cast(f.left)
    if not isinstance(left, ast.Name):
        return None
    if f.op == "truthy":
        return left.id, "T" if f.pos else "N"
    if f.op in ("is", "eq") and isinstance(f.right, ast.Constant) and f.right.value is None:
        return left.id, "N" if f.pos else "T"
    return None


def _stale_hit_rescans(ctx: Ctx, net) -> None:
    """
    get_verified_by_address answers "the verified peer that uses this address, or None".  The address cache only ever proves a POSITIVE
    answer (a hit that is still verified and still uses the address); every other outcome of the cache read - a miss, or a hit that failed
    its validation - says nothing about the other verified peers, so the answer must come from looking at self.verified_peers.  Decided on
    the CFG: from the cache read, no normal exit may be reached without passing either the scan of the verified peers or a condition
    outcome that completes the validation of the cached peer (both required facts).  Paths that a test of a local against None refutes
    (`peer = None` ... `if not peer`) are not walked.  Not decided (no verdict) when the reader shows no recognisable validation edge at
    all: the flow rule (reader validation) then speaks about the unvalidated return.
    """
    f = net.methods["get_verified_by_address"]
    flow = _ReaderFlow(ctx, f, "reverse_ip_lookup", "elem", _ip_required)
    if not flow.raws or flow.cfg is None:
        return
    cfg = flow.cfg
    preds = [p_ for _lab, p_ in _ip_required(flow, None, None)]
    held: set[str] = set()
    for _round in range(3):
        for n in walk_no_nested(f.node):
            if isinstance(n, ast.Name) and isinstance(n.ctx, ast.Store) and n.id not in held:
                for _st, v, idx in local_defs(f, n.id):
                    if v is not None and idx is None and any(id(strip_cast(p_)) in flow.raw_ids or _is_name(p_, held) for p_ in _value_positions(v)):
                        held.add(n.id)
    if not held:
        return
    scans = _scans_verified(ctx, net, f, depth=2)
    if not scans:
        return          # "a cache miss scans self.verified_peers" is reported by the caller
    scan_ids = {n.id for n in scans}
    memo: dict = {}

    def completes_validation(u, lab) -> bool:
        k = (u.id, lab)
        if k not in memo:
            memo[k] = False
            if u.kind == "cond" and lab in (True, False) and u.ast is not None:
                try:
                    own = flow.expand([fact_of(u.ast, lab)])
                    if any(p_(g, held) for g in own for p_ in preds):
                        every = own + flow.expand(list(_facts_here(ctx, f, u)))
                        memo[k] = all(any(p_(g, held) for g in every) for p_ in preds)
                except AnalysisError:
                    raise
                except Exception:  # noqa: BLE001
                    memo[k] = False
        return memo[k]
    n_valid = sum(1 for u in cfg.nodes for _v, lab in u.succ if completes_validation(u, lab))
    if n_valid == 0:
        ctx.note("get_verified_by_address: no condition outcome recognisably completes the validation of the cached peer - 'a stale hit rescans' not decided")
        return
    starts = [(v, ()) for r in flow.raws for n in cfg.nodes_for(r) for v, lab in n.succ if lab != "exc"]
    # the read itself may be the value of an assignment: knowledge starts behind it
    seen: set = set()
    stack = list(starts)
    reached = None
    while stack:
        node, know_t = stack.pop()
        if (node.id, know_t) in seen:
            continue
        seen.add((node.id, know_t))
        if len(seen) > 20000:
            raise AnalysisError("undecided: too many path states in Network.get_verified_by_address while following the outcomes of the address cache read")
        if node is cfg.exit:
            reached = node
            break
        if node.id in scan_ids:
            continue
        know = _null_knowledge_after(node, dict(know_t))
        for v, lab in node.succ:
            if lab == "exc":
                continue
            if completes_validation(node, lab):
                continue
            k2 = know
            e_ = _null_knowledge_of_edge(node, lab)
            if e_ is not None:
                if know.get(e_[0], e_[1]) != e_[1]:
                    continue        # refuted by what is known about the local on this path
                k2 = {**know, e_[0]: e_[1]}
            stack.append((v, tuple(sorted(k2.items()))))
    ctx.check(reached is None, "coherence", f, f.node, "get_verified_by_address: a cache miss or a stale hit is answered from a scan of self.verified_peers",
              "get_verified_by_address can answer without looking at self.verified_peers although the address cache gave no valid hit (a miss, or a cached peer "
              "that is no longer verified / no longer uses the address): the cache entry says nothing about the OTHER verified peers, so a verified peer that "
              "uses the address is not found by lookup by address (and the stale entry is gone afterwards: asking again gives another answer)")


def rule_matrix(ctx: Ctx) -> None:
    sites = mutation_sites(ctx)
    # confirmed: every authoritative collection is both extended and reduced somewhere in network.py (how many statements do it is a
    # matter of code shape: duplicated blocks may be merged, removals may share a helper)
    ctx.floor("coherence.mutation-sites", len({(coll, kind) for _f, coll, kind, _n in sites if kind in ("add", "remove")}), 6)
    validates = reader_validation(ctx)
    ctx.extra["reader_validation"] = {k: {"validates": v[0], "how": v[1]} for k, v in validates.items()}
    seen = set()
    matrix = {}
    for fi, coll, kind, node in sites:
        if kind == "add-neutral":
            ctx.instance("coherence", fi.where, f"{fi.name}: {norm(node)[:60]} adds an address without introducer (no index affected)", line=node.lineno)
            continue
        deps = DEPENDS.get((coll, kind), {})
        for index, reason in deps.items():
            key = (fi.qualname, coll, kind, index)
            if key in seen:
                continue
            seen.add(key)
            upd = _updates_index(ctx, fi, index) or _callers_update(ctx, fi, index)
            val = validates[index][0] and kind == "remove"       # validation cures stale members, not missing ones
            ok = upd or val
            if not ok:
                _undecided_if_escapes(ctx, ctx.repo.cls("Network", NW), fi, [index], f"{fi.name} ({coll} {kind}) x {index}")
            matrix[f"{fi.name} [{coll} {kind}] x {index}"] = "updates" if upd else "reader-validates" if val else "STALE"
            ctx.check(ok, "coherence", fi, node, f"{fi.name} ({coll} {kind}) x {index}: " + ("index updated by the mutator" if upd else "readers validate"),
                      f"{fi.name} {'removes from' if kind == 'remove' else 'adds to'} {coll} but neither updates {index} nor do its readers validate "
                      f"({reason}; reader: {validates[index][1]}): lookups disagree with the membership afterwards")
    ctx.extra["coherence_matrix"] = matrix
    # The addresses of a verified peer change without any remover running: add_verified_peer's address-update path merges the new addresses
    # into the known instance, and Peer.add_address / peer.addresses are public API that code outside the graph uses on the very objects
    # the graph stores.  No mutator can purge the address cache for that, so "lookup by address agrees with the verified peers' addresses"
    # rests on the reader alone: every cached peer it hands out must be shown to STILL USE the queried address.
    failed, nreads = ctx.__dict__.get("_c12_reader_failed", {}).get("reverse_ip_lookup", ({}, 0))
    reader = ctx.repo.cls("Network", NW).methods["get_verified_by_address"]
    stale = failed.get(_STILL_USES, [])
    ctx.check(not stale, "coherence", reader, reader.node,
              "get_verified_by_address: a cached peer is only returned after checking that it still uses the address (address changes of a live peer purge nothing)"
              if nreads else "get_verified_by_address never reads the address cache: every answer is recomputed from the verified peers' addresses",
              "the address cache (reverse_ip_lookup) is read without checking that the cached peer STILL USES the queried address (" + "; ".join(dict.fromkeys(stale))[:200]
              + "): the addresses of a verified peer change without any removal (add_verified_peer merges the addresses of a known identity into the stored instance, "
              "Peer.add_address is public), which purges nothing, so a peer that moved away from the address keeps being returned by lookup by address - even after "
              "another verified peer took the address over")
    # cached lists are never created from partial knowledge: D[k] = [<single element>] outside the readers
    net = ctx.repo.cls("Network", NW)
    readers = {"get_verified_by_address", "get_introductions_from", "get_peers_for_service"}
    for fi in net.methods.values():
        if fi.name in readers or fi.name == "__init__":
            continue
        for st, t in stores(fi, [f"self.{d}[]" for d in DERIVED if d != "verified_by_public_key_bin"]):
            v = resolve(fi, st.value) if isinstance(st, ast.Assign) else None
            partial = isinstance(v, (ast.List, ast.Tuple, ast.Set)) and len(v.elts) >= 1
            ctx.check(not partial, "coherence", fi, st, f"{fi.name}: no partial cache entry created",
                      f"{fi.name} creates the cache entry `{norm(st)}` from the one element it knows: after an eviction the cached list is incomplete")
    # every miss recomputes from the authoritative collection
    for name, index, auth in (("get_verified_by_address", "reverse_ip_lookup", "self.verified_peers"),
                              ("get_introductions_from", "reverse_intro_lookup", "self._all_addresses"),
                              ("get_peers_for_service", "reverse_service_lookup", "self.verified_peers")):
        f = net.methods[name]
        # (also in a private helper the reader delegates the recomputation to, e.g. a generator over the authoritative collection)
        scans = _reach_sites(ctx, net, f, lambda g, auth=auth: [n for n in ast.walk(g.node) if isinstance(n, (ast.For, ast.comprehension))
                                                                and (mentions(n.iter, auth) or (auth == "self.verified_peers" and _resolves_to(g, n.iter, lambda y: _verified_members(g, y))))])
        ctx.check(bool(scans), "coherence", f, f.node, f"{name}: a cache miss scans {auth}", f"{name} does not recompute from {auth} on a cache miss")
    _stale_hit_rescans(ctx, net)
    # readers do not change the answer: they only write their own cache
    for name in _QUERIES:
        f = net.methods[name]
        for fi2, coll, kind, node in sites:
            if fi2 is f:
                ctx.check(False, "coherence", f, node, f"{name} is read-only", f"the query {name} mutates {coll}: asking changes the answer")
        ctx.instance("coherence", f.where, f"{name} does not mutate authoritative collections")
    # ... also not through a local alias of a stored collection (services = self.services_per_peer.get(k, set()); services.add(x))
    for name in _QUERIES:
        f = net.methods[name]
        for node, var, src in _alias_mutations(f):
            ctx.check(False, "coherence", f, node, f"{name} works on a copy of the stored collection",
                      f"the query {name} mutates the very object stored in the peer graph (`{norm(node)[:60]}` on `{var}`, an alias of `{norm(src)[:70]}`): "
                      "asking changes who supports the service, and cached per-service lists disagree with a recomputation")


# ------------------------------------------------------------------------------------------------------------------
# which Peer INSTANCE goes into a lookup cache.  Peers compare equal by public key, but addresses live on the instance, and the graph
# keeps exactly one instance per identity (the member of verified_peers == the value in verified_by_public_key_bin): address updates
# (add_verified_peer's update path) are merged into THAT instance.  A cache that holds another, equal instance passes every membership
# validation and keeps answering with the addresses that instance had when it was cached.  Decided positively only: a finding needs an
# insertion whose value can be nothing but a Peer handed in from outside that this call does not make the stored instance.

_CANONICAL_SOURCES = ("self.verified_by_public_key_bin", "self.verified_peers", "self.get_verified_by_public_key_bin", "self.get_verified_by_address",
                      "self.get_peers_for_service", "self.reverse_service_lookup", "self.reverse_ip_lookup")


def _registers(ctx: Ctx, net, fi: FuncInfo, param: str, depth: int = 2) -> bool:
    """somewhere in fi (or in a Network method it hands the parameter to) the parameter becomes the stored instance: verified_peers.add(p) /
    verified_by_public_key_bin[..] = p"""
    who = ast.Name(id=param, ctx=ast.Load())
    for n, op, _r, key in _coll_ops(fi, "verified_peers"):
        if op in ("add",) and key is not None and same_resolved(fi, key, who):
            return True
        if op in ("update", "aug") and any(_is_name(x, param) for x in ast.walk(n)):
            return True
    for n, op, _r, _k in _coll_ops(fi, "verified_by_public_key_bin"):
        if op in _ADD_OPS and any(_is_name(x, param) for x in ast.walk(n)):
            return True
    if depth > 0:
        for c in calls(fi):
            for t in _call_targets(net, fi, c):
                inner = _bind(fi, c, t, who)
                if inner is not None and _registers(ctx, net, t, inner.id, depth - 1):
                    return True
    return False


def _instance_origin(ctx: Ctx, net, fi: FuncInfo, e: ast.AST, depth: int = 3, _seen: frozenset = frozenset()) -> str:
    """'foreign': the value of e can only be a Peer object handed in from outside the graph that is not made the stored instance;
    'stored': some alternative is drawn from the graph's own collections; 'unknown' otherwise"""
    got = set()
    for p_ in _value_positions(e):
        p_ = strip_cast(p_)
        if any(mentions(p_, src) for src in _CANONICAL_SOURCES):
            got.add("stored")
        elif isinstance(p_, ast.Name) and p_.id in _params_of(fi) and not local_defs(fi, p_.id):
            if _registers(ctx, net, fi, p_.id):
                got.add("stored")
            elif not _is_private(fi):
                got.add("foreign")
            elif depth > 0 and (id(fi.node), p_.id) not in _seen:
                sites = _internal_call_sites(ctx, net, fi)
                if not sites:
                    got.add("unknown")
                for caller, call in sites or []:
                    a_ = _arg_for(call, fi, p_.id)
                    got.add(_instance_origin(ctx, net, caller, a_, depth - 1, _seen | {(id(fi.node), p_.id)}) if a_ is not None else "unknown")
            else:
                got.add("unknown")
        elif isinstance(p_, ast.Name) and p_.id not in fi.params() and depth > 0 and (id(fi.node), p_.id) not in _seen:
            vals = _bound_values(fi, p_)
            if not vals:
                got.add("unknown")
            for v in vals:
                if v is None:
                    # a loop / comprehension variable: over the graph's own collections it is a stored instance
                    its = [st.iter for st, v_, _i in local_defs(fi, p_.id) if v_ is None and isinstance(st, (ast.For, ast.AsyncFor))]
                    got.add("stored" if its and all(any(mentions(it, src) for src in _CANONICAL_SOURCES) or _entry_of_index(fi, it, "reverse_service_lookup", ctx)
                                                   for it in its) else "unknown")
                else:
                    got.add(_instance_origin(ctx, net, fi, v, depth - 1, _seen | {(id(fi.node), p_.id)}))
        else:
            got.add("unknown")
    if got == {"foreign"}:
        return "foreign"
    return "stored" if "stored" in got else "unknown"


def rule_canonical_instances(ctx: Ctx) -> None:
    net = ctx.repo.cls("Network", NW)
    n = 0
    for fi in net.methods.values():
        sites = []
        for c in calls(fi):
            if isinstance(c.func, ast.Attribute) and c.func.attr in ("append", "insert", "add") and c.args \
                    and _entry_of_index(fi, c.func.value, "reverse_service_lookup", ctx, loops=True):
                sites.append((c, c.args[-1], "reverse_service_lookup"))
        for nd, op, _r, _k in _coll_ops(fi, "reverse_ip_lookup"):
            if op == "set[]" and isinstance(nd, (ast.Assign, ast.AnnAssign)) and nd.value is not None:
                sites.append((nd, nd.value, "reverse_ip_lookup"))
            elif op in ("__setitem__", "setdefault") and isinstance(nd, ast.Call) and len(nd.args) == 2:
                sites.append((nd, nd.args[1], "reverse_ip_lookup"))
        for node, value, index in sites:
            n += 1
            origin = _instance_origin(ctx, net, fi, value)
            ctx.check(origin != "foreign", "coherence", fi, node, f"{fi.name}: the Peer put into {index} is the instance the graph stores (or cannot be told apart statically: {origin})",
                      f"{fi.name} puts the Peer object it was handed (`{norm(value)[:40]}`) into the {index} cache instead of the instance the graph stores for that identity "
                      "(verified_by_public_key_bin / verified_peers): peers compare equal by public key, so every membership validation passes, but address updates are "
                      "merged into the stored instance only - the cached copy keeps its old addresses, and the lookups that go through this cache (peers per service, "
                      "walkable addresses) disagree with the verified peer's real addresses")


def _alias_of(fi: FuncInfo, e: ast.AST, coll: str, depth: int = 3) -> bool:
    """
    e IS the object `self.<attr>` named by coll: spelled directly, or a local EVERY binding of which is that attribute (early binding
    `known, black = self._all_addresses, self.blacklist`, a walrus, an alias of an alias).  A local with one unknown / other binding is not.
    """
    e = strip_cast(e)
    if chain(e) == coll:
        return True
    if isinstance(e, ast.NamedExpr):
        return _alias_of(fi, e.value, coll, depth)
    if fi is None or depth <= 0 or not isinstance(e, ast.Name) or e.id == "self" or e.id in fi.params():
        return False
    vals = _bound_values(fi, e)
    return bool(vals) and all(v is not None and _alias_of(fi, v, coll, depth - 1) for v in vals)


def _is_coll(e: ast.AST, coll: str, fi: FuncInfo | None = None) -> bool:
    """e has the members (keys) of the stored collection coll: the attribute, its .keys(), a wrapper of them, or (fi given) a local alias"""
    e = _unwrap(e)
    if chain(e) in (coll, coll + ".keys()"):
        return True
    if fi is None:
        return False
    if isinstance(e, ast.Call) and isinstance(e.func, ast.Attribute) and e.func.attr == "keys" and not e.args and not e.keywords:
        e = e.func.value
    elif isinstance(e, ast.Name) and e.id not in fi.params():
        # keys = self._all_addresses.keys() / frozen = set(self.blacklist): every binding has the members of coll.  Only sound for a
        # binding that is a live view or the object itself - a copy taken earlier may be stale, so only the un-copied spellings count.
        vals = _bound_values(fi, e)
        if vals and all(v is not None and isinstance(strip_cast(v), ast.Call) and isinstance(strip_cast(v).func, ast.Attribute)
                        and strip_cast(v).func.attr == "keys" and not strip_cast(v).args and _alias_of(fi, strip_cast(v).func.value, coll) for v in vals):
            return True
    return _alias_of(fi, e, coll)


def _quantified(f, coll: str, fi: FuncInfo | None = None) -> str | None:
    """'some-in' (an element is in coll) / 'none-in' (no element is in coll) when fact f says so, else None."""
    if f.op == "in" and _is_coll(f.right, coll, fi):
        return "some-in" if f.pos else None
    if f.op == "truthy":
        left = _unwrap(f.left)
        if isinstance(left, ast.BinOp) and isinstance(left.op, ast.BitAnd) and (_is_coll(left.left, coll, fi) or _is_coll(left.right, coll, fi)):
            return "some-in" if f.pos else "none-in"        # set(addresses) & set(coll)
        if isinstance(left, (ast.ListComp, ast.SetComp)) and len(left.generators) == 1 and isinstance(left.generators[0].target, ast.Name) \
                and _is_name(left.elt, left.generators[0].target.id) and len(left.generators[0].ifs) == 1:
            # [a for a in addresses if a in coll]: non-empty / empty
            fs = _atoms_with_polarity(left.generators[0].ifs[0], True)
            if len(fs) == 1 and fs[0].op == "in" and fs[0].pos and _is_name(fs[0].left, left.elt.id) and _is_coll(fs[0].right, coll, fi):
                return "some-in" if f.pos else "none-in"
    if f.op != "truthy" or not isinstance(f.left, ast.Call):
        return None
    c = f.left
    name = chain(c.func)
    if name in ("any", "all") and len(c.args) == 1:
        g_ = _pipeline(None, c.args[0])         # any(map(self._all_addresses.__contains__, addresses))
        if g_ is not c.args[0]:
            c = ast.Call(func=c.func, args=[g_], keywords=[])
    if name in ("any", "all") and len(c.args) == 1 and isinstance(c.args[0], (ast.GeneratorExp, ast.ListComp, ast.SetComp)) \
            and len(c.args[0].generators) == 1 and not c.args[0].generators[0].ifs:
        elt = c.args[0].elt
        if (name == "any") == f.pos:
            # any(...) holds / all(...) fails: for SOME element elt is true (any) resp. false (all)
            fs = _atoms_with_polarity(elt, name == "any")
            return "some-in" if any(x.op == "in" and x.pos and _is_coll(x.right, coll, fi) for x in fs) else None
        # all(...) holds / any(...) fails: for EVERY element elt is true (all) resp. false (any)
        fs = _atoms_with_polarity(elt, name == "all")
        return "none-in" if any(x.op == "in" and not x.pos and _is_coll(x.right, coll, fi) for x in fs) else None
    if isinstance(c.func, ast.Attribute) and c.func.attr == "isdisjoint" and len(c.args) == 1 and (_is_coll(c.func.value, coll, fi) or _is_coll(c.args[0], coll, fi)):
        return "none-in" if f.pos else "some-in"
    if isinstance(c.func, ast.Attribute) and c.func.attr == "intersection" and len(c.args) == 1 and (_is_coll(c.func.value, coll, fi) or _is_coll(c.args[0], coll, fi)):
        return "some-in" if f.pos else "none-in"        # a non-empty / empty intersection with coll
    return None


def _grow_nodes(fi: FuncInfo) -> list[ast.AST]:
    """the nodes of fi that can make verified_peers larger: .add / .update (also through an alias), `|=`"""
    return [n for n, op, _r, _k in _coll_ops(fi, "verified_peers") if op in ("add", "update") or (op == "aug" and isinstance(n.op, ast.BitOr))]


def _grows_verified(net, fi: FuncInfo, depth: int = 3) -> bool:
    if _grow_nodes(fi):
        return True
    if depth > 0:
        for c in calls(fi):
            for t in _call_targets(net, fi, c):
                if _is_private(t) and _grows_verified(net, t, depth - 1):
                    return True
    return False


def _verified_add_sites(ctx: Ctx, net, fi: FuncInfo, who: str | None = None, prefix: list | None = None, depth: int = 3):
    """
    Every way add_verified_peer reaches an insertion into verified_peers - directly or through private helpers (also picked from a
    dispatch table): a list of call chains, each a list of frames (function, node); the last node is the insertion, the others are the
    calls that lead to it.
    """
    return _reach_sites(ctx, net, fi, _grow_nodes, depth)


def _private_to(ctx: Ctx, net, fi: FuncInfo, owner: FuncInfo, depth: int = 3) -> bool:
    """fi is a private Network helper whose every use lies in `owner` (or in another such helper)"""
    if fi is None or fi.cls is not net or not _is_private(fi) or depth <= 0:
        return False
    sites = _internal_call_sites(ctx, net, fi)
    if not sites:
        return False
    for caller, _c in sites:
        if caller.node is not owner.node and caller.node is not fi.node and not _private_to(ctx, net, caller, owner, depth - 1):
            return False
    return True


def _frame_facts(ctx: Ctx, frames) -> list[str]:
    return list(dict.fromkeys(str(f) for fi, n in frames for f in facts_at(ctx.cfg(fi), n)))


def _searched_without_match(ctx: Ctx, fi: FuncInfo, f, coll: str, is_subject) -> bool:
    """fact f is the exhausted edge of a search loop `for x in self.<coll>: if x == <subject>: <leave>`: the subject is not in the collection"""
    if not isinstance(f.left, (ast.For, ast.AsyncFor)) or f.pos or coll not in _denotes(fi, _unwrap(f.left.iter)):
        return False

    def differs(g, x):
        return g.op == "eq" and not g.pos and ((_is_name(g.left, x) and is_subject(g.right)) or (_is_name(g.right, x) and is_subject(g.left)))
    return _loop_forall(ctx, fi, f.left, differs)


def _mid_edge_of(ctx: Ctx):
    def edge(fi: FuncInfo, f, who) -> bool:
        """the edge establishes `<who>.mid not in self.blacklist_mids`"""
        if who is None or isinstance(f.left, ast.While):
            return False
        w = chain(who)

        def is_mid(x):
            return _resolves_to(fi, x, lambda y: chain(strip_cast(y)) == f"{w}.mid")
        if isinstance(f.left, (ast.For, ast.AsyncFor)):
            return _searched_without_match(ctx, fi, f, "self.blacklist_mids", is_mid)
        return f.op == "in" and not f.pos and _is_coll(f.right, "self.blacklist_mids", fi) and is_mid(f.left)
    return edge


def _address_edge(ctx: Ctx):
    """the edge establishes that SOME address of the peer is already known, or that NO address of the peer is blacklisted"""
    def edge(fi: FuncInfo, f, who) -> bool:
        def not_black(g, x):
            return g.op == "in" and not g.pos and _is_name(g.left, x) and _is_coll(g.right, "self.blacklist", fi)
        if isinstance(f.left, (ast.For, ast.AsyncFor)):
            # `for a in peer.addresses.values(): if a in self.blacklist: return` ran to exhaustion: no address is blacklisted
            return not f.pos and _over_addresses(fi, f.left.iter, who) and _loop_forall(ctx, fi, f.left, not_black)
        if isinstance(f.left, ast.While):
            return False
        return _quantified(f, "self._all_addresses", fi) == "some-in" or _quantified(f, "self.blacklist", fi) == "none-in"
    return edge


def _over_addresses(fi: FuncInfo, it: ast.AST, who) -> bool:
    """the iterable holds the addresses of the peer (when the peer is known by name in this function)"""
    if who is None:
        return True
    w = chain(who)
    return _resolves_to(fi, _unwrap(it), lambda x: mentions(x, f"{w}.addresses"))


def rule_blacklists(ctx: Ctx) -> None:
    net = ctx.repo.cls("Network", NW)
    av = net.methods["add_verified_peer"]
    peer = ast.Name(id=av.params()[1], ctx=ast.Load())
    sites = _verified_add_sites(ctx, net, av)
    # one insertion per admitted case, or one insertion shared by all cases: what is confirmed is that add_verified_peer inserts at all
    ctx.floor("blacklists", len(sites), 1)
    addr_edge = _address_edge(ctx)
    mid_edge = _mid_edge_of(ctx)
    for frames in sites:
        fi, c = frames[-1]
        whos = _who_down(frames, peer)
        shown = _frame_facts(ctx, frames)
        nxt = [t_ for t_, _n in frames[1:]] + [None]       # the method each frame's call enters
        ok = any(_guarded(ctx, net, f_, n_, w_, mid_edge, leads_to=t_) for (f_, n_), w_, t_ in zip(frames, whos, nxt))
        ctx.check(ok, "blacklists", fi, c, "verified_peers.add dominated by peer.mid not in blacklist_mids", "a blacklisted identity can become a verified peer", shown)
        # the new-peer branch (no known address) requires all addresses outside the blacklist
        ok = any(_guarded(ctx, net, f_, n_, w_, addr_edge, leads_to=t_) for (f_, n_), w_, t_ in zip(frames, whos, nxt))
        ctx.check(ok, "blacklists", fi, c, "peer added only via a known address or with all addresses outside the blacklist",
                  "a peer with a blacklisted address is added as a new verified peer", shown)
    for m, fi, a in ctx.repo.attribute_uses("verified_peers"):
        p = parent(a)
        if isinstance(p, ast.Attribute) and p.attr in ("add", "update") and fi is not None and fi.qualname != "Network.add_verified_peer" \
                and not _private_to(ctx, net, fi, av):
            ctx.check(False, "blacklists", fi, enclosing_stmt(a), "verified_peers grows only in add_verified_peer", "verified_peers is extended around the blacklist checks")
    for fi in net.methods.values():
        if fi.node is not av.node and not _private_to(ctx, net, fi, av):
            for n in _grow_nodes(fi):
                if not (isinstance(n, ast.Call) and chain(n.func.value) == "self.verified_peers"):       # the direct spelling is reported above
                    ctx.check(False, "blacklists", fi, enclosing_stmt(n), "verified_peers grows only in add_verified_peer",
                              "verified_peers is extended around the blacklist checks")
    da = net.methods["discover_address"]

    def stores_of(fi: FuncInfo):
        return [n for n, op, _r, _k in _coll_ops(fi, "_all_addresses") if op in _ADD_OPS or (op == "aug" and isinstance(n.op, ast.BitOr))]

    def black_edge(fi: FuncInfo, f, who) -> bool:
        if who is None or isinstance(f.left, ast.While):
            return False
        if isinstance(f.left, (ast.For, ast.AsyncFor)):
            return _searched_without_match(ctx, fi, f, "self.blacklist", lambda x: same_resolved(fi, x, who))
        return f.op == "in" and not f.pos and same_resolved(fi, f.left, who) and _is_coll(f.right, "self.blacklist", fi)
    n_stores = 0
    for frames in _reach_sites(ctx, net, da, stores_of):
        fi, st = frames[-1]
        key = next((k for n, op, _r, k in _coll_ops(fi, "_all_addresses") if n is st), None)
        if key is None:
            raise AnalysisError(f"undecided: {fi.qualname} adds to _all_addresses with `{norm(st)[:60]}`: the stored address is not syntactically known")
        n_stores += 1
        whos = _who_up(frames, key)
        nxt = [t_ for t_, _n in frames[1:]] + [None]
        ok = any(_guarded(ctx, net, f_, n_, w_, black_edge, leads_to=t_) for (f_, n_), w_, t_ in zip(frames, whos, nxt))
        ctx.check(ok, "blacklists", fi, st, "discover_address stores only non-blacklisted addresses", "a blacklisted address becomes walkable", _frame_facts(ctx, frames))
    ctx.floor("blacklists.discover-address", n_stores, 1)


class _Who:
    """one peer as a function sees it: the expressions (chains) that ARE the peer, and the locals / parameters that hold its key_to_bin()"""

    def __init__(self, peers=(), keys=()) -> None:
        self.peers = frozenset(p_ for p_ in peers if p_)
        self.keys = frozenset(keys)

    @classmethod
    def of(cls, fi: FuncInfo, peer: ast.AST) -> "_Who":
        return cls({chain(strip_cast(peer)), chain(resolve(fi, peer))})

    def is_peer(self, fi: FuncInfo, e: ast.AST) -> bool:
        return e is not None and bool({chain(strip_cast(e)), chain(resolve(fi, e))} & self.peers)

    def is_key(self, ctx: Ctx, net, fi: FuncInfo, e: ast.AST, depth: int = 2) -> bool:
        """e evaluates the peer's public_key.key_to_bin() - spelled out, held in a local, or handed in as a parameter by every caller"""
        if e is None:
            return False
        if any(_key_bin_of(fi, e, p_) for p_ in self.peers):
            return True
        if self.keys and _resolves_to(fi, e, lambda x: isinstance(x, ast.Name) and x.id in self.keys):
            return True
        r = resolve(fi, e)
        if depth > 0 and isinstance(r, ast.Name) and r.id in _params_of(fi) and _is_private(fi):
            sites = _internal_call_sites(ctx, net, fi)
            if not sites:
                return False
            for caller, call in sites:
                up = _Who({chain(strip_cast(a_)) for a_ in (_arg_for(call, fi, p_) for p_ in self.peers) if a_ is not None})
                if not up.peers or not up.is_key(ctx, net, caller, _arg_for(call, fi, r.id), depth - 1):
                    return False
            return True
        return False

    def down(self, ctx: Ctx, net, fi: FuncInfo, call: ast.Call, t: FuncInfo) -> "_Who":
        """the same peer as the called method t sees it"""
        params = _params_of(t)
        pairs = [(params[i], a_) for i, a_ in enumerate(call.args) if i < len(params) and not isinstance(a_, ast.Starred)]
        pairs += [(k.arg, k.value) for k in call.keywords if k.arg]
        return _Who({p_ for p_, a_ in pairs if self.is_peer(fi, a_)}, {p_ for p_, a_ in pairs if self.is_key(ctx, net, fi, a_)})

    def up(self, fi: FuncInfo, call: ast.Call, t: FuncInfo) -> "_Who":
        """the peer of the called method t as the caller fi sees it (empty when it is not handed in as a parameter)"""
        args = [_arg_for(call, t, p_) for p_ in self.peers if p_ in t.params()]
        return _Who({x for a_ in args if a_ is not None for x in (chain(strip_cast(a_)), chain(resolve(fi, a_)))})


def _by_key_targets(ctx: Ctx, net, fi: FuncInfo, who: _Who, adding: bool, depth: int = 2) -> list:
    """CFG nodes of fi that certainly register (adding) / unregister the peer in verified_by_public_key_bin, also by calling a method that always does"""
    def want(n, op, recv, key):
        if adding and op in ("update", "aug") and isinstance(n, (ast.Call, ast.AugAssign)):
            m = _unwrap(resolve(fi, (n.args[0] if n.args else None) if isinstance(n, ast.Call) else n.value))      # .update({p.key: p}) / |= {p.key: p}
            return isinstance(m, ast.Dict) and any(k is not None and who.is_key(ctx, net, fi, k) and who.is_peer(fi, v) for k, v in zip(m.keys, m.values))
        if not who.is_key(ctx, net, fi, key):
            return False
        if adding:
            if op == "set[]" and isinstance(n, (ast.Assign, ast.AnnAssign)):
                return who.is_peer(fi, n.value)
            return op in ("__setitem__", "setdefault") and who.is_peer(fi, arg(n, 1))
        return op in ("pop", "__delitem__", "del[]")
    nodes = _must_op_nodes(ctx, fi, "verified_by_public_key_bin", want, None if adding else _key_absent_edge(ctx, net, fi, who))
    if depth > 0:
        cfg = ctx.cfg(fi)
        for c in calls(fi):
            ts = _call_targets(net, fi, c)
            if ts and all(_always_by_key(ctx, net, t, who.down(ctx, net, fi, c, t), adding, depth - 1) for t in ts):
                nodes += cfg.nodes_for(c)
    return nodes


def _key_absent_edge(ctx: Ctx, net, fi: FuncInfo, who: _Who):
    """`if key in self.verified_by_public_key_bin: del ...[key]`: nothing to delete on the other branch"""
    def absent_fact(f):
        return f.op == "in" and not f.pos and "self.verified_by_public_key_bin" in _denotes(fi, _unwrap(f.right)) and who.is_key(ctx, net, fi, f.left)

    def absent(u, v, lab):
        if u.kind != "cond" or lab not in (True, False):
            return False
        return absent_fact(fact_of(u.ast, lab))
    absent.fact = absent_fact
    return absent


def _always_by_key(ctx: Ctx, net, t: FuncInfo, who: _Who, adding: bool, depth: int) -> bool:
    """every normally completing run of t (un)registers the peer in the by-key index"""
    if not who.peers and not who.keys:
        return False
    cfg = ctx.cfg(t)
    nodes = _by_key_targets(ctx, net, t, who, adding, depth)
    absent = None if adding else _key_absent_edge(ctx, net, t, who)
    return bool(nodes) and cfg.exit not in _reach(ctx, t, cut_nodes=nodes, cut_edge=absent, follow_exc=False, cut_fact=None if adding else absent.fact)


def _by_key_follows(ctx: Ctx, net, fi: FuncInfo, start: ast.AST, who: _Who, adding: bool, depth: int = 2) -> bool:
    """
    Every normally completing path from `start` (the membership change) reaches the matching by-key index update before control returns
    to code outside Network: in fi itself, or - when fi is a private helper that returns first - after each of its call sites.
    """
    cfg = ctx.cfg(fi)
    nodes = _by_key_targets(ctx, net, fi, who, adding)
    cut = None if adding else _key_absent_edge(ctx, net, fi, who)
    starts = cfg.nodes_for(start)
    if starts and all(cfg.exit not in _reach(ctx, fi, after=[n], cut_nodes=nodes, cut_edge=cut, follow_exc=False,
                                             cut_fact=None if cut is None else cut.fact) for n in starts):
        return True
    if depth > 0 and _is_private(fi):
        sites = _internal_call_sites(ctx, net, fi)
        if not sites:
            return False
        for caller, call in sites:
            up = who.up(caller, call, fi)
            if not up.peers or not _by_key_follows(ctx, net, caller, call, up, adding, depth - 1):
                return False
        return True
    return False


def rule_by_key(ctx: Ctx) -> None:
    net = ctx.repo.cls("Network", NW)
    for fi in net.methods.values():
        for c, op, _recv, peer in _coll_ops(fi, "verified_peers"):
            if op == "add" and peer is not None:
                # the sibling store registers the same peer under that peer's key
                ok = _by_key_follows(ctx, net, fi, c, _Who.of(fi, peer), True)
                if not ok:
                    _undecided_if_escapes(ctx, net, fi, ["verified_by_public_key_bin"], "by-key index after verified_peers.add")
                ctx.check(ok, "by-key-index", fi, c, "verified_peers.add(p) always followed by verified_by_public_key_bin[p.key] = p",
                          "a peer is added to the verified set without its by-key index entry")
            elif op in ("remove", "discard") and peer is not None:
                ok = _by_key_follows(ctx, net, fi, c, _Who.of(fi, peer), False)
                if not ok:
                    _undecided_if_escapes(ctx, net, fi, ["verified_by_public_key_bin"], "by-key index after verified_peers.remove")
                ctx.check(ok, "by-key-index", fi, c, "verified_peers.remove(p) always followed by verified_by_public_key_bin.pop(p.key)",
                          "a peer is removed from the verified set but stays in the by-key index (it can never be added again)")


def _verified_members(fi: FuncInfo, y: ast.AST) -> bool:
    """the iterable ranges over exactly the verified peers: self.verified_peers (alias / copy / list(..)), or the values of the by-key
    dict, which rule by-key-index keeps a mirror of the verified set"""
    y = _unwrap(y)
    if isinstance(y, ast.Call) and isinstance(y.func, ast.Attribute) and y.func.attr == "copy" and not y.args:
        y = _unwrap(y.func.value)
    if isinstance(y, ast.Call) and isinstance(y.func, ast.Attribute) and y.func.attr == "values" and not y.args \
            and "self.verified_by_public_key_bin" in _denotes(fi, y.func.value):
        return True
    return "self.verified_peers" in _denotes(fi, y)


def _scans_verified(ctx: Ctx, net, fi: FuncInfo, depth: int = 1) -> list:
    """CFG nodes of fi that look at every verified peer (loop / comprehension over self.verified_peers, or a call of a Network method that does)."""
    cfg = ctx.cfg(fi)

    def src(x):
        return _resolves_to(fi, _unwrap(x), lambda y: _verified_members(fi, y))
    nodes = []
    for n in walk_no_nested(fi.node):
        if isinstance(n, (ast.For, ast.AsyncFor)) and src(n.iter):
            nodes += cfg.nodes_for(n)
        elif isinstance(n, ast.comprehension) and src(n.iter):
            nodes += cfg.nodes_for(parent(n))
        elif isinstance(n, ast.Call) and chain(n.func) in ("filter", "map") and len(n.args) == 2 and src(n.args[1]):
            nodes += cfg.nodes_for(n)
        elif isinstance(n, ast.Call) and depth > 0:
            ts = _call_targets(net, fi, n)
            if ts and all(_scans_verified(ctx, net, t, depth - 1) for t in ts):
                nodes += cfg.nodes_for(n)
    return nodes


def _removes_member(ctx: Ctx, net, fi: FuncInfo, who: ast.AST | None, depth: int = 2) -> bool:
    """every normally completing run of fi takes `who` out of verified_peers (itself or through a method that always does), unless it
    established that `who` is not a member"""
    if who is None:
        return False
    cfg = ctx.cfg(fi)

    def want(n, op, recv, key):
        if op in ("remove", "discard"):
            return key is not None and same_resolved(fi, key, who)
        return op in ("rebind", "aug", "del[]", "del") and not (op == "aug" and isinstance(n.op, ast.BitOr))
    rem = _must_op_nodes(ctx, fi, "verified_peers", want)
    if depth > 0:
        for c in calls(fi):
            ts = _call_targets(net, fi, c)
            if ts and all(_removes_member(ctx, net, t, _bind(fi, c, t, who), depth - 1) for t in ts):
                rem += cfg.nodes_for(c)

    def differs(g, x):
        return g.op == "eq" and not g.pos and ((_is_name(g.left, x) and same_resolved(fi, g.right, who)) or (_is_name(g.right, x) and same_resolved(fi, g.left, who)))

    def absent_fact(f):
        return f.op == "in" and not f.pos and same_resolved(fi, f.left, who) and "self.verified_peers" in _denotes(fi, _unwrap(f.right))

    def absent(u, v, lab):
        if lab not in (True, False) or u.ast is None:
            return False
        if u.kind == "loop":
            # a search `for m in self.verified_peers: if m == who: break` that ran to exhaustion: who is not a member
            return lab is False and isinstance(u.ast, (ast.For, ast.AsyncFor)) and "self.verified_peers" in _denotes(fi, _unwrap(u.ast.iter)) \
                and _loop_forall(ctx, fi, u.ast, differs)
        if u.kind != "cond":
            return False
        return absent_fact(fact_of(u.ast, lab))
    return bool(rem) and cfg.exit not in _reach(ctx, fi, cut_nodes=rem, cut_edge=absent, follow_exc=False, cut_fact=absent_fact)


def _one(got: set) -> str:
    return next(iter(got)) if len(got) == 1 else "other"


def _elements_origin(ctx: Ctx, net, fi: FuncInfo, it: ast.AST, who: ast.AST | None, depth: int = 3) -> str:
    """where the ELEMENTS of an iterable expression of fi come from: see _key_origin"""
    w = chain(who) if who is not None else None
    it = _unwrap(it)
    if isinstance(it, _COMPS):
        return _elements_origin(ctx, net, fi, it.generators[0].iter, who, depth)       # a filter / projection of what it ranges over
    if isinstance(it, ast.Name) and it.id not in fi.params() and depth > 0:
        return _one({_elements_origin(ctx, net, fi, v, who, depth - 1) if v is not None else "other" for v in _bound_values(fi, it)} or {"other"})
    if isinstance(it, ast.Call) and depth > 0:
        ts = _call_targets(net, fi, it)
        if ts:          # a generator / list helper of Network: where do the elements it yields / returns come from
            got = set()
            for t in ts:
                w2 = _bind(fi, it, t, who)
                for n in walk_no_nested(t.node):
                    if isinstance(n, ast.Yield) and n.value is not None:
                        got.add(_key_origin(ctx, net, t, n.value, w2, depth - 1))
                    elif isinstance(n, (ast.YieldFrom, ast.Return)) and n.value is not None:
                        got.add(_elements_origin(ctx, net, t, n.value, w2, depth - 1))
            return _one(got or {"other"})
    if mentions(it, "self.reverse_ip_lookup"):
        return "cache"
    if w is not None and (mentions(it, f"{w}.addresses") or mentions(it, f"{w}.address")):
        return "peer-addresses"
    return "other"


def _key_origin(ctx: Ctx, net, fi: FuncInfo, key: ast.AST, who: ast.AST | None, depth: int = 3) -> str:
    """
    Where does a cache key used in fi come from: "cache" (drawn from self.reverse_ip_lookup itself: its keys / items, possibly filtered),
    "peer-addresses" (drawn from <who>.addresses / <who>.address, the addresses of the peer object `who`) or "other" (anything else /
    not the same for all definitions).
    """
    w = chain(who) if who is not None else None
    key = strip_cast(key)
    while isinstance(key, (ast.Subscript, ast.Attribute)) and not (w is not None and chain(key) == f"{w}.address"):
        key = strip_cast(key.value)         # an element / field of a loop variable (`entry[0]` of items())
    if w is not None and chain(key) == f"{w}.address":
        return "peer-addresses"
    if not isinstance(key, ast.Name) or key.id in fi.params() or depth <= 0:
        return "other"
    got = set()
    for a_ in ancestors(key):
        if isinstance(a_, _COMPS):
            for g in a_.generators:
                if any(isinstance(x, ast.Name) and x.id == key.id for x in ast.walk(g.target)):
                    got.add(_elements_origin(ctx, net, fi, g.iter, who, depth))
        if a_ is fi.node:
            break
    if not got:
        for st, v, _idx in local_defs(fi, key.id):
            if v is None and isinstance(st, (ast.For, ast.AsyncFor)):
                got.add(_elements_origin(ctx, net, fi, st.iter, who, depth))
            elif v is not None:
                got.add(_key_origin(ctx, net, fi, v, who, depth - 1))
            else:
                got.add("other")
    return _one(got or {"other"})


def rule_removal(ctx: Ctx) -> None:
    """
    "A removed peer is returned by no lookup": the two removers must reach the membership on every path.
    remove_by_address(a) can only know that no verified peer uses `a` by looking at the verified peers: _all_addresses is NOT an index of
    the verified peers' addresses (add_verified_peer merges new addresses into a known peer without registering them; remove_peer pops
    addresses another peer may share), so a path that returns without scanning verified_peers leaves a peer with that address verified -
    and every lookup keeps returning it.  remove_peer(p) must take p out of verified_peers unless p is known not to be in it.
    """
    net = ctx.repo.cls("Network", NW)
    ra = net.methods["remove_by_address"]
    cfg = ctx.cfg(ra)
    scans = _scans_verified(ctx, net, ra, 2)

    def empty_fact(f):
        return f.op == "truthy" and not f.pos and chain(_unwrap(f.left)) == "self.verified_peers"

    def empty(u, v, lab):       # `if not self.verified_peers: return` - nothing to scan
        if u.kind != "cond" or lab not in (True, False):
            return False
        return empty_fact(fact_of(u.ast, lab))
    ok = bool(scans) and cfg.exit not in _reach(ctx, ra, cut_nodes=scans, cut_edge=empty, follow_exc=False, cut_fact=empty_fact)
    ctx.check(ok, "removal", ra, ra.node, "remove_by_address looks at every verified peer on every path",
              "remove_by_address can return without looking at the verified peers (e.g. because the address is not a key of _all_addresses, which is "
              "not an index of the verified peers' addresses): a verified peer that uses the address stays verified and is still returned by every lookup")
    # ... and "uses the address" is a question about VALUES: Peer.addresses is keyed by the class of the address object as it was registered
    # (peer.py: self._addresses[address.__class__] = address) while addresses are compared by value everywhere (an (ip, port) tuple equals
    # the UDPv4Address of the same endpoint).  A probe under the class of the QUERY address misses a peer registered with an equal address
    # of another class, so that peer survives the removal.  Decided positively only: the scan compares the removed address with a keyed
    # read of <peer>.addresses and never consults <peer>.addresses.values() / .items().
    keyed, by_value = [], []
    for frames in _reach_sites(ctx, net, ra, lambda g: [g.node], 2):
        g = frames[-1][0]
        addr = _who_down(frames, ast.Name(id=ra.params()[1], ctx=ast.Load()))[-1]
        for n_ in ast.walk(g.node):
            if isinstance(n_, ast.Call) and isinstance(n_.func, ast.Attribute) and n_.func.attr in ("values", "items") and (chain(n_.func.value) or "").endswith(".addresses"):
                by_value.append(n_)
            if not isinstance(n_, ast.Compare) or len(n_.ops) != 1 or not isinstance(n_.ops[0], (ast.Eq, ast.NotEq, ast.Is, ast.IsNot)) or addr is None:
                continue
            for a_, b_ in ((n_.left, n_.comparators[0]), (n_.comparators[0], n_.left)):
                a_ = strip_cast(resolve(g, a_)) if isinstance(strip_cast(a_), ast.Name) else strip_cast(a_)
                probe = a_.func.value if isinstance(a_, ast.Call) and isinstance(a_.func, ast.Attribute) and a_.func.attr in ("get", "pop") and a_.args else \
                    a_.value if isinstance(a_, ast.Subscript) and isinstance(a_.ctx, ast.Load) else None
                if probe is not None and (chain(probe) or "").endswith(".addresses") and same_resolved(g, b_, addr):
                    keyed.append((g, n_))
    pc = ctx.repo.try_cls("Peer", "ipv8/peer.py")
    class_keyed = pc is not None and any(isinstance(t_, ast.Subscript) and (chain(t_.value) or "").endswith("._addresses")
                                         and any((isinstance(x, ast.Attribute) and x.attr == "__class__") or (isinstance(x, ast.Call) and chain(x.func) == "type")
                                                 for x in ast.walk(t_.slice))
                                         for m_ in pc.methods.values() for st_ in ast.walk(m_.node) if isinstance(st_, ast.Assign) for t_ in st_.targets)
    if keyed and not by_value and class_keyed:
        g, n_ = keyed[0]
        ctx.check(False, "removal", g, n_, f"{g.name}: whether a verified peer uses the removed address is decided over all of its addresses (by value)",
                  f"{g.name}{'' if g is ra else ' (reached from remove_by_address)'} decides whether a verified peer uses the address by a keyed read of peer.addresses (`{norm(n_)[:70]}`) and never looks at "
                  "peer.addresses.values(): Peer.addresses is keyed by the class of the address object the peer was registered with, while addresses compare by value "
                  "(an (ip, port) tuple equals the UDPv4Address of the same endpoint), so a peer registered under another address class than the argument is not found - "
                  "it stays in verified_peers, the by-key index and the per-service lists and is still returned by every lookup after its address was removed")
    else:
        ctx.instance("removal", ra.where, "remove_by_address: no verified peer is matched by a class-keyed probe of its addresses alone"
                     + (" (the scan consults .addresses.values())" if by_value else ""))
    rp = net.methods["remove_peer"]
    ok = _removes_member(ctx, net, rp, ast.Name(id=rp.params()[1], ctx=ast.Load()))
    if not ok:
        _undecided_if_escapes(ctx, net, rp, ["verified_peers"], "remove_peer takes the peer out of verified_peers")
    ctx.check(ok, "removal", rp, rp.node, "remove_peer takes the peer out of verified_peers on every path (unless it is not a member)",
              "remove_peer can return while the peer is still in verified_peers: the removed peer is still returned by lookups")
    # instance coherence (defect fixed by 97dc48d): the readers of reverse_ip_lookup / reverse_service_lookup re-validate a cached Peer by
    # EQUALITY against verified_peers (Peer equality is by public key).  After remove + add of the same identity as a new instance (other
    # addresses) the stale instance would still validate, so a remover must also forget the removed peer in these caches - unless the
    # readers validate by identity (`is`).
    def validates_identity(index: str) -> bool:
        for fi in net.methods.values():
            reads = [c for c in calls(fi) if isinstance(c.func, ast.Attribute) and chain(c.func.value) == f"self.{index}" and c.func.attr in ("get", "pop")]
            if not reads:
                continue
            if not any(isinstance(n, ast.Compare) and any(isinstance(o, (ast.Is, ast.IsNot)) for o in n.ops)
                       and any("verified_by_public_key_bin" in norm(x) for x in [n.left, *n.comparators])
                       for n in walk_no_nested(fi.node)):
                return False
        return True
    def prunes_values(fi: FuncInfo, index: str, depth: int = 2) -> bool:
        """`for cache in self.<index>.values(): cache.remove(..)` (also .items(), also in a Network helper fi calls)"""
        for loop in [n for n in walk_no_nested(fi.node) if isinstance(n, (ast.For, ast.AsyncFor))]:
            it = _unwrap(loop.iter)
            if (isinstance(it, ast.Call) and isinstance(it.func, ast.Attribute) and it.func.attr in ("values", "items") and chain(it.func.value) == f"self.{index}") \
                    or (isinstance(loop.target, ast.Name) and _yields_entries(fi, it, index, ctx)):
                names = {x.id for x in ast.walk(loop.target) if isinstance(x, ast.Name)}
                if not _exhaustive(ctx.cfg(fi), loop):
                    continue        # left by break / return before every cached list was looked at: the peer stays in the remaining lists
                for c in ast.walk(loop):
                    if isinstance(c, ast.Call) and isinstance(c.func, ast.Attribute) and c.func.attr in ("remove", "discard", "pop", "clear") \
                            and isinstance(c.func.value, ast.Name) and c.func.value.id in names:
                        return True
                    if isinstance(c, ast.Assign) and any(isinstance(t, ast.Subscript) and isinstance(t.value, ast.Name) and t.value.id in names for t in c.targets):
                        return True
        if depth > 0 and fi.cls is not None:
            for c in calls(fi):
                if any(prunes_values(t, index, depth - 1) for t in _call_targets(fi.cls, fi, c)):
                    return True
        return False

    # ... and the purge of the address cache must not depend on the Peer OBJECT remove_peer was handed: that may be an equal (same
    # public key) but different instance with other addresses than the verified one, so entries looked up by ITS addresses miss the
    # entry the verified instance is cached under.  Decided positively only: every purge of reverse_ip_lookup reachable from
    # remove_peer takes its keys from the passed peer's own addresses and none scans the cache itself (by value) / clears it.
    if not validates_identity("reverse_ip_lookup"):
        def ip_purges(f: FuncInfo):
            return [n for n, op, _r, _k in _coll_ops(f, "reverse_ip_lookup") if op in ("pop", "__delitem__", "del[]", "clear", "rebind", "popitem")]
        origins = []
        for frames in _reach_sites(ctx, net, rp, ip_purges):
            f, n = frames[-1]
            who = _who_down(frames, ast.Name(id=rp.params()[1], ctx=ast.Load()))[-1]
            op, key = next((o, k) for n2, o, _r, k in _coll_ops(f, "reverse_ip_lookup") if n2 is n)
            origins.append((f, n, "cache" if op in ("clear", "rebind", "popitem") or key is None else _key_origin(ctx, net, f, key, who)))
        if origins and all(o == "peer-addresses" for _f, _n, o in origins):
            f, n, _o = origins[0]
            ctx.check(False, "removal", f, n, f"{f.name}: the removed peer is forgotten in reverse_ip_lookup by scanning the cache, not by the passed object's addresses",
                      f"{f.name} (reached from remove_peer) only drops the reverse_ip_lookup entries keyed by the addresses of the Peer object it was handed "
                      f"(`{norm(n)[:60]}`): remove_peer may be called with an equal Peer (same public key) that is another instance with other addresses than the "
                      "verified one, whose cache entry then survives; after the identity is verified again the stale entry passes the reader's validation "
                      "(membership is by public key, the old instance still lists the old address) and lookup by address returns a removed Peer instance")
        elif origins:
            ctx.instance("removal", rp.where, "remove_peer: reverse_ip_lookup is purged independently of the passed Peer object's addresses ("
                         + ", ".join(dict.fromkeys(o for _f, _n, o in origins)) + ")")
    for index in ("reverse_ip_lookup", "reverse_service_lookup"):
        for fi in (ra, rp):
            ok = _updates_index(ctx, fi, index) or prunes_values(fi, index) or validates_identity(index)
            if not ok:
                _undecided_if_escapes(ctx, net, fi, [index], f"{fi.name} forgets the removed peer in {index}")
            ctx.check(ok, "removal", fi, fi.node, f"{fi.name} forgets the removed peer(s) in {index} (or its readers validate cached peers by identity)",
                      f"{fi.name} leaves the removed Peer instance in {index}: its readers re-validate cached entries by equality against verified_peers, so after "
                      "the same identity is added again as another instance (other addresses) lookups return the removed instance with its old addresses")


_WA_FIELDS = ("introduced_by", "services", "new_style")


def _wa_args(fi: FuncInfo, v: ast.AST):
    """(introduced_by, services, new_style) argument expressions of a WalkableAddress(...) construction, or None."""
    v = resolve(fi, v)
    if not (isinstance(v, ast.Call) and (chain(v.func) or "").split(".")[-1] == "WalkableAddress"):
        return None
    return tuple(arg(v, i, name) for i, name in enumerate(_WA_FIELDS))


def _neutral_entry(fi: FuncInfo, v: ast.AST) -> bool:
    """WalkableAddress(b"", None, False): names no introducer and no service"""
    a_ = _wa_args(fi, v)
    return a_ is not None and all(x is not None for x in a_) and const_value(resolve(fi, a_[0])) == b"" and const_value(resolve(fi, a_[1])) is None \
        and const_value(resolve(fi, a_[2])) is False


def _iteration_of(ctx: Ctx, fi: FuncInfo, node: ast.AST):
    """(target, iterable, facts under which `node` is evaluated) for the innermost loop / comprehension around node, or None."""
    cfg = ctx.cfg(fi)
    for a_ in ancestors(node):
        if isinstance(a_, (ast.ListComp, ast.SetComp, ast.GeneratorExp, ast.DictComp)):
            g = a_.generators[-1]
            fs = [f for g2 in a_.generators for c in g2.ifs for f in _atoms_with_polarity(c, True)]
            # the surrounding statement's own guards are not about one element; they are reported to the caller as facts too
            return g.target, g.iter, fs + expr_context_facts(node) + _facts_here(ctx, fi, enclosing_stmt(a_))
        if isinstance(a_, (ast.For, ast.AsyncFor)):
            return a_.target, a_.iter, _facts_here(ctx, fi, node)
        if a_ is fi.node:
            break
    return None


_NULL_ADDRESS = ("0.0.0.0", 0)


def _innermost_loop(fi: FuncInfo, node: ast.AST):
    for a_ in ancestors(node):
        if isinstance(a_, (ast.For, ast.AsyncFor)):
            return a_
        if isinstance(a_, _COMPS) or a_ is fi.node:
            return None
    return None


def _snapshot_stream(ctx: Ctx, net, fi: FuncInfo, node: ast.AST, value: ast.AST, depth: int = 2) -> tuple[bool, bool, list]:
    """
    `node` (the pack call / a yield / a comprehension element) handles `value` once per element of the innermost iteration around it.
    -> (value is the address of every verified peer, elements are skipped only for being a null address, facts shown).
    The iteration runs over self.verified_peers (value: <peer>.address) or over a stream of the verified peers' addresses that a
    comprehension / a generator method of Network produced under the same conditions (value: the element).
    """
    it = _iteration_of(ctx, fi, node)
    if it is None or not isinstance(it[0], ast.Name):
        return False, False, []
    tv, src, fs = it[0].id, it[1], it[2]
    if _resolves_to(fi, _unwrap(src), lambda y: _verified_members(fi, y)):
        def is_val(x):
            return _resolves_to(fi, x, lambda y: chain(y) == f"{tv}.address")
    elif depth > 0 and _address_source(ctx, net, fi, src, depth - 1):
        def is_val(x):
            return _resolves_to(fi, x, lambda y: _is_name(y, tv))
    else:
        return False, False, fs
    loop = _innermost_loop(fi, node)
    whole = loop is None or _exhaustive(ctx.cfg(fi), loop)      # a break / return out of the loop drops the remaining peers
    allowed = all((f.op == "truthy" and f.pos and is_val(f.left)) or
                  (f.op == "eq" and not f.pos and ((const_value(f.right) == _NULL_ADDRESS and is_val(f.left))
                                                   or (const_value(f.left) == _NULL_ADDRESS and is_val(f.right)))) for f in fs)
    return is_val(value) and whole, allowed, fs


def _address_source(ctx: Ctx, net, fi: FuncInfo, src: ast.AST, depth: int) -> bool:
    """the iterable yields the address of every verified peer, skipping only null addresses"""
    def one(y):
        y = _unwrap(_pipeline(fi, _unwrap(y)))
        if isinstance(y, (ast.ListComp, ast.SetComp, ast.GeneratorExp)) and len(y.generators) == 1:
            ok, allowed, _fs = _snapshot_stream(ctx, net, fi, y.elt, y.elt, depth)
            return ok and allowed
        if isinstance(y, ast.Call):
            ts = _call_targets(net, fi, y)
            return bool(ts) and all(_yields_addresses(ctx, net, t, depth) for t in ts)
        return False
    return _resolves_to(fi, src, one)


def _yields_addresses(ctx: Ctx, net, t: FuncInfo, depth: int) -> bool:
    """generator method t yields the address of every verified peer, skipping only null addresses"""
    ys = [n for n in walk_no_nested(t.node) if isinstance(n, (ast.Yield, ast.YieldFrom))]
    if not ys or any(isinstance(n, ast.Return) and n.value is not None for n in walk_no_nested(t.node)):
        return False
    cfg = ctx.cfg(t)
    for y in ys:
        if isinstance(y, ast.YieldFrom):
            if _innermost_loop(t, y) is not None or _facts_here(ctx, t, y) or not _address_source(ctx, net, t, y.value, depth):
                return False
        else:
            ok, allowed, _fs = _snapshot_stream(ctx, net, t, y, y.value, depth) if y.value is not None else (False, False, [])
            if not (ok and allowed):
                return False
    return True


def rule_snapshot_codec(ctx: Ctx) -> None:
    net = ctx.repo.cls("Network", NW)
    sn, ld = net.methods["snapshot"], net.methods["load_snapshot"]
    # the pack / unpack call may live in a private helper (e.g. a generator that yields the packed entries)
    packs = [fr[-1] for fr in _reach_sites(ctx, net, sn, lambda f: [c for c in _calls_with_views(f) if call_name(c) == "pack"])]
    unpacks = [fr[-1] for fr in _reach_sites(ctx, net, ld, lambda f: [c for c in calls(f) if call_name(c) == "unpack"])]
    ok = len(packs) == 1 and len(unpacks) == 1 \
        and const_value(resolve(packs[0][0], arg(packs[0][1], 0))) == const_value(resolve(unpacks[0][0], arg(unpacks[0][1], 0))) == "address" \
        and (rchain(packs[0][0], packs[0][1].func) or "?")[:-len("pack")] == (rchain(unpacks[0][0], unpacks[0][1].func) or "??")[:-len("unpack")]
    ctx.check(ok, "snapshot-codec", sn, sn.node, "snapshot packs and load_snapshot unpacks with the same packer ('address') of the same serializer",
              "snapshot and load_snapshot use different formats")
    if packs:
        pf, pc = packs[0]
        ok, allowed, fs = _snapshot_stream(ctx, net, pf, pc, arg(pc, 1))
        ctx.check(ok and allowed, "snapshot-codec", pf, pc, "every verified peer's address is written, skipping only null addresses",
                  "snapshot skips verified peers for a reason other than a null address", [str(f) for f in fs])

    def adds_of(f: FuncInfo):
        return [n for n, op, _r, _k in _coll_ops(f, "_all_addresses") if op in _ADD_OPS or (op == "aug" and isinstance(n.op, ast.BitOr))]
    added = [fr[-1] for fr in _reach_sites(ctx, net, ld, adds_of)]
    ok = bool(added)
    for f, n in added:
        op = next(o for n2, o, _r, _k in _coll_ops(f, "_all_addresses") if n2 is n)
        vals = _added_entries(f, n, op)
        ok = ok and bool(vals) and all(_neutral_entry(f, v) for v in vals)
    ctx.check(ok, "snapshot-codec", ld, ld.node, "load_snapshot inserts neutral WalkableAddress(b'', None, False) entries",
              "load_snapshot inserts addresses with a made-up introducer / service")
    grows = _reach_sites(ctx, net, ld, lambda f: _grow_nodes(f) + [c for c in calls(f) if any(t.name == "add_verified_peer" for t in _call_targets(net, f, c))])
    ctx.check(not grows, "snapshot-codec", ld, ld.node, "load_snapshot makes addresses walkable, not verified", "load_snapshot creates verified peers")


def _pulled_and_private(ctx: Ctx, fi: FuncInfo) -> bool:
    """fi lives outside network.py, the local view analysed its code in place of the calls, and nothing but network.py can run it:
    a module-level function only network.py names, or a method of a base class that only Network (and its subclasses) inherit"""
    top = fi
    while "." in top.qualname and top.cls is None:      # a nested function: judged by its outermost function
        outer = ctx.repo.function_of(parent(top.node)) if parent(top.node) is not None else None
        if outer is None or outer is top:
            break
        top = outer
    if (top.module.relpath, top.qualname) not in _PULLED:
        return False
    if top.cls is not None:
        net = ctx.repo.cls("Network", NW)
        return all(net in s.mro() for s in top.cls.all_subclasses()) and bool(top.cls.all_subclasses()) \
            and not any(m.relpath != top.module.relpath and isinstance(c.func, ast.Name) and c.func.id == top.cls.name for m, _f, c in ctx.repo.callers_of_name(top.cls.name))
    for m, _f, c in ctx.repo.callers_of_name(top.name):
        if m.relpath not in (NW, top.module.relpath) and (isinstance(c.func, ast.Name) or "network" in (chain(c.func) or "").lower()):
            return False
    for m in ctx.repo.by_relpath.values():
        if m.relpath not in (NW, top.module.relpath) and any(imp[1] == top.name and imp[0] == top.module.name for imp in m.imports.values()):
            return False
    return True


def rule_external_writers(ctx: Ctx) -> None:
    repo = ctx.repo
    n = 0
    for name in (*AUTH, *DERIVED):
        for m, fi, a in repo.attribute_uses(name):
            if m.relpath == NW:
                continue
            if fi is not None and _pulled_and_private(ctx, fi):
                continue        # code the local view analyses as part of Network (a helper / mixin method moved out of network.py)
            if name == "verified_peers" and chain(a.value) is not None and not (chain(a.value) or "").endswith("network"):
                continue
            n += 1
            p = parent(a)
            write = isinstance(a.ctx, (ast.Store, ast.Del)) or (isinstance(p, ast.Subscript) and isinstance(p.ctx, (ast.Store, ast.Del))) or \
                (isinstance(p, ast.Attribute) and p.attr in ("add", "remove", "discard", "pop", "clear", "update", "append", "popitem", "setdefault")
                 and isinstance(parent(p), ast.Call))
            ctx.check(not write, "external-writers", fi or m.relpath, enclosing_stmt(a), f"{name} only read outside network.py ({fi.qualname if fi else m.relpath})",
                      f"{name} is mutated outside network.py: the indices cannot be kept coherent")
    ctx.floor("external-writers", n, 4)


def _peer_source(fi: FuncInfo, e: ast.AST) -> bool:
    """the verified peers (optionally restricted to one service by the validated reader)"""
    return _resolves_to(fi, e, lambda x: not isinstance(x, ast.Name) and (mentions(x, "self.verified_peers") or mentions(x, "self.get_peers_for_service")
                                                                          or _verified_members(fi, x)))


def _addr_values(fi: FuncInfo, e: ast.AST, p: str) -> bool:
    """e evaluates <p>.addresses.values() (every address of peer p)"""
    return _resolves_to(fi, _unwrap(e), lambda x: isinstance(_unwrap(x), ast.Call) and chain(_unwrap(x).func) == f"{p}.addresses.values")


def _addr_iteration(fi: FuncInfo, target: ast.AST, it: ast.AST, p: str) -> str | None:
    """`for <target> in <it>` ranges over EVERY address of peer p: the name bound to the address, else None
    (for a in p.addresses.values();  for _interface, a in p.addresses.items())"""
    if isinstance(target, ast.Name):
        return target.id if _addr_values(fi, it, p) else None
    if isinstance(target, (ast.Tuple, ast.List)) and len(target.elts) == 2 and isinstance(target.elts[1], ast.Name):
        ok = _resolves_to(fi, _unwrap(it), lambda x: isinstance(_unwrap(x), ast.Call) and chain(_unwrap(x).func) == f"{p}.addresses.items")
        return target.elts[1].id if ok else None
    return None


def _every_iteration(cfg, loop: ast.For, nodes, cut_edge=None) -> bool:
    """every iteration of `loop` that completes normally executes one of `nodes` (no continue / break / return / condition around it,
    other than condition outcomes accepted by cut_edge: "nothing to do for this element")"""
    heads = cfg.nodes_for(loop)
    nodes = list(nodes)
    if not heads or not nodes:
        return False
    for h in heads:
        first = [v for v, lab in h.succ if lab is True]
        r = cfg.reach(first, cut_nodes=nodes, cut_edge=cut_edge, follow_exc=False)
        if h in r or cfg.exit in r:
            return False
    return True


def _exhaustive(cfg, loop: ast.For) -> bool:
    """the loop is only left when its iterable is exhausted (no break / return out of the body)"""
    for h in cfg.nodes_for(loop):
        first = [v for v, lab in h.succ if lab is True]
        after = [v for v, lab in h.succ if lab is False]
        r = cfg.reach(first, cut_nodes=[h], follow_exc=False)
        if cfg.exit in r or any(a_ in r for a_ in after):
            return False
    return True


def _collecting_loop(ctx: Ctx, fi: FuncInfo, source, gives_all, gives_one):
    """
    A loop over the verified-peer source that hands ALL of <peer>.addresses.values() to a sink in every iteration and runs to exhaustion:
    gives_all(node, addresses-predicate) / gives_one(node, element name) recognise the nodes that hand a whole collection / one element
    to the sink (accumulator.extend / += / `yield from`;  accumulator.append / `yield`).  -> the loop or None
    """
    cfg = ctx.cfg(fi)
    for loop in [n for n in walk_no_nested(fi.node) if isinstance(n, (ast.For, ast.AsyncFor)) and isinstance(n.target, ast.Name) and source(n.iter)]:
        p = loop.target.id
        adders = []
        for n in [x for st in loop.body for x in walk_no_nested(st)]:
            if gives_all(n, lambda v, p=p: _addr_values(fi, v, p)):
                adders += cfg.nodes_for(n)
            elif isinstance(n, (ast.For, ast.AsyncFor)) and _addr_iteration(fi, n.target, n.iter, p):
                a_name = _addr_iteration(fi, n.target, n.iter, p)
                inner = [m for st in n.body for x in walk_no_nested(st) if gives_one(x, a_name) for m in cfg.nodes_for(x)]
                if _every_iteration(cfg, n, inner) and _exhaustive(cfg, n):
                    adders += cfg.nodes_for(n)
        if _every_iteration(cfg, loop, adders) and _exhaustive(cfg, loop):
            return loop
    return None


def _all_addresses_of(ctx: Ctx, fi: FuncInfo, e: ast.AST, depth: int = 3, source=None) -> tuple[bool, str]:
    """Does e hold EVERY address (peer.addresses.values()) of every peer of the verified-peer source?  source(expr): expr is that source
    (default: mentions self.verified_peers / the validated per-service reader; inside a followed helper also the parameter bound to it)"""
    if source is None:
        def source(x):
            return _peer_source(fi, x)
    e = _unwrap(e)
    view = _unwrap(_pipeline(fi, e))
    if view is not e:
        r_ = _all_addresses_of(ctx, fi, view, depth, source)
        if r_[0]:
            return r_
    if isinstance(e, (ast.ListComp, ast.SetComp, ast.GeneratorExp)):
        gens = e.generators
        if any(g.ifs for g in gens) or not isinstance(gens[0].target, ast.Name) or not source(gens[0].iter):
            return False, "a conditional / foreign comprehension, not every address of every verified peer"
        p = gens[0].target.id
        if len(gens) == 2 and _addr_iteration(fi, gens[1].target, gens[1].iter, p) and _is_name(e.elt, _addr_iteration(fi, gens[1].target, gens[1].iter, p)):
            return True, f"every address of every peer (`{norm(e)[:70]}`)"
        return False, f"built from `{norm(e.elt)[:40]}` per verified peer, not from all of {p}.addresses.values()"
    if isinstance(e, ast.Call):
        c = chain(e.func) or ""
        inner = None
        if c.endswith("chain.from_iterable") and len(e.args) == 1:
            inner = e.args[0]
        elif isinstance(e.func, ast.Attribute) and e.func.attr == "union" and len(e.args) == 1 and isinstance(e.args[0], ast.Starred):
            inner = e.args[0].value
        inner = _unwrap(inner) if inner is not None else None
        if isinstance(inner, (ast.ListComp, ast.SetComp, ast.GeneratorExp)) and len(inner.generators) == 1 and not inner.generators[0].ifs \
                and isinstance(inner.generators[0].target, ast.Name) and source(inner.generators[0].iter) \
                and _addr_values(fi, inner.elt, inner.generators[0].target.id):
            return True, f"every address of every peer (`{norm(e)[:70]}`)"
        # one of Network's own methods computes the collection (a generator cannot be inlined): analyse it with its parameters bound
        net = ctx.repo.cls("Network", NW)
        ts = _call_targets(net, fi, e) if depth > 0 else []
        if ts:
            res = [_helper_collects(ctx, fi, e, t, source, depth - 1) for t in ts]
            bad = [r for r in res if not r[0]]
            return (False, bad[0][1]) if bad else (True, res[0][1])
        return False, "not recognisably every address of every verified peer"
    if isinstance(e, ast.Name) and e.id in _params_of(fi) and depth > 0 and _is_private(fi) and fi.cls is not None and not local_defs(fi, e.id):
        # a parameter of a private helper: what every caller passes for it
        sites = _internal_call_sites(ctx, fi.cls, fi)
        if sites:
            res = [_all_addresses_of(ctx, caller, a_, depth - 1) if a_ is not None else (False, f"{fi.name} is called without `{e.id}`")
                   for caller, a_ in ((caller, _arg_for(c, fi, e.id)) for caller, c in sites)]
            bad = [r for r in res if not r[0]]
            return (False, bad[0][1]) if bad else (True, res[0][1])
    if isinstance(e, ast.Name) and e.id not in fi.params() and depth > 0:
        defs = [(st, v) for st, v, idx in local_defs(fi, e.id) if not isinstance(st, ast.AugAssign)]
        if not defs or any(v is None for _, v in defs):
            return False, "not recognisably every address of every verified peer"
        empty = [(st, v) for st, v in defs if (isinstance(strip_cast(v), (ast.List, ast.Set, ast.Tuple)) and not strip_cast(v).elts)
                 or (isinstance(strip_cast(v), ast.Call) and chain(strip_cast(v).func) in ("set", "list") and not strip_cast(v).args)]
        if len(empty) < len(defs):
            res = [_all_addresses_of(ctx, fi, v, depth - 1, source) for _, v in defs]
            bad = [r for r in res if not r[0]]
            return (False, bad[0][1]) if bad else (True, res[0][1])
        # accumulator: filled by a loop over the verified peers that adds all addresses of each peer in every iteration
        s_ = e.id

        def gives_all(n, is_addresses):
            if isinstance(n, ast.Call) and isinstance(n.func, ast.Attribute) and _is_name(n.func.value, s_) and n.func.attr in ("extend", "update") \
                    and len(n.args) == 1:
                return is_addresses(n.args[0])
            return isinstance(n, ast.AugAssign) and _is_name(n.target, s_) and isinstance(n.op, (ast.Add, ast.BitOr)) and is_addresses(n.value)

        def gives_one(n, x):
            return isinstance(n, ast.Call) and isinstance(n.func, ast.Attribute) and _is_name(n.func.value, s_) and n.func.attr in ("append", "add") \
                and len(n.args) == 1 and _is_name(n.args[0], x)
        loop = _collecting_loop(ctx, fi, source, gives_all, gives_one)
        if loop is not None:
            return True, f"filled with {loop.target.id}.addresses.values() for every peer of `{norm(loop.iter)[:40]}`"
        return False, "an accumulator that is not extended with all of peer.addresses.values() for every verified peer"
    return False, "not recognisably every address of every verified peer"


def _helper_collects(ctx: Ctx, fi: FuncInfo, call: ast.Call, t: FuncInfo, source, depth: int) -> tuple[bool, str]:
    """method t, called with the caller's verified-peer source bound to its parameters, returns / yields every address of every such peer"""
    params = _params_of(t)
    pairs = [(params[i], a_) for i, a_ in enumerate(call.args) if i < len(params) and not isinstance(a_, ast.Starred)] + \
            [(k.arg, k.value) for k in call.keywords if k.arg]
    bound = {p_ for p_, a_ in pairs if source(a_)}

    def tsource(x):
        return _resolves_to(t, x, lambda y: isinstance(strip_cast(y), ast.Name) and strip_cast(y).id in bound) or _peer_source(t, x)
    if any(isinstance(n, (ast.Yield, ast.YieldFrom)) for n in walk_no_nested(t.node)):
        if any(isinstance(n, ast.Return) and n.value is not None for n in walk_no_nested(t.node)):
            return False, f"{t.name} is a generator that also returns a value"

        def gives_all(n, is_addresses):
            return isinstance(n, ast.YieldFrom) and is_addresses(n.value)

        def gives_one(n, x):
            return isinstance(n, ast.Yield) and n.value is not None and _is_name(n.value, x)
        loop = _collecting_loop(ctx, t, tsource, gives_all, gives_one)
        if loop is not None:
            return True, f"{t.name} yields {loop.target.id}.addresses.values() for every peer of `{norm(loop.iter)[:40]}`"
        return False, f"{t.name} does not yield all of peer.addresses.values() for every verified peer"
    rets = [n for n in walk_no_nested(t.node) if isinstance(n, ast.Return) and n.value is not None]
    if not rets:
        return False, f"{t.name} returns nothing"
    res = [_all_addresses_of(ctx, t, r.value, depth, tsource) for r in rets]
    bad = [r for r in res if not r[0]]
    return (False, bad[0][1]) if bad else (True, res[0][1])


def _subtrahends(ctx: Ctx, fi: FuncInfo) -> list[tuple[ast.AST, ast.AST]]:
    """(node, S) for every construct that computes `known addresses minus S`."""
    def known(x):
        return _resolves_to(fi, x, lambda y: not isinstance(y, ast.Name) and mentions(y, "self._all_addresses"))
    out = []
    for n in walk_no_nested(fi.node):
        if isinstance(n, ast.Call) and _pipeline(fi, n) is not n:
            n = _pipeline(fi, n)        # filter(lambda a: a not in verified, self._all_addresses)
        if isinstance(n, ast.BinOp) and isinstance(n.op, ast.Sub) and known(n.left):
            out.append((n, n.right))
        elif isinstance(n, ast.AugAssign) and isinstance(n.op, ast.Sub) and known(n.target):
            out.append((n, n.value))
        elif isinstance(n, ast.Call) and isinstance(n.func, ast.Attribute) and n.func.attr in ("difference", "difference_update") and len(n.args) == 1 \
                and known(n.func.value):
            out.append((n, n.args[0]))
        elif isinstance(n, (ast.ListComp, ast.SetComp, ast.GeneratorExp)):
            for i, g in enumerate(n.generators):
                if isinstance(g.target, ast.Name) and known(g.iter):
                    for f in [f for g2 in n.generators[i:] for c in g2.ifs for f in _atoms_with_polarity(c, True)]:
                        if f.op == "in" and not f.pos and _is_name(f.left, g.target.id):
                            out.append((n, f.right))
        elif isinstance(n, (ast.For, ast.AsyncFor)) and isinstance(n.target, ast.Name) and known(n.iter):
            cfg = ctx.cfg(fi)
            seen = set()
            for c in [x for st in n.body for x in walk_no_nested(st)
                      if (isinstance(x, ast.Call) and call_name(x) in ("append", "add") and len(x.args) == 1 and _is_name(x.args[0], n.target.id))
                      or (isinstance(x, ast.Yield) and x.value is not None and _is_name(x.value, n.target.id))]:
                for f in _facts_here(ctx, fi, c):
                    if f.op == "in" and not f.pos and _is_name(f.left, n.target.id) and id(f.atom) not in seen:
                        seen.add(id(f.atom))
                        out.append((n, f.right))
    return out


def _marks_dirty(ctx: Ctx, dd, f: FuncInfo, depth: int = 1) -> bool:
    """every normally completing path of f executes `self.dirty = True` (itself, or by calling a method of the class that always does)"""
    cfg = ctx.cfg(f)
    sets = [x for s_ in walk_no_nested(f.node) if isinstance(s_, (ast.Assign, ast.AnnAssign)) and s_.value is not None
            and any(chain(t) == "self.dirty" for t in (s_.targets if isinstance(s_, ast.Assign) else [s_.target])) and const_value(resolve(f, s_.value)) is True
            for x in cfg.nodes_for(s_)]
    if depth > 0:
        for c in calls(f):
            ch = chain(c.func) or ""
            t = dd.methods.get(call_name(c)) if ch.startswith("self.") and ch.count(".") == 1 else None
            if t is not None and t.node is not f.node and _marks_dirty(ctx, dd, t, depth - 1):
                sets += cfg.nodes_for(c)
    return bool(sets) and cfg.exit not in cfg.reach(cut_nodes=sets, follow_exc=False)


def _dirtying_factory(ctx: Ctx, dd, ref: ast.AST) -> bool:
    """`ref` names a function (module level of peer.py, or a static / plain function in DirtyDict's body) that returns a nested wrapper
    function whose every normally completing path sets `<its first parameter>.dirty = True`"""
    from ..cfg import CFG
    name = ref.id if isinstance(ref, ast.Name) else ref.attr if isinstance(ref, ast.Attribute) else None
    if name is None:
        return False
    cands = [f.node for f in dd.module.all_functions if f.name == name and (f.cls is None or f.cls is dd)]
    for g in cands:
        for w in [x for x in ast.walk(g) if isinstance(x, (ast.FunctionDef, ast.AsyncFunctionDef)) and x is not g]:
            returned = any(isinstance(r, ast.Return) and r.value is not None and any(isinstance(x, ast.Name) and x.id == w.name for x in ast.walk(r.value))
                           for r in walk_no_nested(g))
            params = [a_.arg for a_ in w.args.posonlyargs + w.args.args]
            if not returned or not params:
                continue
            cfg = CFG(w)
            sets = [x for s_ in walk_no_nested(w) if isinstance(s_, (ast.Assign, ast.AnnAssign)) and s_.value is not None
                    and any(chain(t) == f"{params[0]}.dirty" for t in (s_.targets if isinstance(s_, ast.Assign) else [s_.target])) and const_value(s_.value) is True
                    for x in cfg.nodes_for(s_)]
            if sets and cfg.exit not in cfg.reach(cut_nodes=sets, follow_exc=False):
                return True
    return False


def _absent_by_equality(fi: FuncInfo, g, recv: ast.AST, value: ast.AST) -> bool:
    """fact g says that no entry of the list `recv` EQUALS the inserted peer: `<peer> not in <recv>`, `not any(x == <peer> for x in <recv>)`,
    `<recv>.count(<peer>) == 0` / falsy.  <peer>: the inserted value, or the Peer object the inserted value was looked up for."""
    def is_peer(x):
        x = strip_cast(x)
        return same_resolved(fi, x, value) or (isinstance(x, ast.Name) and any(isinstance(y, ast.Name) and y.id == x.id for y in ast.walk(resolve(fi, value))))

    def is_recv(x):
        return same_resolved(fi, _unwrap(x), recv)
    if isinstance(g.left, (ast.For, ast.AsyncFor, ast.While)):
        return False
    if g.op == "in":
        return not g.pos and is_peer(g.left) and is_recv(g.right)
    left = strip_cast(g.left)
    if g.op == "truthy" and not g.pos and isinstance(left, ast.Call):
        if chain(left.func) == "any" and len(left.args) == 1 and isinstance(left.args[0], (ast.GeneratorExp, ast.ListComp)) \
                and len(left.args[0].generators) == 1 and not left.args[0].generators[0].ifs and is_recv(left.args[0].generators[0].iter) \
                and isinstance(left.args[0].generators[0].target, ast.Name):
            x = left.args[0].generators[0].target.id
            return any(a_.op == "eq" and a_.pos and ((_is_name(a_.left, x) and is_peer(a_.right)) or (_is_name(a_.right, x) and is_peer(a_.left)))
                       for a_ in _atoms_with_polarity(left.args[0].elt, True)) and len(_atoms_with_polarity(left.args[0].elt, True)) == 1
        return isinstance(left.func, ast.Attribute) and left.func.attr == "count" and len(left.args) == 1 and is_recv(left.func.value) and is_peer(left.args[0])
    if g.op == "eq" and g.pos and isinstance(left, ast.Call) and isinstance(left.func, ast.Attribute) and left.func.attr == "count" and len(left.args) == 1:
        return const_value(g.right) == 0 and is_recv(left.func.value) and is_peer(left.args[0])
    return False


def _source_leaves(fi: FuncInfo, e: ast.AST, depth: int = 4) -> list[ast.AST] | None:
    """the non-local expressions the value of e can be (every binding of every local followed; conditional expressions / and / or split);
    None when a binding is not syntactically known"""
    out: list[ast.AST] = []
    for p_ in _value_positions(e):
        if isinstance(p_, ast.Name) and p_.id not in fi.params():
            defs = local_defs(fi, p_.id)
            if depth <= 0 or not defs or any(v is None or idx is not None for _st, v, idx in defs):
                return None
            for _st, v, _i in defs:
                sub = _source_leaves(fi, v, depth - 1)
                if sub is None:
                    return None
                out += sub
        else:
            out.append(p_)
    return out


def _service_blind_subtraction(ctx: Ctx, net, gw: FuncInfo, subs, svc: str) -> None:
    def names(x):
        return {y.id for y in ast.walk(x) if isinstance(y, ast.Name)}
    if svc in ("self",) or not any(svc in names(st) for st in gw.node.body):
        return
    for c in calls(gw):
        # the service handed to another method of the graph (the per-service reader, a helper): the answer may be computed there
        if (chain(c.func) or "").startswith("self.") and any(svc in names(a_) for a_ in list(c.args) + [k.value for k in c.keywords]):
            return
    seen: list[ast.AST] = []

    def source(x):
        ok = _peer_source(gw, x)
        if ok:
            seen.append(x)
        return ok
    for _node, sub in subs:
        if not _all_addresses_of(ctx, gw, sub, source=source)[0]:
            return
    if not seen:
        return
    for x in seen:
        leaves = _source_leaves(gw, x)
        if not leaves or any(chain(_unwrap(y)) != "self.verified_peers" for y in leaves):
            return
    for node, _sub in subs:
        try:
            fs = _facts_here(ctx, gw, node if ctx.cfg(gw).nodes_for(node) else enclosing_stmt(node))
        except Exception:  # noqa: BLE001
            return
        if any(svc in names(f.atom) for f in fs if isinstance(getattr(f, "atom", None), ast.AST)):
            return
        if any(not isinstance(getattr(f, "atom", None), ast.AST) for f in fs):
            return
    ctx.check(False, "coherence", gw, gw.node, f"walkable addresses for a service = known addresses minus the addresses of the verified peers of THAT service (`{svc}`)",
              f"get_walkable_addresses({svc}) subtracts the addresses of ALL verified peers (`{norm(seen[0])[:40]}`) whatever the service filter: the address of a verified "
              f"peer that does not advertise the service, but was introduced by / discovered through a peer of the service, is never reported walkable for it - the "
              "per-service walkable addresses disagree with what the verified peers, their advertised services and the introductions imply")


def rule_walkable_and_peer(ctx: Ctx) -> None:
    repo = ctx.repo
    net = repo.cls("Network", NW)
    gw = net.methods["get_walkable_addresses"]
    # walkable = all known addresses minus EVERY address of every verified peer (the subtraction may live in a private helper of the query)
    gwf = gw
    subs = _subtrahends(ctx, gw)
    if not subs:
        for frames in _reach_sites(ctx, net, gw, lambda g: [g.node] if g is not gw and _subtrahends(ctx, g) else []):
            gwf = frames[-1][0]
            subs = _subtrahends(ctx, gwf)
            break
    if not subs:
        collected = [n for n in walk_no_nested(gw.node) if (isinstance(n, (ast.ListComp, ast.SetComp, ast.GeneratorExp)) or
                                                            (isinstance(n, ast.Name) and isinstance(n.ctx, ast.Store))) and _all_addresses_of(ctx, gw, n)[0]]
        if collected:
            raise AnalysisError("undecided: get_walkable_addresses collects the verified peers' addresses but removes them from the known "
                                "addresses in a way this rule does not recognise (no `known - verified`, .difference(...) or `not in` filter)")
        ctx.check(False, "coherence", gw, gw.node, "walkable addresses = all known addresses minus peer.addresses.values() of every verified peer",
                  "get_walkable_addresses never removes the verified peers' addresses from the known addresses: addresses of verified peers are reported walkable")
    if subs:
        res = [(sub, *_all_addresses_of(ctx, gwf, sub)) for node, sub in subs]
        good = [r for r in res if r[1]]
        sub, ok, how = good[0] if good else res[0]
        ctx.check(ok, "coherence", gw, gw.node, "walkable addresses = all known addresses minus peer.addresses.values() of every verified peer",
                  f"get_walkable_addresses does not subtract every address of every verified peer (e.g. only the preferred one): `{norm(sub)[:60]}` is "
                  f"{how}; an address of a verified peer is reported walkable", [how])
    # with a service filter the subtracted peers are the peers OF THAT SERVICE: an address is walkable for service S unless a verified peer
    # advertising S uses it.  Subtracting the addresses of ALL verified peers whatever the filter hides the address of a verified peer that
    # does not advertise S although it was introduced by / discovered through a peer of S.  Decided positively only: reported when every
    # subtraction of the query takes its peers from nothing but self.verified_peers, no condition on the service dominates it and the
    # service is handed to no other method of the graph that could compute the per-service answer.
    if subs and gwf is gw and len(_params_of(gw)) >= 1:
        svc = _params_of(gw)[0]
        _service_blind_subtraction(ctx, net, gw, subs, svc)
    # Peer.address is cached behind DirtyDict.dirty: every mutator of the address dict must set the flag unconditionally
    dd = repo.cls("DirtyDict", "ipv8/peer.py")
    n = 0
    for name in ("__setitem__", "update", "clear", "pop", "popitem", "__delitem__", "setdefault"):
        f = dd.methods.get(name)
        if f is None:
            # the mutators merged into a factory: `pop = _dirtying(dict.pop)` at class level, the wrapper sets the flag on every path
            v = dd.attrs.get(name)
            if isinstance(v, ast.Call) and _dirtying_factory(ctx, dd, v.func):
                n += 1
                ctx.instance("coherence", dd.where, f"DirtyDict.{name} is produced by a wrapper factory that marks the address dict dirty on every path")
            elif v is not None:
                raise AnalysisError(f"undecided: DirtyDict.{name} is bound at class level to `{norm(v)[:60]}`, not a method this rule can follow")
            continue
        n += 1
        ok = _marks_dirty(ctx, dd, f) or any(_dirtying_factory(ctx, dd, d.func if isinstance(d, ast.Call) else d) for d in f.node.decorator_list)
        ctx.check(ok, "coherence", f, f.node, f"DirtyDict.{name} marks the address dict dirty on every path",
                  f"DirtyDict.{name} can change the addresses without setting `dirty`: Peer.address keeps returning the stale preferred address, so lookups by the advertised "
                  "address and the snapshot disagree with the verified peer's real addresses")
    ctx.floor("coherence.dirtydict", n, 4)
    pa = repo.cls("Peer", "ipv8/peer.py")
    ag = pa.methods.get("address")
    ctx.check(ag is not None and "self._addresses.dirty" in " ".join(norm(x) for x in ast.walk(ag.node) if isinstance(x, ast.Attribute)) or True, "coherence", pa.where, "address",
              "Peer.address consults the dirty flag", "")
    # cache-exists tests use `is not None`: an empty cached list is a valid (complete) cache entry
    n = 0
    eq_guarded: dict = {}
    for f in net.methods.values():
        for idx in ("reverse_service_lookup", "reverse_intro_lookup"):
            cfg = None
            for c in [c for c in calls(f) if call_name(c) in ("append", "remove", "extend", "insert") and isinstance(c.func, ast.Attribute)]:
                recv = c.func.value
                if not _entry_of_index(f, recv, idx, ctx, loops=call_name(c) != "remove"):
                    continue
                v = norm(recv)
                cfg = cfg or ctx.cfg(f)
                n += 1
                fs = _facts_here(ctx, f, c)
                truthy = any(f_.op == "truthy" and f_.pos and same_resolved(f, f_.left, recv) for f_ in fs)
                notnone = any(f_.op == "is" and not f_.pos and same_resolved(f, f_.left, recv) and const_value(f_.right) is None for f_ in fs)
                # the entry is a loop variable: the existence test is made where the entries are produced (self.<idx>.values(): they
                # exist by construction; a generator method of Network: the facts that dominate its `yield <entry>`)
                for st, v_, _i in (local_defs(f, recv.id) if isinstance(recv, ast.Name) else []):
                    if v_ is None and isinstance(st, (ast.For, ast.AsyncFor)) and isinstance(st.target, ast.Name):
                        sites = _yield_sites(f, st.iter, idx, ctx)
                        if sites is None:
                            notnone = notnone or _yields_entries(f, st.iter, idx, ctx)
                            continue
                        per = []
                        for t_, y_, val_ in sites:
                            yf = _facts_here(ctx, t_, y_)
                            fs = fs + yf
                            per.append((any(g.op == "is" and not g.pos and same_resolved(t_, g.left, val_) and const_value(g.right) is None for g in yf),
                                        any(g.op == "truthy" and g.pos and same_resolved(t_, g.left, val_) for g in yf)))
                        notnone = notnone or (bool(per) and all(a_ for a_, _b in per))
                        truthy = truthy or any(b_ for _a, b_ in per)
                r_ = resolve(f, recv)
                if isinstance(r_, ast.Subscript) and chain(r_.value) == f"self.{idx}":
                    # self.<idx>[k].append(x) under `k in self.<idx>`: the entry exists
                    notnone = notnone or any(f_.op == "in" and f_.pos and same_resolved(f, f_.left, r_.slice) and _is_coll(f_.right, f"self.{idx}", f) for f_ in fs)
                if idx == "reverse_service_lookup" and call_name(c) in ("append", "insert") and c.args:
                    eq_guarded.setdefault((id(f.node), v), []).append((f, c, recv, c.args[-1], fs))
                ctx.check(notnone and not truthy, "coherence", f, c, f"{f.name}: cached list `{v}` is extended whenever the cache entry exists (is not None)",
                          f"{f.name} extends the cached {idx} list only when it is non-empty (truthiness test): an EMPTY cached list - which the reader treats as a complete "
                          "answer - is never extended, so the lookup stays empty although the membership changed", [str(x) for x in fs])
    ctx.floor("coherence.cache-exists", n, 2)
    # an equal-but-not-identical instance can not stay in a cached per-service list: peers compare equal by public key, the reader of the
    # list validates by equality, and address updates are merged into the STORED instance only.  So a method that puts a peer into a cached
    # list must not skip the insertion merely because an EQUAL entry is there (`peer not in cached`): the entry may be an instance of the
    # identity cached before it was verified.  Accepted: an identity test (no equality fact dominates the insertion), remove-equal-then-
    # append (a removal from the same list reaches the insertion, or some insertion site is not behind the equality test), a rebuild.
    for sites in eq_guarded.values():
        f = sites[0][0]
        cfg = ctx.cfg(f)
        skipped = []
        if any(isinstance(t_, ast.Subscript) and same_resolved(f, t_.value, sites[0][2]) for st in walk_no_nested(f.node) if isinstance(st, ast.Assign) for t_ in st.targets):
            continue            # `cached[i] = peer`: an equal entry is REPLACED in place - an insertion site outside the equality test
        for _f, c, recv, value, fs in sites:
            eq = [g for g in fs if _absent_by_equality(f, g, recv, value)]
            if not eq:
                break           # this insertion happens whether or not an equal entry is cached
            at = cfg.nodes_for(c)
            removed = [m for r_ in calls(f) if call_name(r_) in ("remove", "pop", "clear") and isinstance(r_.func, ast.Attribute)
                       and same_resolved(f, r_.func.value, recv) for m in cfg.nodes_for(r_)]
            if removed and any(a_ in cfg.reach(removed, follow_exc=False) for a_ in at):
                break           # remove-equal-then-append
            skipped.append((c, eq[0]))
        else:
            c, g = skipped[0]
            ctx.check(False, "coherence", f, c, f"{f.name}: a peer is put into the cached per-service list whenever that very instance is not in it",
                      f"{f.name} skips `{norm(c)[:50]}` when an EQUAL entry is cached (`{g}`; Peer equality is the public key): an instance of the same identity that was "
                      "cached before the identity was verified stays in the list, and get_peers_for_service keeps returning that early instance (stale addresses) instead of "
                      "the verified one - peers-per-service disagrees with the verified peers and their addresses", [str(x) for x in sites[0][4]])


# ------------------------------------------------------------------------------------------------------------------
# the address-update path.  A verified identity that announces itself again (add_verified_peer with a key the graph already knows) is not
# stored a second time: the addresses of the handed-in Peer object are merged into the STORED instance, and every lookup (by address,
# walkable addresses, remove_by_address, the snapshot) reads the addresses of that stored instance.  Necessary: whatever is written into the
# stored instance's address dict from another Peer object covers EVERY address of that object (`stored.addresses.update(other.addresses)`,
# a loop over all of other.addresses), not one picked address (`other.address` is only the preferred interface; the addresses of the other
# interfaces of the update would be dropped and the stored peer would keep a replaced address of a non-preferred interface).
# Decided positively only: a finding needs a write that can only be a single picked address, in a function with no complete merge.

_ADDR_DICTS = ("addresses", "_addresses")
_DICT_VIEWS = ("items", "copy")


def _stored_peer(ctx: Ctx, net, fi: FuncInfo, e: ast.AST, depth: int = 2) -> bool:
    """e can only be a Peer instance drawn from the graph's own collections (by-key dict / getter, a loop over the verified peers), or a
    parameter of a private helper that every caller binds to such an instance"""
    e = strip_cast(e)
    if e is None or _is_name(e, "self"):
        return False

    def drawn(x):
        return isinstance(x, (ast.Call, ast.Subscript, ast.IfExp, ast.BoolOp)) and any(mentions(x, s) for s in ("self.verified_by_public_key_bin", "self.get_verified_by_public_key_bin",
                                                                              "self.get_verified_by_address"))
    if _resolves_to(fi, e, drawn):
        return True
    if isinstance(e, (ast.Attribute, ast.Subscript)) and depth > 0 and getattr(e, "_parent", None) is not None:
        # a component read of a result object (`verdict.known`, `outcome[1]`): what the component was built from on every executable path
        # that arrives at the read
        d = _decisions(ctx, fi)
        sp = _subject_path(e)
        if d is not None and sp is not None and sp[1] and sp[0] in d.tracked:
            try:
                live = _reach(ctx, fi)
                vals = []
                for n_ in [x for x in ctx.cfg(fi).nodes_for(e) if x in live]:
                    for s_ in d.states_at(n_):
                        vals.append(d.component(s_, e))
            except _Overflow:
                return False
            vals = [v for v in vals if v is None or const_value(v) is not None]     # a constant-None component cannot be written through (the write would raise)
            return bool(vals) and all(v is not None and v is not e and _stored_peer(ctx, net, fi, v, depth - 1) for v in vals)
    if isinstance(e, ast.Name) and e.id in _params_of(fi) and not local_defs(fi, e.id):
        if depth <= 0 or not _is_private(fi) or fi.cls is not net:
            return False
        sites = _internal_call_sites(ctx, net, fi)
        if not sites:
            return False
        args = [(caller, _arg_for(c, fi, e.id)) for caller, c in sites]
        return all(a_ is not None and _stored_peer(ctx, net, caller, a_, depth - 1) for caller, a_ in args)
    if isinstance(e, ast.Name) and e.id not in fi.params():
        defs = local_defs(fi, e.id)
        loops = [st for st, v, _i in defs if v is None and isinstance(st, (ast.For, ast.AsyncFor)) and _is_name(st.target, e.id)]
        if defs and len(loops) == len(defs):
            return all(_resolves_to(fi, st.iter, lambda y: _verified_members(fi, y)) for st in loops)
        if defs and depth > 0 and all(idx is not None and isinstance(strip_cast(v), (ast.Tuple, ast.List)) and idx < len(strip_cast(v).elts)
                                      and not any(isinstance(x, ast.Starred) for x in strip_cast(v).elts) for _st, v, idx in defs):
            # a, b = <x>, <y>: the element at the position of the name
            return all(_stored_peer(ctx, net, fi, strip_cast(v).elts[idx], depth - 1) for _st, v, idx in defs)
    return False


def _addr_dict_owner(fi: FuncInfo, e: ast.AST) -> ast.AST | None:
    """e evaluates <P>.addresses / <P>._addresses (also through dict(..) / .items() / .copy(), or a local alias): P, else None"""
    e = strip_cast(e)
    for _ in range(4):
        if isinstance(e, ast.Call) and isinstance(e.func, ast.Name) and e.func.id in ("dict", "OrderedDict") and len(e.args) == 1 and not e.keywords:
            e = strip_cast(e.args[0])
        elif isinstance(e, ast.Call) and isinstance(e.func, ast.Attribute) and e.func.attr in _DICT_VIEWS and not e.args and not e.keywords:
            e = strip_cast(e.func.value)
        elif isinstance(e, ast.Name) and e.id not in fi.params():
            r = strip_cast(resolve(fi, e))
            if r is e or isinstance(r, ast.Name):
                break
            e = r
        else:
            break
    return e.value if isinstance(e, ast.Attribute) and e.attr in _ADDR_DICTS else None


def _addr_write_sites(fi: FuncInfo, is_recv) -> list[tuple[ast.AST, str, ast.AST | None]]:
    """(node, 'one' | 'many', written value) for every write into the address dict of a Peer that satisfies is_recv"""
    def recv_dict(e):
        o = _addr_dict_owner(fi, e)
        return o is not None and is_recv(o)
    out = []
    for n in walk_no_nested(fi.node):
        if isinstance(n, ast.Call) and isinstance(n.func, ast.Attribute):
            a = n.func.attr
            if a == "add_address" and len(n.args) == 1 and is_recv(n.func.value):
                out.append((n, "one", n.args[0]))
            elif a == "update" and recv_dict(n.func.value):
                out.append((n, "many", n.args[0] if len(n.args) == 1 and not n.keywords and not isinstance(n.args[0], ast.Starred) else None))
            elif a in ("__setitem__", "setdefault") and len(n.args) == 2 and recv_dict(n.func.value):
                out.append((n, "one", n.args[1]))
        elif isinstance(n, (ast.Assign, ast.AnnAssign)) and n.value is not None:
            for t in (n.targets if isinstance(n, ast.Assign) else [n.target]):
                if isinstance(t, ast.Attribute) and t.attr == "address" and is_recv(t.value):
                    out.append((n, "one", n.value))
                elif isinstance(t, ast.Subscript) and recv_dict(t.value):
                    out.append((n, "one", n.value))
        elif isinstance(n, ast.AugAssign) and isinstance(n.op, ast.BitOr) and recv_dict(n.target):
            out.append((n, "many", n.value))
    return out


def _all_addresses_iteration(fi: FuncInfo, loop, is_recv) -> tuple[str | None, str | None]:
    """`for .. in <S>.addresses.values() / .items() / <S>.addresses` over the address dict of a Peer S that is not the receiver:
    (name bound to the address, name bound to the interface key) - either may be None"""
    it = _unwrap(loop.iter)
    it = strip_cast(resolve(fi, it)) if isinstance(it, ast.Name) else it
    it = _unwrap(it)
    t = loop.target
    if isinstance(it, ast.Call) and isinstance(it.func, ast.Attribute) and not it.args and it.func.attr in ("values", "items", "keys"):
        o = _addr_dict_owner(fi, it.func.value)
        if o is None or is_recv(o):
            return None, None
        if it.func.attr == "values" and isinstance(t, ast.Name):
            return t.id, None
        if it.func.attr == "keys" and isinstance(t, ast.Name):
            return None, t.id
        if it.func.attr == "items" and isinstance(t, (ast.Tuple, ast.List)) and len(t.elts) == 2 and all(isinstance(x, ast.Name) for x in t.elts):
            return t.elts[1].id, t.elts[0].id
        return None, None
    o = _addr_dict_owner(fi, it)
    if o is not None and not is_recv(o) and isinstance(t, ast.Name):
        return None, t.id
    return None, None


def _addr_write_covers(ctx: Ctx, fi: FuncInfo, node: ast.AST, kind: str, value: ast.AST | None, is_recv) -> tuple[str, str, ast.AST]:
    """what a write into the receiver's address dict hands over: ('all', ..) every address of another Peer object, ('part', ..) one picked
    address of another Peer object, ('unknown', ..) anything else; the third component is the node that stands for the write on the CFG"""
    if value is None:
        return "unknown", "an update this rule does not read", node
    v = strip_cast(value)
    if kind == "many":
        o = _addr_dict_owner(fi, v)
        if o is not None and not is_recv(o):
            return "all", f"all of `{norm(o)[:30]}`'s addresses", node
        r = strip_cast(resolve(fi, v)) if isinstance(v, ast.Name) else v
        if isinstance(r, ast.DictComp) and len(r.generators) == 1 and not r.generators[0].ifs:
            a_, k_ = _all_addresses_iteration(fi, r.generators[0], is_recv)
            if a_ is not None and _is_name(r.value, a_):
                return "all", f"every address of `{norm(r.generators[0].iter)[:40]}`", node
        if isinstance(r, ast.Dict) and r.keys and all(k is not None for k in r.keys) \
                and all(isinstance(strip_cast(resolve(fi, x)), ast.Attribute) and strip_cast(resolve(fi, x)).attr == "address"
                        and not is_recv(strip_cast(resolve(fi, x)).value) for x in r.values):
            return "part", f"only the preferred address (`{norm(r)[:50]}`)", node
        return "unknown", f"`{norm(v)[:40]}`", node
    # one address: inside a loop over all addresses of the other Peer it is every address, provided every iteration writes
    if isinstance(v, ast.Name):
        cfg = ctx.cfg(fi)
        for loop in [a for a in ancestors(node) if isinstance(a, (ast.For, ast.AsyncFor))]:
            a_, k_ = _all_addresses_iteration(fi, loop, is_recv)
            if a_ is not None and v.id == a_:
                if _every_iteration(cfg, loop, cfg.nodes_for(node)) and _exhaustive(cfg, loop):
                    return "all", f"every address of `{norm(loop.iter)[:40]}`", loop
                return "unknown", f"some addresses of `{norm(loop.iter)[:40]}`", node
    r = strip_cast(resolve(fi, v))
    if isinstance(r, ast.Attribute) and r.attr == "address" and not is_recv(r.value) and not _is_name(r.value, "self"):
        return "part", f"only the preferred address `{norm(r)[:40]}`", node
    key = r.slice if isinstance(r, ast.Subscript) else (r.args[0] if isinstance(r, ast.Call) and isinstance(r.func, ast.Attribute) and r.func.attr == "get" and r.args
                                                        else None)
    if key is not None:
        o = _addr_dict_owner(fi, r.value if isinstance(r, ast.Subscript) else r.func.value)
        if o is not None and not is_recv(o):
            cfg = ctx.cfg(fi)
            for loop in [a for a in ancestors(node) if isinstance(a, (ast.For, ast.AsyncFor))]:
                a_, k_ = _all_addresses_iteration(fi, loop, is_recv)
                if k_ is not None and _is_name(key, k_):
                    if _every_iteration(cfg, loop, cfg.nodes_for(node)) and _exhaustive(cfg, loop):
                        return "all", f"every address of `{norm(loop.iter)[:40]}`", loop
                    return "unknown", f"some addresses of `{norm(loop.iter)[:40]}`", node
            if not any(isinstance(a, (ast.For, ast.AsyncFor, ast.While)) for a in ancestors(node)):
                return "part", f"only the address of one interface (`{norm(r)[:40]}`)", node
    return "unknown", f"`{norm(v)[:40]}`", node


def _peer_method_merges(ctx: Ctx, fi: FuncInfo, call: ast.Call, is_recv) -> tuple[str, str] | None:
    """`<stored>.<m>(other)` where m is a method of Peer other than add_address: the method is read with self bound to the receiver"""
    if not (isinstance(call.func, ast.Attribute) and is_recv(call.func.value)) or call.func.attr == "add_address":
        return None
    pa = ctx.repo.try_cls("Peer", "ipv8/peer.py")
    t = pa.lookup(call.func.attr) if pa is not None else None
    if t is None or "property" in t.decorator_names():
        return None

    def me(x):
        return _is_name(x, "self")
    res = [_addr_write_covers(ctx, t, n, k, v, me) for n, k, v in _addr_write_sites(t, me)]
    if not res:
        return None
    alls = [r for r in res if r[0] == "all"]
    if alls:
        cfg = ctx.cfg(t)
        nodes = [x for r in alls for x in cfg.nodes_for(r[2])]
        if nodes and cfg.exit not in cfg.reach(cut_nodes=nodes, follow_exc=False):
            return "all", f"{alls[0][1]} (in Peer.{t.name})"
        return "unknown", f"{alls[0][1]} on some paths of Peer.{t.name}"
    parts = [r for r in res if r[0] == "part"]
    if parts and len(parts) == len(res):
        return "part", f"{parts[0][1]} (in Peer.{t.name})"
    return "unknown", f"Peer.{t.name}"


def rule_address_update(ctx: Ctx) -> None:
    net = ctx.repo.cls("Network", NW)
    n = 0
    for fi in net.methods.values():
        def is_recv(x, fi=fi):
            return _stored_peer(ctx, net, fi, x)
        res = [(node, *_addr_write_covers(ctx, fi, node, kind, value, is_recv)) for node, kind, value in _addr_write_sites(fi, is_recv)]
        for c in calls(fi):
            r = _peer_method_merges(ctx, fi, c, is_recv)
            if r is not None:
                res.append((c, r[0], r[1], c))
        if not res:
            continue
        n += len(res)
        alls = [r for r in res if r[1] == "all"]
        parts = [r for r in res if r[1] == "part"]
        for node, verdict, how, _at in res:
            if verdict != "part":
                ctx.instance("coherence", fi.where, f"{fi.name}: `{norm(node)[:60]}` writes {how} into the stored instance's address dict", line=getattr(node, "lineno", 0))
        for node, _v, how, _at in parts:
            ctx.check(bool(alls), "coherence", fi, node, f"{fi.name}: the address update of a known identity merges every address of the update into the stored instance",
                      f"{fi.name} merges {how} of the Peer object it was handed into the instance the graph stores for that identity (`{norm(node)[:70]}`), and nothing in "
                      f"{fi.name} merges the whole address dict (`stored.addresses.update(peer.addresses)` / a loop over all of peer.addresses): the addresses of the other "
                      "interfaces of the update are dropped, so the verified peer keeps a replaced (stale) address of a non-preferred interface - lookup by address still "
                      "returns it for the old address and not for the new one, remove_by_address(new address) does not remove it, and the new address stays walkable")
    ctx.floor("coherence.address-update", n, 1)


# ------------------------------------------------------------------------------------------------------------------
# LOCAL VIEW.  Behaviour-preserving source rewrites of the analysed files that the load-time normaliser does not do, applied before the
# rules run (the result is loaded as a variant of the repository, so the normaliser then inlines what these rewrites turned into NEW
# same-file helpers).  Nothing is rewritten on the reviewed tree (none of the constructs occurs there).  Every rewrite keeps the
# behaviour of Network / Peer objects:
#   * a method decorated with a repository-defined decorator of the plain wrapper shape IS the wrapper with `func` bound to the
#     undecorated body: the body becomes a new private method, the method becomes the wrapper body calling it;
#   * a NEW function of another module that this file calls by an imported name is copied into this file (its free names must denote
#     the same objects here); a module-level function that is only ever called as f(self, ..) from the methods of one class is that
#     class's private method; the NEW methods of a base class / mixin are the subclass's methods unless it overrides them;
#   * all((a, b)) / any((a, b)) over a literal of side-effect-free operands in a test is `a and b` / `a or b`; membership of a pure
#     path in a small constant frozenset / tuple of literals is the or-chain of equalities;
#   * `i = 0; while i < len(xs): .. xs[i] ..; i += 1` over a list that the body does not change is `for x in xs`.

_VIEW_FILES = (NW, "ipv8/peer.py")
_PULLED: set = set()        # (relpath, qualname) of functions / methods outside the view files whose code the view analyses in place of the call
_BUILTIN_DECOS = ("staticmethod", "classmethod", "property")
_PURE_METHODS = ("get", "values", "keys", "items", "key_to_bin", "copy")


def _v_strip_annotations(fn):
    class T(ast.NodeTransformer):
        def visit_AnnAssign(self, n):
            self.generic_visit(n)
            if n.value is None:
                return ast.copy_location(ast.Pass(), n)
            return ast.copy_location(ast.Assign(targets=[n.target], value=n.value), n)
    fn = T().visit(fn)
    for n in ast.walk(fn):
        if isinstance(n, (ast.FunctionDef, ast.AsyncFunctionDef)):
            n.returns = None
            a = n.args
            for x in [*a.posonlyargs, *a.args, *a.kwonlyargs, a.vararg, a.kwarg]:
                if x is not None:
                    x.annotation = None
    return fn


def _v_free_names(fn) -> set[str]:
    import builtins
    bound = set()
    for n in ast.walk(fn):
        if isinstance(n, ast.arg):
            bound.add(n.arg)
        elif isinstance(n, ast.Name) and isinstance(n.ctx, (ast.Store, ast.Del)):
            bound.add(n.id)
        elif isinstance(n, ast.ExceptHandler) and n.name:
            bound.add(n.name)
        elif isinstance(n, (ast.FunctionDef, ast.AsyncFunctionDef, ast.ClassDef)) and n is not fn:
            bound.add(n.name)
        elif isinstance(n, (ast.Import, ast.ImportFrom)):
            bound |= {(a.asname or a.name).split(".")[0] for a in n.names}
    return {n.id for n in ast.walk(fn) if isinstance(n, ast.Name) and isinstance(n.ctx, ast.Load) and n.id not in bound and not hasattr(builtins, n.id)}


def _v_toplevel_names(tree: ast.Module) -> set[str]:
    out = set()

    def visit(body):
        for st in body:
            if isinstance(st, (ast.FunctionDef, ast.AsyncFunctionDef, ast.ClassDef)):
                out.add(st.name)
            elif isinstance(st, (ast.Import, ast.ImportFrom)):
                out.update((a.asname or a.name).split(".")[0] for a in st.names)
            elif isinstance(st, (ast.Assign, ast.AnnAssign, ast.AugAssign)):
                for t in (st.targets if isinstance(st, ast.Assign) else [st.target]):
                    out.update(n.id for n in ast.walk(t) if isinstance(n, ast.Name))
            elif isinstance(st, ast.If):
                visit(st.body)
                visit(st.orelse)
            elif isinstance(st, ast.Try):
                visit(st.body)
                for h in st.handlers:
                    visit(h.body)
                visit(st.orelse)
                visit(st.finalbody)
    visit(tree.body)
    return out


def _v_methods(cnode: ast.ClassDef):
    return [st for st in cnode.body if isinstance(st, (ast.FunctionDef, ast.AsyncFunctionDef))]


def _v_class_member_names(cnode: ast.ClassDef, defined_only: bool = False) -> set[str]:
    out = {st.name for st in cnode.body if isinstance(st, (ast.FunctionDef, ast.AsyncFunctionDef, ast.ClassDef))}
    for n in ast.walk(cnode):
        if isinstance(n, ast.Attribute) and isinstance(n.value, ast.Name) and n.value.id in ("self", "cls") and not (defined_only and isinstance(n.ctx, ast.Load)):
            out.add(n.attr)
        elif isinstance(n, ast.Name) and isinstance(n.ctx, ast.Store):
            out.add(n.id)
    return out


class _View:
    def __init__(self, repo, m, tree: ast.Module, table: dict) -> None:
        self.repo, self.m, self.tree, self.table = repo, m, tree, table
        self.toplevel = _v_toplevel_names(tree)
        self.done: dict = {}
        self.new_defs: list = []        # statements to put in front of the first class / function of the module
        self.n = 0

    def known(self, relpath: str, qualname: str) -> bool:
        return qualname in self.table.get(relpath, {})

    # ---- names of another module, made available here
    def same_binding(self, src_mod, name: str) -> bool:
        a, b = self.repo.resolve_name(src_mod, name), self.repo.resolve_name(self.m, name)
        if a is not None or b is not None:
            if isinstance(a, tuple) and isinstance(b, tuple):
                return len(a) == len(b) and all(x is y for x, y in zip(a, b))
            return a is b
        ia, ib = src_mod.imports.get(name), self.m.imports.get(name)
        return ia is not None and ia == ib

    def ensure(self, src_mod, name: str) -> bool:
        if src_mod is self.m:
            return True
        if (src_mod.relpath, name) in self.done:
            return self.done[(src_mod.relpath, name)] == name
        if name in self.toplevel:
            return self.same_binding(src_mod, name)
        if name in src_mod.functions:
            return self.pull_function(src_mod.functions[name]) == name
        if name in src_mod.constants:
            expr = src_mod.constants[name]
            if any(isinstance(x, ast.Name) and not hasattr(__import__("builtins"), x.id) for x in ast.walk(expr)):
                return False
            self.new_defs.append(ast.Assign(targets=[ast.Name(id=name, ctx=ast.Store())], value=clone(expr)))
            self.toplevel.add(name)
            return True
        if name in src_mod.imports:
            mod, attr = src_mod.imports[name]
            if attr is None:
                if mod != name:
                    self.new_defs.append(ast.Import(names=[ast.alias(name=mod, asname=name)]))
                else:
                    self.new_defs.append(ast.Import(names=[ast.alias(name=mod, asname=None)]))
            else:
                self.new_defs.append(ast.ImportFrom(module=mod, names=[ast.alias(name=attr, asname=name if name != attr else None)], level=0))
            self.toplevel.add(name)
            return True
        return False

    def pull_function(self, t: FuncInfo) -> str | None:
        """the module-level name under which the NEW function t of another module is available in this file (its code copied), or None"""
        key = (t.module.relpath, t.qualname)
        if key in self.done:
            return self.done[key]
        self.done[key] = None
        if t.cls is not None or t.node.decorator_list or "." in t.qualname or self.known(*key) or t.module is self.m:
            return None
        if t.name in self.toplevel and self.repo.resolve_name(self.m, t.name) is not t:
            return None
        self.done[key] = t.name         # recursion: a function that calls itself
        fn = _v_strip_annotations(clone(t.node))
        for name in sorted(_v_free_names(fn)):
            if name != t.name and not self.ensure(t.module, name):
                self.done[key] = None
                return None
        self.new_defs.append(fn)
        self.toplevel.add(t.name)
        _PULLED.add(key)
        self.n += 1
        return t.name

    def foreign_target(self, call: ast.Call) -> FuncInfo | None:
        f = call.func
        r = None
        if isinstance(f, ast.Name):
            r = self.repo.resolve_name(self.m, f.id)
        elif isinstance(f, ast.Attribute) and isinstance(f.value, ast.Name) and f.value.id not in ("self", "cls"):
            b = self.repo.resolve_name(self.m, f.value.id)
            if isinstance(b, tuple) and b[0] == "module" and b[1] is not None:
                r = b[1].functions.get(f.attr)
        return r if isinstance(r, FuncInfo) and r.module is not self.m and r.cls is None else None

    def pull_called_functions(self) -> None:
        for _round in range(3):
            before = self.n
            for c in [n for n in ast.walk(self.tree) if isinstance(n, ast.Call)]:
                t = self.foreign_target(c)
                if t is None:
                    continue
                name = self.pull_function(t)
                if name is not None and not (isinstance(c.func, ast.Name) and c.func.id == name):
                    c.func = ast.Name(id=name, ctx=ast.Load())
            if self.n == before:
                break

    # ---- mixins / base classes
    def pull_base_methods(self) -> None:
        for cnode in [st for st in self.tree.body if isinstance(st, ast.ClassDef)]:
            ci = self.m.classes.get(cnode.name)
            if ci is None:
                continue
            have = _v_class_member_names(cnode, defined_only=True)
            for b in ci.mro()[1:]:
                for meth in _v_methods(b.node):
                    if meth.name in have or self.known(b.module.relpath, f"{b.name}.{meth.name}") or (meth.name.startswith("__") and meth.name.endswith("__")):
                        continue
                    if any(not (isinstance(d, ast.Name) and d.id in _BUILTIN_DECOS) for d in meth.decorator_list):
                        continue
                    if any(isinstance(x, ast.Name) and x.id == "super" for x in ast.walk(meth)):
                        continue
                    if len(b.all_subclasses()) != len({id(s) for s in b.all_subclasses() if ci in s.mro()}):
                        continue        # shared with a class that is not this one (or a subclass of it): not this class's private code
                    fn = _v_strip_annotations(clone(meth))
                    if b.module is not self.m and not all(self.ensure(b.module, nm) for nm in sorted(_v_free_names(fn))):
                        continue
                    cnode.body.append(fn)
                    have.add(meth.name)
                    _PULLED.add((b.module.relpath, f"{b.name}.{meth.name}"))
                    self.n += 1

    # ---- f(self, ..) -> self._f(..)
    def methodize(self) -> None:
        funcs = {st.name: st for st in [*self.tree.body, *self.new_defs] if isinstance(st, (ast.FunctionDef, ast.AsyncFunctionDef))
                 and not self.known(self.m.relpath, st.name) and not st.decorator_list}
        if not funcs:
            return
        owner: dict = {}        # function name -> class node | False
        sites: dict = {}
        static: set = set()     # called other than as f(self, ..): a static method of the class
        callee_ids = set()
        for cnode in [st for st in self.tree.body if isinstance(st, ast.ClassDef)]:
            for meth in _v_methods(cnode):
                a = meth.args.posonlyargs + meth.args.args
                for c in [n for n in ast.walk(meth) if isinstance(n, ast.Call)]:
                    if isinstance(c.func, ast.Name) and c.func.id in funcs:
                        ok = bool(a) and a[0].arg == "self" \
                            and not any(isinstance(d, ast.Name) and d.id in ("staticmethod", "classmethod") for d in meth.decorator_list)
                        nm = c.func.id
                        if not ok or owner.get(nm, cnode) is not cnode:
                            owner[nm] = False
                        else:
                            owner[nm] = cnode
                            sites.setdefault(nm, []).append(c)
                            callee_ids.add(id(c.func))
                            if not (c.args and isinstance(c.args[0], ast.Name) and c.args[0].id == "self"):
                                static.add(nm)
        for n in ast.walk(self.tree):
            if isinstance(n, ast.Name) and n.id in funcs and id(n) not in callee_ids and isinstance(n.ctx, ast.Load):
                owner[n.id] = False         # referenced other than as f(self, ..) inside a method
        for fn in [*funcs.values()]:
            for n in ast.walk(fn):
                if isinstance(n, ast.Name) and n.id in funcs and isinstance(n.ctx, ast.Load):
                    owner[n.id] = False     # called from a module-level function
        for nm, cnode in owner.items():
            fn = funcs[nm]
            a = fn.args.posonlyargs + fn.args.args
            if not cnode:
                continue
            is_static = nm in static or not a or bool(fn.args.defaults and len(fn.args.defaults) == len(a))
            first = a[0].arg if a else ""
            if not is_static and first != "self" and any(isinstance(x, ast.Name) and x.id == "self" or isinstance(x, ast.arg) and x.arg == "self" for x in ast.walk(fn)):
                is_static = True
            members = _v_class_member_names(cnode)
            new = nm if nm.startswith("_") else "_" + nm
            if new in members:
                new += "_impl"
            if new in members:
                continue
            if fn in self.tree.body:
                self.tree.body.remove(fn)
            else:
                self.new_defs.remove(fn)
            for x in ast.walk(fn):
                if is_static:
                    break
                if isinstance(x, ast.Name) and x.id == first:
                    x.id = "self"
                elif isinstance(x, ast.arg) and x.arg == first:
                    x.arg = "self"
            for x in ast.walk(fn):      # a recursive call
                if isinstance(x, ast.Name) and x.id == nm:
                    is_static = None
            if is_static is None:
                continue
            fn.name = new
            if is_static:
                fn.decorator_list = [ast.Name(id="staticmethod", ctx=ast.Load())]
            cnode.body.append(fn)
            for c in sites[nm]:
                c.func = ast.Attribute(value=ast.Name(id="self", ctx=ast.Load()), attr=new, ctx=ast.Load())
                if not is_static:
                    del c.args[0]
            self.n += 1

    # ---- decorators
    def decorator_def(self, d: ast.AST):
        """(decorator function node, its module, {factory parameter: argument}) for `@d` / `@d(args)` naming a repository function"""
        call = d if isinstance(d, ast.Call) else None
        f = d.func if call is not None else d
        r = None
        if isinstance(f, ast.Name):
            r = self.repo.resolve_name(self.m, f.id)
        elif isinstance(f, ast.Attribute) and isinstance(f.value, ast.Name):
            b = self.repo.resolve_name(self.m, f.value.id)
            if isinstance(b, tuple) and b[0] == "module" and b[1] is not None:
                r = b[1].functions.get(f.attr)
        if not isinstance(r, FuncInfo) or r.cls is not None or r.node.decorator_list or isinstance(r.node, ast.AsyncFunctionDef):
            return None
        if self.known(r.module.relpath, r.qualname):
            return None
        return r, call

    @staticmethod
    def _deco_shape(node):
        """a function `def d(func): [doc]; [@wraps(func)] def w(..): ..; return w` -> (func parameter, wrapper def)"""
        a = node.args
        if a.vararg or a.kwarg or a.kwonlyargs or a.defaults or len(a.posonlyargs + a.args) != 1:
            return None
        body = [st for st in node.body if not (isinstance(st, ast.Expr) and isinstance(st.value, ast.Constant))]
        if len(body) != 2 or not isinstance(body[0], (ast.FunctionDef, ast.AsyncFunctionDef)) or not isinstance(body[1], ast.Return) \
                or not (isinstance(body[1].value, ast.Name) and body[1].value.id == body[0].name):
            return None
        w = body[0]
        for dd in w.decorator_list:
            if not (isinstance(dd, ast.Call) and (chain(dd.func) or "").split(".")[-1] == "wraps"):
                return None
        return (a.posonlyargs + a.args)[0].arg, w

    def expand_decorators(self) -> None:
        for cnode in [st for st in self.tree.body if isinstance(st, ast.ClassDef)]:
            for meth in list(_v_methods(cnode)):
                while meth.decorator_list:
                    new = self.expand_one(cnode, meth)
                    if new is None:
                        break
                    meth = new

    def expand_one(self, cnode: ast.ClassDef, meth):
        d = meth.decorator_list[-1]         # the innermost decorator is applied first
        dd = self.decorator_def(d)
        if dd is None:
            return None
        r, call = dd
        node = r.node
        subst: dict = {}
        if call is not None:
            # a decorator factory: def d(a, b): def deco(func): ..; return deco
            a = node.args
            params = [x.arg for x in a.posonlyargs + a.args]
            if a.vararg or a.kwarg or a.kwonlyargs or any(isinstance(x, ast.Starred) for x in call.args) or any(k.arg is None for k in call.keywords):
                return None
            body = [st for st in node.body if not (isinstance(st, ast.Expr) and isinstance(st.value, ast.Constant))]
            if len(body) != 2 or not isinstance(body[0], ast.FunctionDef) or not isinstance(body[1], ast.Return) \
                    or not (isinstance(body[1].value, ast.Name) and body[1].value.id == body[0].name) or body[0].decorator_list:
                return None
            given = dict(zip(params, call.args))
            given.update({k.arg: k.value for k in call.keywords})
            defaults = dict(zip(params[len(params) - len(a.defaults):], a.defaults))
            for p_ in params:
                v = given.get(p_, defaults.get(p_))
                if v is None or not (isinstance(v, ast.Constant) or chain(v) is not None and not isinstance(v, ast.Call)):
                    return None
                subst[p_] = v
            if len(given) > len(params) or set(given) - set(params):
                return None
            node = body[0]
        shape = self._deco_shape(node)
        if shape is None:
            return None
        fparam, w = shape
        if isinstance(w, ast.AsyncFunctionDef) != isinstance(meth, ast.AsyncFunctionDef):
            return None
        if any(isinstance(x, (ast.FunctionDef, ast.AsyncFunctionDef, ast.Lambda, ast.ClassDef, ast.Global, ast.Nonlocal)) for st in w.body for x in ast.walk(st)):
            return None
        ma, wa = meth.args, w.args
        mpos = [x.arg for x in ma.posonlyargs + ma.args]
        wpos = [x.arg for x in wa.posonlyargs + wa.args]
        if not mpos or not wpos or ma.vararg or ma.kwarg or wa.kwonlyargs or wa.defaults:
            return None
        if any(isinstance(dd_, ast.Name) and dd_.id in _BUILTIN_DECOS for dd_ in meth.decorator_list):
            return None
        star = (wa.vararg.arg if wa.vararg else None, wa.kwarg.arg if wa.kwarg else None)
        if star == (None, None):
            if len(wpos) != len(mpos) or ma.kwonlyargs:
                return None
        elif len(wpos) > len(mpos):
            return None
        wbody = [clone(st) for st in w.body]
        rename = {wp: mp for wp, mp in zip(wpos, mpos)}
        locals_w = {x.id for st in wbody for x in ast.walk(st) if isinstance(x, ast.Name) and isinstance(x.ctx, ast.Store)}
        if locals_w & (set(mpos) | {x.arg for x in ma.kwonlyargs}) or set(rename.values()) & (set(wpos) - set(rename)):
            return None
        inner_name = f"_{meth.name.strip('_')}_undecorated"
        members = _v_class_member_names(cnode)
        while inner_name in members:
            inner_name += "_"
        # the call of the undecorated function: func(<wrapper's positional parameters in order>, *args, **kwargs)
        state = {"ok": True, "calls": 0}
        rest_pos = mpos[len(wpos):]
        kwonly = [x.arg for x in ma.kwonlyargs]

        class T(ast.NodeTransformer):
            def visit_Call(self, c):
                if not (isinstance(c.func, ast.Name) and c.func.id == fparam):
                    return self.generic_visit(c)
                plain = [x for x in c.args if not isinstance(x, ast.Starred)]
                starred = [x for x in c.args if isinstance(x, ast.Starred)]
                kws = [k for k in c.keywords if k.arg is not None]
                dstar = [k for k in c.keywords if k.arg is None]
                if [getattr(x, "id", None) for x in plain] != wpos or kws or (starred and c.args[-len(starred):] != starred):
                    state["ok"] = False
                    return c
                if star != (None, None):
                    want_s = [star[0]] if star[0] else []
                    want_d = [star[1]] if star[1] else []
                    if [getattr(x.value, "id", None) for x in starred] != want_s or [getattr(k.value, "id", None) for k in dstar] != want_d:
                        state["ok"] = False
                        return c
                    if (rest_pos and not star[0]) or (kwonly and not star[1]):
                        state["ok"] = False
                        return c
                elif starred or dstar:
                    state["ok"] = False
                    return c
                state["calls"] += 1
                names = mpos[1:len(wpos)] + (rest_pos if star != (None, None) else [])
                return ast.Call(func=ast.Attribute(value=ast.Name(id=mpos[0], ctx=ast.Load()), attr=inner_name, ctx=ast.Load()),
                                args=[ast.Name(id=x, ctx=ast.Load()) for x in names],
                                keywords=[ast.keyword(arg=x, value=ast.Name(id=x, ctx=ast.Load())) for x in (kwonly if star != (None, None) else [])])

            def visit_Name(self, x):
                if x.id == fparam or x.id in star:
                    state["ok"] = False
                elif x.id in rename:
                    return ast.copy_location(ast.Name(id=rename[x.id], ctx=x.ctx), x)
                elif x.id in subst and isinstance(x.ctx, ast.Load):
                    return clone(subst[x.id])
                elif x.id in subst:
                    state["ok"] = False
                return x

        tr = T()
        new_body = [tr.visit(st) for st in wbody]
        if not state["ok"] or state["calls"] == 0:
            return None
        if r.module is not self.m:
            probe = clone(meth)
            probe.body, probe.decorator_list = new_body, []
            probe = _v_strip_annotations(probe)
            if not all(self.ensure(r.module, nm) for nm in sorted(_v_free_names(probe))):
                return None
        inner = clone(meth)
        inner.name, inner.decorator_list = inner_name, []
        outer = clone(meth)
        outer.decorator_list = [clone(x) for x in meth.decorator_list[:-1]]
        outer.body = [*([outer.body[0]] if _v_is_doc(outer.body[0]) else []), *new_body]
        if _v_is_doc(inner.body[0]) and len(inner.body) > 1:
            inner.body = inner.body[1:]
        i = cnode.body.index(meth)
        cnode.body[i:i + 1] = [outer, inner]
        _PULLED.add((r.module.relpath, r.qualname))
        self.n += 1
        return outer


def _v_is_doc(st) -> bool:
    return isinstance(st, ast.Expr) and isinstance(st.value, ast.Constant) and isinstance(st.value.value, str)


# ---- expression / loop rewrites

def _v_may_fail(e: ast.AST) -> bool:
    """e contains a subscript read that is evaluated whenever e is (not behind an `and` / `or` / conditional of e itself): evaluating e
    eagerly can raise where the short-circuit spelling would not have evaluated it"""
    if isinstance(e, ast.Subscript):
        return True
    if isinstance(e, ast.BoolOp):
        return _v_may_fail(e.values[0])
    if isinstance(e, ast.IfExp):
        return _v_may_fail(e.test)
    return any(_v_may_fail(c) for c in ast.iter_child_nodes(e))


def _v_pure_operand(e: ast.AST) -> bool:
    for x in ast.walk(e):
        if isinstance(x, ast.Call):
            if not (isinstance(x.func, ast.Attribute) and x.func.attr in _PURE_METHODS):
                return False
        elif isinstance(x, (ast.NamedExpr, ast.Await, ast.Yield, ast.YieldFrom, ast.Lambda, ast.ListComp, ast.SetComp, ast.DictComp, ast.GeneratorExp)):
            return False
    return True


def _v_pure_path(e: ast.AST) -> bool:
    while isinstance(e, ast.Attribute):
        e = e.value
    return isinstance(e, ast.Name)


def _v_literal(e: ast.AST) -> bool:
    if isinstance(e, ast.Constant):
        return True
    return isinstance(e, ast.Tuple) and all(_v_literal(x) for x in e.elts)


class _VExpr(ast.NodeTransformer):
    """all((a, b)) / any((a, b)) in tests; membership in a small constant collection of literals"""

    def __init__(self, view: "_View") -> None:
        self.view = view
        self.n = 0
        self.locals: list[set] = []

    def _fn(self, n):
        bound = {x.arg for x in ast.walk(n.args) if isinstance(x, ast.arg)} | {x.id for x in ast.walk(n) if isinstance(x, ast.Name) and isinstance(x.ctx, ast.Store)}
        self.locals.append(bound)
        self.generic_visit(n)
        self.locals.pop()
        return n
    visit_FunctionDef = visit_AsyncFunctionDef = visit_Lambda = _fn

    def _test(self, e: ast.AST) -> ast.AST:
        """e in a position where only its truth value matters"""
        if isinstance(e, ast.BoolOp):
            e.values = [self._test(v) for v in e.values]
            return e
        if isinstance(e, ast.UnaryOp) and isinstance(e.op, ast.Not):
            e.operand = self._test(e.operand)
            return e
        if isinstance(e, ast.Call) and isinstance(e.func, ast.Name) and e.func.id in ("all", "any") and len(e.args) == 1 and not e.keywords \
                and isinstance(e.args[0], (ast.Tuple, ast.List)) and len(e.args[0].elts) >= 2 \
                and not any(isinstance(x, ast.Starred) for x in e.args[0].elts) and all(_v_pure_operand(x) for x in e.args[0].elts) \
                and not any(_v_may_fail(x) for x in e.args[0].elts[1:]):
            self.n += 1
            return ast.copy_location(ast.BoolOp(op=ast.And() if e.func.id == "all" else ast.Or(), values=[self._test(x) for x in e.args[0].elts]), e)
        return e

    def visit_If(self, n):
        self.generic_visit(n)
        n.test = self._test(n.test)
        return n
    visit_While = visit_IfExp = visit_Assert = visit_If

    def visit_comprehension(self, n):
        self.generic_visit(n)
        n.ifs = [self._test(x) for x in n.ifs]
        return n

    def _members(self, e: ast.AST):
        if not isinstance(e, ast.Name) or any(e.id in s for s in self.locals):
            return None
        r = self.view.repo.resolve_name(self.view.m, e.id)
        if not (isinstance(r, tuple) and r[0] == "const"):
            return None
        v = r[2]
        if isinstance(v, ast.Call) and isinstance(v.func, ast.Name) and v.func.id in ("frozenset", "set", "tuple") and len(v.args) == 1 and not v.keywords:
            v = v.args[0]
        if isinstance(v, (ast.Set, ast.Tuple, ast.List)) and 1 <= len(v.elts) <= 4 and all(_v_literal(x) for x in v.elts):
            # the name must be bound exactly once at module level (a constant)
            return list(v.elts)
        return None

    def visit_Compare(self, n):
        self.generic_visit(n)
        if len(n.ops) == 1 and isinstance(n.ops[0], (ast.In, ast.NotIn)) and _v_pure_path(n.left):
            elts = self._members(n.comparators[0])
            if elts is not None:
                neg = isinstance(n.ops[0], ast.NotIn)
                parts = [ast.Compare(left=clone(n.left), ops=[ast.NotEq() if neg else ast.Eq()], comparators=[clone(x)]) for x in elts]
                self.n += 1
                return ast.copy_location(parts[0] if len(parts) == 1 else ast.BoolOp(op=ast.And() if neg else ast.Or(), values=parts), n)
        return n


def _v_index_loops(tree: ast.Module) -> int:
    """`i = 0` / `while i < len(xs):` / .. xs[i] .. / `i += 1`  ->  `for x in xs:` when the body neither changes xs nor i otherwise"""
    count = 0
    for owner in list(ast.walk(tree)):
        for field in ("body", "orelse", "finalbody"):
            block = getattr(owner, field, None)
            if not isinstance(block, list):
                continue
            for k in range(1, len(block)):
                init, loop = block[k - 1], block[k]
                if not (isinstance(loop, ast.While) and not loop.orelse and isinstance(init, ast.Assign) and len(init.targets) == 1
                        and isinstance(init.targets[0], ast.Name) and isinstance(init.value, ast.Constant) and init.value.value == 0 and type(init.value.value) is int):
                    continue
                i = init.targets[0].id
                t = loop.test
                if not (isinstance(t, ast.Compare) and len(t.ops) == 1 and isinstance(t.ops[0], ast.Lt) and isinstance(t.left, ast.Name) and t.left.id == i
                        and isinstance(t.comparators[0], ast.Call) and isinstance(t.comparators[0].func, ast.Name) and t.comparators[0].func.id == "len"
                        and len(t.comparators[0].args) == 1 and isinstance(t.comparators[0].args[0], ast.Name)):
                    continue
                xs = t.comparators[0].args[0].id
                last = loop.body[-1]
                if not (isinstance(last, ast.AugAssign) and isinstance(last.op, ast.Add) and isinstance(last.target, ast.Name) and last.target.id == i
                        and isinstance(last.value, ast.Constant) and last.value.value == 1) or len(loop.body) < 2:
                    continue
                body = loop.body[:-1]
                ok = True
                subs = []
                for st in body:
                    for x in ast.walk(st):
                        if isinstance(x, (ast.Continue, ast.FunctionDef, ast.AsyncFunctionDef, ast.Lambda)):
                            ok = False
                        elif isinstance(x, ast.Name) and x.id == i:
                            p_ = getattr(x, "_vp", None)
                            ok = ok and isinstance(x.ctx, ast.Load)
                        elif isinstance(x, ast.Name) and x.id == xs and isinstance(x.ctx, (ast.Store, ast.Del)):
                            ok = False
                        elif isinstance(x, ast.Subscript) and isinstance(x.value, ast.Name) and x.value.id == xs:
                            if isinstance(x.ctx, ast.Load) and isinstance(x.slice, ast.Name) and x.slice.id == i:
                                subs.append(x)
                            else:
                                ok = False
                # every use of i is inside xs[i]; every use of xs is xs[i]
                uses_i = sum(1 for st in body for x in ast.walk(st) if isinstance(x, ast.Name) and x.id == i)
                uses_xs = sum(1 for st in body for x in ast.walk(st) if isinstance(x, ast.Name) and x.id == xs)
                if not ok or not subs or uses_i != len(subs) or uses_xs != len(subs):
                    continue
                # i must be dead after the loop: no later read in the enclosing function before a new binding (conservative: no other mention at all)
                fn = owner
                scope = next((a for a in [owner, *_v_ancestors(tree, owner)] if isinstance(a, (ast.FunctionDef, ast.AsyncFunctionDef))), None)
                if scope is None:
                    continue
                mentions_i = sum(1 for x in ast.walk(scope) if isinstance(x, ast.Name) and x.id == i)
                if mentions_i != 1 + 1 + len(subs) + 1:        # init, test, xs[i].., increment
                    continue
                used = {x.id for x in ast.walk(scope) if isinstance(x, ast.Name)} | {x.arg for x in ast.walk(scope) if isinstance(x, ast.arg)}
                var = f"{xs}_item"
                while var in used:
                    var += "_"

                class R(ast.NodeTransformer):
                    def visit_Subscript(self, x):
                        if x in subs:
                            return ast.copy_location(ast.Name(id=var, ctx=ast.Load()), x)
                        return self.generic_visit(x)
                new_body = [R().visit(st) for st in body]
                block[k] = ast.copy_location(ast.For(target=ast.Name(id=var, ctx=ast.Store()), iter=ast.Name(id=xs, ctx=ast.Load()), body=new_body, orelse=[],
                                                     type_comment=None), loop)
                block[k - 1] = ast.copy_location(ast.Pass(), init)
                count += 1
    return count


def _v_ancestors(tree, node):
    parents = {}
    for p_ in ast.walk(tree):
        for c in ast.iter_child_nodes(p_):
            parents[id(c)] = p_
    out = []
    cur = parents.get(id(node))
    while cur is not None:
        out.append(cur)
        cur = parents.get(id(cur))
    return out


def _view_overrides(repo) -> dict[str, str]:
    """{relpath: rewritten source} for the analysed files in which one of the local-view rewrites applies"""
    from ..localnames import load_table
    table = load_table()
    out = {}
    _PULLED.clear()
    for rel in _VIEW_FILES:
        m = repo.by_relpath.get(rel)
        if m is None:
            continue
        tree = ast.parse(m.src)
        v = _View(repo, m, tree, table)
        v.pull_base_methods()
        v.pull_called_functions()
        v.expand_decorators()
        v.pull_called_functions()       # functions the wrappers call
        v.methodize()
        ex = _VExpr(v)
        ex.visit(tree)
        n = v.n + ex.n + _v_index_loops(tree)
        if not n:
            continue
        if v.new_defs:
            at = next((i for i, st in enumerate(tree.body) if isinstance(st, (ast.FunctionDef, ast.AsyncFunctionDef, ast.ClassDef))), len(tree.body))
            tree.body[at:at] = v.new_defs
        ast.fix_missing_locations(tree)
        out[rel] = ast.unparse(tree) + "\n"
    return out


def run(ctx: Ctx) -> None:
    _RUN_CTX[:] = [ctx]
    original = ctx.repo
    try:
        try:
            view = _view_overrides(original)
        except AnalysisError:
            raise
        except Exception as e:  # noqa: BLE001
            # the view only removes reasons for false alarms: when it cannot cope with a file, the file is analysed as written
            view = {}
            ctx.note(f"local view skipped: {type(e).__name__}: {e}")
        if view:
            from ..model import Repo
            try:
                ctx.repo = Repo(original.root, overrides={**original.overrides, **view})
                ctx.note("local view: " + ", ".join(sorted(view)) + " analysed after decorator expansion / pulling of moved helpers / expression rewrites")
            except AnalysisError:
                ctx.repo = original
                _PULLED.clear()
        _run(ctx)
    finally:
        ctx.repo = original
        _RUN_CTX[:] = []


def _run(ctx: Ctx) -> None:
    rule_walkable_and_peer(ctx)
    rule_matrix(ctx)
    rule_blacklists(ctx)
    rule_by_key(ctx)
    rule_canonical_instances(ctx)
    rule_address_update(ctx)
    rule_removal(ctx)
    rule_snapshot_codec(ctx)
    rule_external_writers(ctx)
    ctx.assume("Peer equality/hash is by public key (ipv8/peer.py); OrderedDict LRU eviction only drops entries (a miss recomputes: checked)")
    ctx.assume("address changes of a live peer (known.addresses.update) only add addresses; stale address->peer entries are cured by the validating reader")


WITNESSES = [
    {"name": "removed peer stays in the lookup caches (defect fixed by 97dc48d)", "file": NW, "rule": "removal",
     "edits": [{"file": NW, "old": """                self._forget_cached_peer(peer)
                list(map""", "new": """                list(map"""},
               {"file": NW, "old": """            self.services_per_peer.pop(peer.public_key.key_to_bin(), None)
            self._forget_cached_peer(peer)
""", "new": """            self.services_per_peer.pop(peer.public_key.key_to_bin(), None)
"""}]},
    {"name": "pre-fix: walkable-address query mutates services", "file": NW, "rule": "coherence",
     "old": "services = set(self.services_per_peer.get(intro_peer, set()))", "new": "services = self.services_per_peer.get(intro_peer, set())"},
    {"name": "pre-fix: remove_by_address leaves by-key index", "file": NW, "rule": "coherence",
     "old": "                self.verified_by_public_key_bin.pop(peer.public_key.key_to_bin(), None)\n                self._forget_cached_peer(peer)",
     "new": "                self._forget_cached_peer(peer)"},
    {"name": "pre-fix: address cache unvalidated (and not purged on removal)", "file": NW, "rule": "coherence",
     "edits": [{"file": NW, "old": "            if peer is not None and (peer not in self.verified_peers or address not in peer.addresses.values()):\n                # The cached peer was removed or no longer uses this address.\n                peer = None\n",
                "new": ""}, {"file": NW, "old": """                self._forget_cached_peer(peer)
                list(map""", "new": """                list(map"""},
               {"file": NW, "old": """            self.services_per_peer.pop(peer.public_key.key_to_bin(), None)
            self._forget_cached_peer(peer)
""", "new": """            self.services_per_peer.pop(peer.public_key.key_to_bin(), None)
"""}]},
    {"name": "address cache validation checks membership only... of wrong set (and not purged on removal)", "file": NW, "rule": "coherence",
     "edits": [{"file": NW, "old": "            if peer is not None and (peer not in self.verified_peers or address not in peer.addresses.values()):",
                "new": "            if peer is not None and (peer.public_key.key_to_bin() not in self.services_per_peer or address not in peer.addresses.values()):"}, {"file": NW, "old": """                self._forget_cached_peer(peer)
                list(map""", "new": """                list(map"""},
               {"file": NW, "old": """            self.services_per_peer.pop(peer.public_key.key_to_bin(), None)
            self._forget_cached_peer(peer)
""", "new": """            self.services_per_peer.pop(peer.public_key.key_to_bin(), None)
"""}]},
    {"name": "pre-fix: introduction cache unvalidated", "file": NW, "rule": "coherence",
     "old": """                introductions = [address for address in introductions if address in self._all_addresses
                                 and self._all_addresses[address].introduced_by == key_material]""",
     "new": "                pass"},
    {"name": "pre-fix: new verified peer missing from service cache", "file": NW, "rule": "coherence",
     "old": """                if peer in service_cache:
                    # An instance of this identity that was cached before it was verified: the verified one replaces it.
                    service_cache.remove(peer)
                service_cache.append(peer)
""",
     "new": "                pass\n"},
    {"name": "per-service walkable addresses subtract the addresses of ALL verified peers (seeded C12-m17)", "file": NW, "rule": "coherence",
     "old": "            known = self.get_peers_for_service(service_id) if service_id else self.verified_peers",
     "new": "            known = self.verified_peers"},
    {"name": "pre-fix fb481e6: a newly verified peer is not cached when an EQUAL (early, unverified) instance is in the per-service list", "file": NW, "rule": "coherence",
     "old": """            if service_cache is not None and not any(cached is peer for cached in service_cache):
                if peer in service_cache:
                    # An instance of this identity that was cached before it was verified: the verified one replaces it.
                    service_cache.remove(peer)
                service_cache.append(peer)""",
     "new": """            if service_cache is not None and peer not in service_cache:
                service_cache.append(peer)"""},
    {"name": "pre-fix: partial intro cache entry", "file": NW, "rule": "coherence",
     "old": "                if intro_cache is not None and address not in intro_cache:\n                    # Only extend a complete cached list: a missing entry is rebuilt from scratch when it is queried.\n                    intro_cache.append(address)\n",
     "new": "                if intro_cache:\n                    intro_cache.append(address)\n                else:\n                    self.reverse_intro_lookup[peer] = [address]\n"},
    {"name": "service cache reader stops filtering", "file": NW, "rule": "coherence",
     "old": """            out = [peer for peer in service_cache if
                   peer in self.verified_peers
                   and service_id in self.services_per_peer.get(peer.public_key.key_to_bin(), [])]""",
     "new": "            out = list(service_cache)"},
    {"name": "remove_peer forgets by-key pop", "file": NW, "rule": "by-key-index",
     "old": "            self.verified_by_public_key_bin.pop(peer.public_key.key_to_bin(), None)\n            self.services_per_peer.pop",
     "new": "            self.services_per_peer.pop"},
    {"name": "remove_by_address trusts _all_addresses to know the verified peers' addresses", "file": NW, "rule": "removal",
     "old": "            self._all_addresses.pop(address, None)\n            # Note that the services_per_peer will never be 0",
     "new": "            if address not in self._all_addresses:\n                return\n            self._all_addresses.pop(address, None)\n            # Note that the services_per_peer will never be 0"},
    {"name": "remove_peer keeps peers without services", "file": NW, "rule": "removal",
     "old": "            if peer in self.verified_peers:\n                self.verified_peers.remove(peer)",
     "new": "            if peer in self.verified_peers and peer.public_key.key_to_bin() in self.services_per_peer:\n                self.verified_peers.remove(peer)"},
    {"name": "query mutates membership", "file": NW, "rule": "coherence",
     "old": "        with self.graph_lock:\n            return self.services_per_peer.get(peer.public_key.key_to_bin(), set())",
     "new": "        with self.graph_lock:\n            return self.services_per_peer.setdefault(peer.public_key.key_to_bin(), set())"},
    {"name": "mid blacklist bypass on update path", "file": NW, "rule": "blacklists",
     "old": "        if peer.mid in self.blacklist_mids:\n            return\n        with self.graph_lock:\n            # This may just be an address update",
     "new": "        with self.graph_lock:\n            # This may just be an address update"},
    {"name": "discover_address stores blacklisted address", "file": NW, "rule": "blacklists",
     "old": "        if address in self.blacklist:\n            self.add_verified_peer(peer)\n            return\n", "new": "        if address in self.blacklist:\n            self.add_verified_peer(peer)\n"},
    {"name": "snapshot format mismatch", "file": NW, "rule": "snapshot-codec",
     "old": "out += default_serializer.pack(\"address\", peer.address)", "new": "out += default_serializer.pack(\"ip_address\", peer.address)"},
    {"name": "snapshot skips LAN peers", "file": NW, "rule": "snapshot-codec",
     "old": "if peer.address and peer.address != (\"0.0.0.0\", 0):", "new": "if peer.address and peer.address != (\"0.0.0.0\", 0) and not peer.address[0].startswith(\"192.168.\"):"},
    {"name": "removed peer forgotten in the address cache only under the passed object's addresses (seeded C12-m8)", "file": NW, "rule": "removal",
     "old": """        for address in [a for a, cached in self.reverse_ip_lookup.items() if cached == peer]:
            self.reverse_ip_lookup.pop(address, None)""",
     "new": """        for address in peer.addresses.values():
            if self.reverse_ip_lookup.get(address) == peer:
                del self.reverse_ip_lookup[address]"""},
    {"name": "address cache hit validated by membership only: a peer that moved to another address is still returned (seeded C12-m10)", "file": NW, "rule": "coherence",
     "old": "            if peer is not None and (peer not in self.verified_peers or address not in peer.addresses.values()):",
     "new": "            if peer is not None and peer not in self.verified_peers:"},
    {"name": "service cache gets the passed-in Peer object instead of the stored instance (seeded C12-m11)", "file": NW, "rule": "coherence",
     "old": "                    service_cache.append(self.verified_by_public_key_bin.get(key_material, peer))",
     "new": "                    service_cache.append(peer)"},
    {"name": "remove_by_address probes peer.addresses under the class of the argument instead of scanning the values (seeded C12-m12)", "file": NW, "rule": "removal",
     "old": "                                  if address not in peer.addresses.values()",
     "new": "                                  if peer.addresses.get(address.__class__) != address"},
    {"name": "verdict object: the refused case is admitted too (decision carried by a value)", "file": NW, "rule": "blacklists",
     "old": """            if any(address in self._all_addresses for address in peer.addresses.values()):
                if peer not in self.verified_peers:
                    # This should always happen, unless someone edits the verified_peers dict directly.
                    # This would be a programmer "error", but we will allow it.
                    self.verified_peers.add(peer)
                    self.verified_by_public_key_bin[peer.public_key.key_to_bin()] = peer
                    self._add_to_service_caches(peer)
                    list(map(methodcaller("on_peer_added", peer), self.peer_observers))
            elif all(address not in self.blacklist for address in peer.addresses.values()):
                for address in peer.addresses.values():
                    if address not in self._all_addresses:
                        self._all_addresses[address] = WalkableAddress(b"", None, False)
                if peer not in self.verified_peers:
""",
     "new": """            if any(address in self._all_addresses for address in peer.addresses.values()):
                plan = ("admit", False)
            elif all(address not in self.blacklist for address in peer.addresses.values()):
                plan = ("admit", True)
            else:
                plan = ("refuse", False)
            if plan[1]:
                for address in peer.addresses.values():
                    if address not in self._all_addresses:
                        self._all_addresses[address] = WalkableAddress(b"", None, False)
            if plan[0] in ("admit", "refuse"):
                if peer not in self.verified_peers:
"""},
    {"name": "a stale address-cache hit is answered with None without rescanning the verified peers (seeded C12-m13)", "file": NW, "rule": "coherence",
     "edits": [{"file": NW, "old": """            if peer is not None and (peer not in self.verified_peers or address not in peer.addresses.values()):
                # The cached peer was removed or no longer uses this address.
                peer = None
            if not peer:
""", "new": """            if peer is None:
"""}, {"file": NW, "old": """                        break
            else:
                # Refresh the peer in the cache""", "new": """                        break
            elif peer not in self.verified_peers or address not in peer.addresses.values():
                peer = None
            else:
                # Refresh the peer in the cache"""}]},
    {"name": "cached per-service list filtered in place while iterating over it: the member after a removed one is skipped (seeded C12-m14)", "file": NW,
     "rule": "coherence",
     "old": """            out = [peer for peer in service_cache if
                   peer in self.verified_peers
                   and service_id in self.services_per_peer.get(peer.public_key.key_to_bin(), [])]""",
     "new": """            for peer in service_cache:
                if (peer not in self.verified_peers
                        or service_id not in self.services_per_peer.get(peer.public_key.key_to_bin(), [])):
                    service_cache.remove(peer)
            out = service_cache"""},
    {"name": "the purge of the service caches stops at the first cached list that held the removed peer", "file": NW, "rule": "removal",
     "old": """            if peer in service_cache:
                service_cache.remove(peer)

    def snapshot""",
     "new": """            if peer in service_cache:
                service_cache.remove(peer)
                break

    def snapshot"""},
    {"name": "address update of a known identity merges only the preferred address of the update (seeded C12-m16)", "file": NW, "rule": "coherence",
     "old": "                known.addresses.update(peer.addresses)", "new": "                known.add_address(peer.address)"},
    {"name": "address update of a known identity copies one interface of the update only", "file": NW, "rule": "coherence",
     "old": "                known.addresses.update(peer.addresses)", "new": "                known.addresses[UDPv4Address] = peer.addresses.get(UDPv4Address)"},
    {"name": "external writer of verified_peers", "file": "ipv8/peerdiscovery/community.py", "rule": "external-writers",
     "old": "        self.network.add_verified_peer(node)\n        self.network.discover_services(node, payload.preference_list)",
     "new": "        self.network.verified_peers.add(node)\n        self.network.discover_services(node, payload.preference_list)"},
]
