"""C11 - An unloaded overlay is silent and holds no resources."""
from __future__ import annotations

import ast

from ..core import Ctx
from ..match import arg, call_name, calls, facts_at, local_defs, resolve, single_def, stores
from ..model import AnalysisError, ClassInfo, FuncInfo, ancestors, chain, const_value, enclosing_stmt, norm, parent, strip_cast, walk_no_nested

LEVEL = "other"
EXPLANATION = (
    "Unload completeness as pairing / ordering rules over every Overlay subclass: each unload override awaits "
    "super().unload() on every normal path; every class that creates a RequestCache awaits its shutdown before that; "
    "every listener registered on behalf of an overlay (also by helper objects it constructs) is removed on a path "
    "reachable from unload; a @task started inside unload whose body releases a resource must be awaited before the "
    "task manager is shut down (otherwise it is cancelled); opened sockets have a close reachable from unload; raw "
    "ensure_future results are registered or awaited; TaskManager gates (no registration after shutdown, no duplicate "
    "live name, replace_task re-registers only in the old task's done-callback, shutdown flag before cancellation); "
    "Overlay.unload removes the listener before shutting tasks down; _deliver_later re-checks registration. "
    "'At whatever moment' (schedules) is not explored beyond these orderings."
)


def overlay_classes(ctx: Ctx) -> list[ClassInfo]:
    ov = ctx.repo.cls("Overlay", "ipv8/overlay.py")
    return [ov, *ov.all_subclasses()]


def _awaited(call: ast.Call) -> bool:
    return isinstance(parent(call), ast.Await)


def rule_super_chain(ctx: Ctx) -> None:
    n = 0
    for c in overlay_classes(ctx):
        fi = c.methods.get("unload")
        if fi is None or c.name == "Overlay":
            continue
        n += 1
        cfg = ctx.cfg(fi)
        sup = [x for x in calls(fi) if isinstance(x.func, ast.Attribute) and x.func.attr == "unload" and isinstance(x.func.value, ast.Call)
               and chain(x.func.value.func) == "super"]
        ok = bool(sup) and all(_awaited(s) for s in sup) and fi.is_async
        sn = [nn for s in sup for nn in cfg.nodes_for(s)]
        ok = ok and cfg.exit not in cfg.reach(cut_nodes=sn, follow_exc=False)
        ctx.check(ok, "super-chain", fi, fi.node, f"{c.name}.unload awaits super().unload() on every normal path",
                  f"{c.name}.unload can finish without (awaiting) super().unload(): listener and tasks of the base classes stay alive")
    ctx.floor("super-chain", n, 5)
    ou = ctx.repo.method("Overlay", "unload", "ipv8/overlay.py")
    cfg = ctx.cfg(ou)
    rl = [x for x in calls(ou, "self.endpoint.remove_listener") if chain(arg(x, 0)) == "self"]
    st = [x for x in calls(ou, "self.shutdown_task_manager")]
    ok = bool(rl) and bool(st) and all(_awaited(s) for s in st)
    if ok:
        rn = [nn for r in rl for nn in cfg.nodes_for(r)]
        ok = all(cfg.must_complete(nn, rn) for s in st for nn in cfg.nodes_for(s)) and cfg.exit not in cfg.reach(cut_nodes=[nn for s in st for nn in cfg.nodes_for(s)], follow_exc=False)
    ctx.check(ok, "super-chain", ou, ou.node, "Overlay.unload: remove_listener(self) then await shutdown_task_manager() on every path",
              "Overlay.unload does not stop listening before (or does not) shut its task manager down")
    cu = ctx.repo.method("Community", "unload", "ipv8/community.py")
    bu = [x for x in calls(cu) if chain(x.func) == "bootstrapper.unload"]
    ok = bool(bu) and any(isinstance(a, ast.While) and chain(a.test) == "self.bootstrappers" for a in ancestors(bu[0]))
    ctx.check(ok, "super-chain", cu, cu.node, "Community.unload unloads every bootstrapper", "bootstrappers are not unloaded")


def rule_request_cache(ctx: Ctx) -> None:
    n = 0
    for c in overlay_classes(ctx):
        creates = [st for fi in c.methods.values() for st, t in stores(fi, "self.request_cache")
                   if isinstance(strip_cast(st.value), ast.Call) and chain(strip_cast(st.value).func) == "RequestCache"]
        if not creates:
            continue
        n += 1
        un = c.lookup("unload")
        owner = un.cls if un is not None else None
        # the unload that runs for this class must shut the cache down before delegating upward
        ok = False
        if un is not None and owner is not None and (owner is c or c.is_subclass_of(owner.name)):
            # walk the MRO from c until a class that shuts down the cache
            for k in c.mro():
                u = k.methods.get("unload")
                if u is None:
                    continue
                cfg = ctx.cfg(u)
                sh = [x for x in calls(u, "self.request_cache.shutdown") if _awaited(x)]
                sup = [x for x in calls(u) if isinstance(x.func, ast.Attribute) and x.func.attr == "unload" and isinstance(x.func.value, ast.Call)]
                if sh:
                    shn = [nn for s in sh for nn in cfg.nodes_for(s)]
                    ok = all(cfg.must_complete(nn, shn) for s in sup for nn in cfg.nodes_for(s)) and \
                        cfg.exit not in cfg.reach(cut_nodes=shn, follow_exc=False)
                    break
                if k.name in ("Community", "Overlay"):
                    break
        ctx.check(ok, "request-cache", c.where + ".unload", creates[0], f"{c.name}: RequestCache created => awaited request_cache.shutdown() before super().unload()",
                  f"{c.name} creates a RequestCache but its unload does not await request_cache.shutdown() before super().unload(): cache timeouts fire after unload")
    ctx.floor("request-cache", n, 4)


def rule_listeners(ctx: Ctx) -> None:
    """Every add_listener / add_prefix_listener(obj, ..) made for an overlay has a remove_listener(obj) reachable from unload."""
    repo = ctx.repo
    n = 0
    ovs = overlay_classes(ctx)
    ov_set = {id(c.node) for c in ovs}
    for fi in repo.all_functions():
        if fi.module.relpath.startswith(("ipv8/REST/", "ipv8/messaging/interfaces/", "ipv8/messaging/anonymization/endpoint.py")):
            continue
        for c in calls(fi):
            if call_name(c) not in ("add_listener", "add_prefix_listener"):
                continue
            if fi.cls is not None and fi.cls.is_subclass_of("Endpoint"):
                continue
            obj = arg(c, 0)
            n += 1
            if chain(obj) != "self" or fi.cls is None:
                ctx.check(False, "listeners", fi, c, "listener object is the registering object itself", "listener registered for a foreign object")
                continue
            owner = fi.cls
            if id(owner.node) in ov_set:
                # overlay registers itself: Overlay.unload removes `self` (checked in super-chain)
                ctx.instance("listeners", fi.where, f"{owner.name} registers itself; removed by Overlay.unload", line=c.lineno)
                continue
            # helper object: find overlays that construct it and check their unload removes it
            users = []
            for oc in ovs:
                for m in oc.methods.values():
                    for k in calls(m):
                        if chain(k.func) == owner.name:
                            st = enclosing_stmt(k)
                            tgt = None
                            for node in ast.walk(st):
                                if isinstance(node, ast.Attribute) and isinstance(node.ctx, ast.Store) and chain(node.value) == "self":
                                    tgt = node.attr
                            users.append((oc, m, tgt))
            ctx.check(bool(users), "listeners", fi, c, f"helper {owner.name} is constructed by an overlay", f"no overlay constructs {owner.name}")
            for oc, m, attr in users:
                un = oc.lookup("unload")
                removed = False
                if un is not None and attr is not None:
                    for k in calls(un):
                        if call_name(k) == "remove_listener":
                            a0 = resolve(un, arg(k, 0))
                            if chain(a0) == f"self.{attr}" or (isinstance(a0, ast.Call) and chain(a0.func) == "getattr" and len(a0.args) >= 2
                                                             and chain(a0.args[0]) == "self" and const_value(a0.args[1]) == attr):
                                removed = True
                        # or a teardown method of the helper that removes itself
                        if chain(k.func) and chain(k.func).startswith(f"self.{attr}."):
                            t = owner.lookup(call_name(k))
                            if t is not None and any(call_name(q) == "remove_listener" and chain(arg(q, 0)) == "self" for q in calls(t)):
                                removed = True
                ctx.check(removed, "listeners", (un or m).where, f"{owner.name} listener of {oc.name}.{attr}",
                          f"{oc.name}: helper listener self.{attr} ({owner.name}) removed in unload",
                          f"{owner.name} registers itself as endpoint listener on behalf of {oc.name} (via self.{attr}) but {oc.name}.unload never removes it: "
                          "datagrams arriving after unload still reach the overlay's handlers")
    ctx.floor("listeners", n, 3)
    # wrapper endpoints: whoever forwards add_listener / add_prefix_listener must forward remove_listener to the same receivers
    ep = repo.cls("Endpoint", "ipv8/messaging/interfaces/endpoint.py")
    for c in ep.all_subclasses():
        adds = [m for m in ("add_listener", "add_prefix_listener") if m in c.methods]
        if not adds:
            continue
        def receivers(meth: str, name: str):
            f = c.methods.get(meth)
            if f is None:
                return None
            out = set()
            for k in calls(f):
                if call_name(k) == name and chain(k.func) != f"self.{name}":
                    out.add(norm(k.func.value))
            return out
        want = set()
        for a in adds:
            want |= receivers(a, a) or set()
        got = receivers("remove_listener", "remove_listener")
        ctx.check(got is not None and want <= got, "listeners", c.where + ".remove_listener", f"{c.name} forwards remove_listener",
                  f"{c.name}: add_listener/add_prefix_listener are forwarded to {sorted(want)} and so is remove_listener",
                  f"{c.name} forwards listener registration to {sorted(want)} but " + ("inherits remove_listener (which only edits its own empty lists)" if got is None else f"forwards removal only to {sorted(got)}") +
                  ": an overlay behind this endpoint stays registered after unload and keeps receiving datagrams")


def _releases_resource(ctx: Ctx, fi: FuncInfo) -> list[str]:
    out = []
    for c in calls(fi):
        ch = chain(c.func) or ""
        if call_name(c) == "pop" and any(t in ch for t in ("self.circuits", "self.relay_from_to", "self.exit_sockets")):
            out.append(ch)
        if call_name(c) in ("close", "shutdown_task_manager") and not ch.startswith("self.logger"):
            out.append(ch)
    return out


def rule_awaited_release(ctx: Ctx) -> None:
    repo = ctx.repo
    n = 0
    for c in overlay_classes(ctx):
        fi = c.methods.get("unload")
        if fi is None:
            continue
        cfg = ctx.cfg(fi)
        for k in calls(fi):
            ch = chain(k.func) or ""
            if not ch.startswith("self.") or ch.count(".") != 1:
                continue
            targets = [t for t in repo.dispatch(c, call_name(k)) if "task" in t.decorator_names()]
            if not targets:
                continue
            rel = sorted({r for t in targets for r in _releases_resource(ctx, t)})
            if not rel:
                continue
            n += 1
            # is the returned future awaited / gathered before super().unload()?
            awaited = _awaited(k)
            if not awaited:
                st = enclosing_stmt(k)
                # collected into a list that is later gathered / awaited
                names = []
                p = parent(k)
                if isinstance(p, ast.Call) and call_name(p) == "append" and isinstance(p.func.value, ast.Name):
                    names.append(p.func.value.id)
                if isinstance(st, ast.Assign) and isinstance(st.targets[0], ast.Name):
                    names.append(st.targets[0].id)
                for a in ancestors(k):
                    if isinstance(a, (ast.ListComp, ast.GeneratorExp)):
                        s2 = enclosing_stmt(a)
                        if isinstance(s2, ast.Assign) and isinstance(s2.targets[0], ast.Name):
                            names.append(s2.targets[0].id)
                        if isinstance(parent(a), ast.Starred) or isinstance(parent(a), ast.Call):
                            g = parent(a) if isinstance(parent(a), ast.Call) else parent(parent(a))
                            if isinstance(g, ast.Call) and call_name(g) in ("gather", "wait") and _awaited(g):
                                awaited = True
                for g in calls(fi):
                    if call_name(g) in ("gather", "wait") and _awaited(g):
                        if any(isinstance(x, ast.Name) and x.id in names for a in g.args for x in ast.walk(a)):
                            awaited = True
            delays = sorted({norm(s.args[0]) for t in targets for s in calls(t, "sleep") if s.args})
            ctx.check(awaited, "awaited-release", fi, k, f"{c.name}.unload awaits `{ch}` (releases {rel})",
                      f"{c.name}.unload starts the @task `{ch}` (which releases {rel}" + (f" after sleeping {delays}" if delays else "") +
                      ") without awaiting it: shutdown_task_manager() cancels it, so the entries and the exit sockets' transports stay open after unload")
    ctx.floor("awaited-release", n, 3)
    # a failing release must not abort the rest of unload (request cache shutdown, listener removal, task shutdown)
    for c in overlay_classes(ctx):
        fi = c.methods.get("unload")
        if fi is None:
            continue
        for g in calls(fi, "gather"):
            if not _awaited(g):
                continue
            rex = arg(g, None, "return_exceptions")
            shielded = (rex is not None and const_value(rex) is True) or any(isinstance(a, ast.Try) for a in ancestors(g)) or \
                any(isinstance(a, ast.With) and any("suppress" in norm(i.context_expr) for i in a.items) for a in ancestors(g))
            ctx.check(shielded, "awaited-release", fi, g, f"{c.name}.unload: awaited gather cannot abort the unload (return_exceptions=True)",
                      f"{c.name}.unload awaits gather(...) without return_exceptions=True: one failing release raises out of unload and the overlay stays loaded")


def rule_sockets(ctx: Ctx) -> None:
    repo = ctx.repo
    # TunnelExitSocket transports: close() reachable from TunnelCommunity.unload via remove_exit_socket
    tc = repo.cls("TunnelCommunity")
    un = tc.methods["unload"]
    res = repo.method("TunnelCommunity", "remove_exit_socket")
    ok = any(chain(k.func) == "self.remove_exit_socket" for k in calls(un)) and \
        any(isinstance(a, ast.For) and norm(a.iter) == "list(self.exit_sockets.keys())" for k in calls(un, "self.remove_exit_socket") for a in ancestors(k))
    ctx.check(ok, "sockets", un, un.node, "TunnelCommunity.unload removes every exit socket", "exit sockets are not torn down on unload")
    for t, rem in (("self.circuits", "remove_circuit"), ("self.relay_from_to", "remove_relay")):
        ok = any(isinstance(a, ast.For) and norm(a.iter) == f"list({t}.keys())" for k in calls(un, f"self.{rem}") for a in ancestors(k))
        ctx.check(ok, "sockets", un, un.node, f"TunnelCommunity.unload removes every entry of {t}", f"{t} is not emptied on unload")
    au = repo.method("AttestationCommunity", "unload")
    cfg = ctx.cfg(au)
    dbc = [k for k in calls(au, "self.database.close")]
    sup = [x for x in calls(au) if isinstance(x.func, ast.Attribute) and x.func.attr == "unload" and isinstance(x.func.value, ast.Call)]
    ok = bool(dbc) and bool(sup) and all(cfg.must_complete(nn, [m for s in sup for m in cfg.nodes_for(s)]) for d in dbc for nn in cfg.nodes_for(d))
    ctx.check(ok, "sockets", au, au.node, "AttestationCommunity closes its database after super().unload()", "attestation database is not closed (or closed while handlers may still run)")
    # every create_datagram_endpoint result is stored and has a close in its owner class
    n = 0
    for m, fi, c in repo.callers_of_name("create_datagram_endpoint"):
        if fi is None:
            continue
        n += 1
        owner = fi.cls
        if owner is None:
            for f2 in m.all_functions:
                pass
        closes = []
        k = owner
        if k is not None:
            closes = [x for mm in k.methods.values() for x in calls(mm) if call_name(x) == "close"]
        ctx.check(bool(closes) or (owner is not None and owner.name == "TunnelProtocol"), "sockets", fi, c,
                  f"{owner.name if owner else '?'} opens a datagram endpoint and has a close()", "an opened datagram endpoint has no close in its owner")
    ctx.floor("sockets", n, 3)


def rule_tracked(ctx: Ctx) -> None:
    repo = ctx.repo
    tm = repo.cls("TaskManager", "ipv8/taskmanager.py")
    n = 0
    for c in tm.all_subclasses():
        for fi in [f for f in repo.all_functions() if f.cls is c]:
            for k in calls(fi, ["ensure_future", "create_task", "asyncio.ensure_future", "asyncio.create_task"]):
                n += 1
                p = parent(k)
                ok = isinstance(p, ast.Call) and call_name(p) in ("register_task", "register_anonymous_task", "replace_task")
                if not ok:
                    st = enclosing_stmt(k)
                    if isinstance(st, ast.Assign) and isinstance(st.targets[0], ast.Name):
                        v = st.targets[0].id
                        top = fi.node
                        for x in ast.walk(top):
                            if isinstance(x, ast.Call) and call_name(x) in ("register_task", "register_anonymous_task") and any(chain(a) == v for a in x.args):
                                ok = True
                            if isinstance(x, ast.Await) and chain(x.value) == v:
                                ok = True
                    if isinstance(p, ast.Await):
                        ok = True
                ctx.check(ok, "tracked-background-work", fi, k, f"{fi.qualname}: ensure_future result is registered with the task manager or awaited",
                          "a background future is neither registered nor awaited: it survives shutdown_task_manager()")
    ctx.floor("tracked-background-work", n, 2)


def rule_taskmanager(ctx: Ctx) -> None:
    repo = ctx.repo
    TM = "ipv8/taskmanager.py"
    rt = repo.method("TaskManager", "register_task", TM)
    cfg = ctx.cfg(rt)
    sts = [s for s, t in stores(rt, "self._pending_tasks[]")]
    starts = calls(rt, "ensure_future")
    ctx.anchor(sts, "_pending_tasks[name] = task")
    for s in [*sts, *starts]:
        fs = facts_at(cfg, s)
        not_shut = any(f.op == "truthy" and not f.pos and chain(f.left) == "self._shutdown" for f in fs)
        not_active = any(f.op == "truthy" and not f.pos and isinstance(f.left, ast.Call) and chain(f.left.func) == "self.is_pending_task_active"
                         and norm(f.left.args[0]) == rt.params()[1] for f in fs)
        locked = any(isinstance(a, ast.With) and any(chain(i.context_expr) == "self._task_lock" for i in a.items) for a in ancestors(s))
        ctx.check(not_shut and not_active and locked, "taskmanager-gates", rt, s, f"`{norm(s)[:50]}` only when not shut down and the name is not active (under the lock)",
                  f"a task can be started/registered after shutdown or under a name that is still active (not_shutdown={not_shut} name_free={not_active} locked={locked})",
                  [str(f) for f in fs])
    # the active-name branch raises
    for n in cfg.nodes:
        if n.kind == "cond" and isinstance(n.ast, ast.Call) and chain(n.ast.func) == "self.is_pending_task_active":
            r = cfg.reach([v for v, lab in n.succ if lab is True], follow_exc=False)
            ctx.check(cfg.exit not in r, "taskmanager-gates", rt, n.ast, "registering an active name raises", "registering under an active name is not refused")
    # the done-callback may only unregister its own future (a newer task may have taken the name)
    dcb = [f for f in rt.module.all_functions if f.qualname == "TaskManager.register_task.done_cb"]
    ctx.anchor(dcb, "done_cb in register_task")
    cfgd = ctx.cfg(dcb[0])
    fut = dcb[0].params()[0]
    for c in calls(dcb[0], "self._pending_tasks.pop"):
        fs = facts_at(cfgd, c)
        ok = any(f.op == "is" and f.pos and ((isinstance(f.left, ast.Call) and chain(f.left.func) in ("self._pending_tasks.get",) and norm(f.right) == fut) or
                                               (isinstance(f.right, ast.Call) and chain(f.right.func) in ("self._pending_tasks.get",) and norm(f.left) == fut) or
                                               ({norm(f.left), norm(f.right)} == {"self._pending_tasks[name]", fut})) for f in fs)
        ctx.check(ok, "taskmanager-gates", dcb[0], c, "a finished task unregisters its name only if the name still maps to itself",
                  "the done-callback pops the task name unconditionally: when a name is cancelled and re-registered before the old task finishes, the old task's "
                  "callback unregisters the NEW task, which then survives shutdown_task_manager() (e.g. a request-cache timeout firing after unload) and can be duplicated",
                  [str(f) for f in fs])
    # after shutdown a passed-in future is cancelled
    cancels = [c for c in calls(rt) if call_name(c) == "cancel"]
    ok = any(any(f.op == "truthy" and f.pos and chain(f.left) == "self._shutdown" for f in facts_at(cfg, c)) for c in cancels)
    ctx.check(ok, "taskmanager-gates", rt, rt.node, "a future handed in after shutdown is cancelled", "futures handed to register_task after shutdown keep running")
    ia = repo.method("TaskManager", "is_pending_task_active", TM)
    rets = [r for r in walk_no_nested(ia.node) if isinstance(r, ast.Return)]
    ok = len(rets) == 1 and norm(rets[0].value) == "not pending_task.done() if pending_task else False"
    ctx.check(ok, "taskmanager-gates", ia, ia.node, "is_pending_task_active = registered and not done", "is_pending_task_active no longer means 'registered and not done'")
    # replace_task
    rp = repo.method("TaskManager", "replace_task", TM)
    direct = [c for c in calls(rp, "self.register_task")]
    nested = [f for f in rp.module.all_functions if f.qualname.startswith("TaskManager.replace_task.")]
    inner = [(f, c) for f in nested for c in calls(f, "self.register_task")]
    cbs = [c for c in calls(rp) if call_name(c) == "add_done_callback"]
    cbname = inner[0][0].name if inner else None
    direct_cb = [c for c in calls(rp) if chain(c.func) == cbname]
    ok = not direct and not direct_cb and len(inner) == 1 and len(cbs) == 1 and chain(arg(cbs[0], 0)) == cbname
    if ok:
        old = resolve(rp, cbs[0].func.value)
        ok = isinstance(old, ast.Call) and chain(old.func) == "self.cancel_pending_task" and norm(arg(old, 0)) == rp.params()[1] \
            and norm(arg(inner[0][1], 0)) == rp.params()[1]
    ctx.check(ok, "taskmanager-gates", rp, rp.node, "replace_task registers the new task only in the done-callback of the cancelled old task",
              "replace_task starts the new task before the old one has finished")
    # shutdown_task_manager
    sh = repo.method("TaskManager", "shutdown_task_manager", TM)
    cfgs = ctx.cfg(sh)
    flag = [s for s, t in stores(sh, "self._shutdown") if const_value(s.value) is True]
    ca = calls(sh, "self.cancel_all_pending_tasks")
    ok = bool(flag) and bool(ca) and all(cfgs.must_complete(nn, [m for f in flag for m in cfgs.nodes_for(f)]) for c in ca for nn in cfgs.nodes_for(c))
    g = [c for c in calls(sh, "gather") if _awaited(c)]
    ctx.check(ok and bool(g), "taskmanager-gates", sh, sh.node, "shutdown: flag set before all tasks are cancelled, cancellation awaited",
              "shutdown cancels tasks before refusing new ones (a cancelled task's callback can register a new task) or does not wait for cancellation")
    cp = repo.method("TaskManager", "cancel_pending_task", TM)
    ok = any(call_name(c) == "cancel" for c in calls(cp)) and any(chain(c.func) == "self._pending_tasks.pop" for c in calls(cp))
    ctx.check(ok, "taskmanager-gates", cp, cp.node, "cancel_pending_task cancels and unregisters the named task", "cancel_pending_task does not cancel")
    call_all = repo.method("TaskManager", "cancel_all_pending_tasks", TM)
    ok = any(isinstance(n, ast.ListComp) and chain(n.elt.func if isinstance(n.elt, ast.Call) else n.elt) == "self.cancel_pending_task"
             and norm(n.generators[0].iter) == "list(self._pending_tasks.keys())" for n in ast.walk(call_all.node))
    ctx.check(ok, "taskmanager-gates", call_all, call_all.node, "cancel_all_pending_tasks cancels every registered name", "not every registered task is cancelled at shutdown")
    # delivery re-check
    dl = repo.method("Endpoint", "_deliver_later", "ipv8/messaging/interfaces/endpoint.py")
    cfgd = ctx.cfg(dl)
    for c in ctx.anchor([c for c in calls(dl) if call_name(c) == "on_packet"], "on_packet in _deliver_later"):
        fs = facts_at(cfgd, c)
        open_ok = any(f.op == "truthy" and f.pos and isinstance(f.left, ast.Call) and chain(f.left.func) == "self.is_open" for f in fs)
        # (prefix in map or listener in _listeners): not a single dominating atom; check no path with both false
        from .c04 import _path_with
        lst = dl.params()[1]
        bad = _path_with(cfgd, c, [(f"packet[1][:self.prefixlen] in self._prefix_map", False), (f"{lst} in self._listeners", False)])
        has = any(n.kind == "cond" and norm(n.ast) == f"{lst} in self._listeners" for n in cfgd.nodes)
        ctx.check(open_ok and has and not bad, "taskmanager-gates", dl, c, "_deliver_later delivers only to a still-registered listener on an open endpoint",
                  "a packet can be delivered to a listener that was removed in the meantime")
    rl = repo.method("Endpoint", "remove_listener", "ipv8/messaging/interfaces/endpoint.py")
    ok = any(isinstance(s, ast.Assign) and chain(s.targets[0]) == "self._listeners" for s in walk_no_nested(rl.node)) and \
        any(isinstance(s, ast.Assign) and chain(s.targets[0]) == "self._prefix_map" for s in walk_no_nested(rl.node))
    ctx.check(ok, "taskmanager-gates", rl, rl.node, "remove_listener drops the listener from the generic list and the prefix map", "remove_listener leaves the listener registered")


def run(ctx: Ctx) -> None:
    rule_super_chain(ctx)
    rule_request_cache(ctx)
    rule_listeners(ctx)
    rule_awaited_release(ctx)
    rule_sockets(ctx)
    from .c09 import rule_transports_stored
    rule_transports_stored(ctx, "sockets")
    from .c10 import rule_shutdown        # "runs no cache timeout after unload" rests on RequestCache.shutdown's ordering
    rule_shutdown(ctx)
    rule_tracked(ctx)
    rule_taskmanager(ctx)
    ctx.assume("asyncio: a cancelled task does not run further; cancelling a task that awaits another future cancels that future")
    ctx.assume("unload 'at whatever moment' is covered only through these orderings, not through schedule exploration")


TC = "ipv8/messaging/anonymization/community.py"
WITNESSES = [
    {"name": "pre-fix: done_cb pops the name unconditionally", "file": "ipv8/taskmanager.py", "rule": "taskmanager-gates",
     "old": "                if self._pending_tasks.get(name, None) is future:\n                    self._pending_tasks.pop(name, None)\n",
     "new": "                self._pending_tasks.pop(name, None)\n"},
    {"name": "pre-fix: TunnelEndpoint inherits remove_listener", "file": "ipv8/messaging/anonymization/endpoint.py", "rule": "listeners",
     "old": "    def remove_listener(self, listener: EndpointListener) -> None:\n        \"\"\"\n        Forward directly to the underlying endpoint.\n        \"\"\"\n        self.endpoint.remove_listener(listener)\n\n",
     "new": ""},
    {"name": "pre-fix: removals not awaited", "file": TC, "rule": "awaited-release",
     "old": "        await gather(*removals, return_exceptions=True)\n", "new": ""},
    {"name": "gather can abort unload", "file": TC, "rule": "awaited-release",
     "old": "        await gather(*removals, return_exceptions=True)\n", "new": "        await gather(*removals)\n"},
    {"name": "exit sockets removal fire-and-forget only", "file": TC, "rule": "awaited-release",
     "old": "            removals.append(self.remove_exit_socket(circuit_id, \"unload\", remove_now=True,\n                                                    destroy=DESTROY_REASON_SHUTDOWN))",
     "new": "            self.remove_exit_socket(circuit_id, \"unload\", remove_now=True, destroy=DESTROY_REASON_SHUTDOWN)"},
    {"name": "pre-fix: crypto endpoint listener stays", "file": TC, "rule": "listeners",
     "old": "        crypto_endpoint = getattr(self, \"crypto_endpoint\", None)\n        if isinstance(crypto_endpoint, PythonCryptoEndpoint):\n            self.endpoint.remove_listener(crypto_endpoint)\n",
     "new": ""},
    {"name": "dht unload skips request cache", "file": "ipv8/dht/community.py", "rule": "request-cache",
     "old": "        await self.request_cache.shutdown()\n        await super().unload()", "new": "        await super().unload()"},
    {"name": "request cache shutdown not awaited", "file": "ipv8/peerdiscovery/community.py", "rule": "request-cache",
     "old": "        await self.request_cache.shutdown()\n        await super().unload()", "new": "        self.request_cache.shutdown()\n        await super().unload()"},
    {"name": "unload returns early without super", "file": "ipv8/attestation/wallet/community.py", "rule": "super-chain",
     "old": "        await self.request_cache.shutdown()\n\n        await super().unload()",
     "new": "        await self.request_cache.shutdown()\n        if not self.database:\n            return\n\n        await super().unload()"},
    {"name": "overlay shuts tasks before removing listener", "file": "ipv8/overlay.py", "rule": "super-chain",
     "old": "        self.endpoint.remove_listener(self)\n        await self.shutdown_task_manager()",
     "new": "        await self.shutdown_task_manager()\n        self.endpoint.remove_listener(self)"},
    {"name": "untracked background future", "file": "ipv8/community.py", "rule": "tracked-background-work",
     "old": "        task = ensure_future(bootstrapper.initialize(self))\n", "new": "        ensure_future(bootstrapper.initialize(self))\n        task = succeed(None)\n"},
    {"name": "register_task after shutdown", "file": "ipv8/taskmanager.py", "rule": "taskmanager-gates",
     "old": "                # We need to return an awaitable in case the caller awaits the output of register_task.\n                return succeed(None)\n",
     "new": "                # We need to return an awaitable in case the caller awaits the output of register_task.\n"},
    {"name": "duplicate active name allowed", "file": "ipv8/taskmanager.py", "rule": "taskmanager-gates",
     "old": "                msg = f\"Task already exists: '{name}'\"\n                raise RuntimeError(msg)",
     "new": "                self._logger.warning(\"Task already exists: '%s'\", name)"},
    {"name": "replace_task registers immediately", "file": "ipv8/taskmanager.py", "rule": "taskmanager-gates",
     "old": "        old_task = self.cancel_pending_task(name)\n        old_task.add_done_callback(cancel_cb)\n        return new_task",
     "new": "        old_task = self.cancel_pending_task(name)\n        cancel_cb(old_task)\n        return new_task"},
    {"name": "shutdown flag after cancellation", "file": "ipv8/taskmanager.py", "rule": "taskmanager-gates",
     "old": "            self._shutdown = True\n            tasks = self.cancel_all_pending_tasks()\n\n        if tasks:",
     "new": "            tasks = self.cancel_all_pending_tasks()\n            self._shutdown = True\n\n        if tasks:"},
    {"name": "deliver_later without re-check", "file": "ipv8/messaging/interfaces/endpoint.py", "rule": "taskmanager-gates",
     "old": "        if self.is_open() and (packet[1][:self.prefixlen] in self._prefix_map or listener in self._listeners):\n            listener.on_packet(packet)",
     "new": "        if self.is_open():\n            listener.on_packet(packet)"},
    {"name": "attestation db closed before super", "file": "ipv8/attestation/wallet/community.py", "rule": "sockets",
     "old": "        await super().unload()\n        # Close the database after we stop accepting requests.\n        self.database.close()",
     "new": "        self.database.close()\n        await super().unload()"},
]
