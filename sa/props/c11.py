"""C11 - An unloaded overlay is silent and holds no resources."""
from __future__ import annotations

import ast

from ..core import Ctx
from ..match import arg, call_name, calls, facts_at, local_defs, resolve, single_def, stores
from ..model import AnalysisError, ClassInfo, FuncInfo, ancestors, chain, const_value, enclosing_stmt, norm, parent, strip_cast, walk_no_nested

LEVEL = "other"
EXPLANATION = (
    "Unload completeness as pairing / ordering rules over every Overlay subclass: each unload override awaits "
    "super().unload() on every normal path; every class that creates a RequestCache awaits its shutdown before that; "
    "every listener registered on behalf of an overlay (also by helper objects it constructs) is removed on a path "
    "reachable from unload; a @task started inside unload whose body releases a resource must be awaited before the "
    "task manager is shut down (otherwise it is cancelled); opened sockets have a close reachable from unload; raw "
    "ensure_future results are registered or awaited; TaskManager gates (no registration after shutdown, no duplicate "
    "live name, replace_task re-registers only in the old task's done-callback, shutdown flag before cancellation); "
    "Overlay.unload removes the listener before shutting tasks down; _deliver_later re-checks registration; an entry a removal takes out of a "
    "table of open resources is closed without suspending in between (unload only sees what is still in the table); the low-level runners await "
    "the scheduled step itself and nothing in task-manager code is shielded from cancellation. "
    "'At whatever moment' (schedules) is not explored beyond these orderings."
)


def overlay_classes(ctx: Ctx) -> list[ClassInfo]:
    ov = ctx.repo.cls("Overlay", "ipv8/overlay.py")
    return [ov, *ov.all_subclasses()]


def _awaited(call: ast.Call) -> bool:
    return isinstance(parent(call), ast.Await)


# ----------------------------------------------------------------------------------- shape-independent helpers
_SNAPSHOT_CTORS = ("list", "tuple", "sorted", "set", "frozenset")
_COMPREHENSIONS = (ast.ListComp, ast.SetComp, ast.GeneratorExp, ast.DictComp)
_LOOP_ESCAPES = (ast.Break, ast.Continue, ast.Return, ast.Raise)


def _enumerated_table(fi: FuncInfo, it: ast.AST) -> tuple[str | None, bool, str]:
    """
    What does iterating over `it` enumerate?  -> (chain of the mapping, is a snapshot, 'keys' | 'items').
    `list(t.keys())`, `list(t)`, `tuple(t)`, `sorted(t)`, `[*t]`, `t.copy()`, `t.keys()`, `t`, `list(t.items())` (also through a local alias).
    """
    it = resolve(fi, it)
    snap = False
    if isinstance(it, ast.Call) and isinstance(it.func, ast.Name) and it.func.id in _SNAPSHOT_CTORS and len(it.args) == 1:
        snap, it = True, resolve(fi, it.args[0])
    elif isinstance(it, (ast.List, ast.Tuple)) and len(it.elts) == 1 and isinstance(it.elts[0], ast.Starred):
        snap, it = True, resolve(fi, it.elts[0].value)
    if isinstance(it, ast.Call) and isinstance(it.func, ast.Attribute) and it.func.attr == "copy" and not it.args:
        snap, it = True, resolve(fi, it.func.value)
    kind = "keys"
    if isinstance(it, ast.Call) and isinstance(it.func, ast.Attribute) and it.func.attr in ("keys", "items") and not it.args:
        kind, it = it.func.attr, it.func.value
    return chain(it), snap, kind


def _loop_var(target: ast.AST, kind: str) -> str | None:
    if kind == "items":
        target = target.elts[0] if isinstance(target, (ast.Tuple, ast.List)) and len(target.elts) == 2 else None
    return target.id if isinstance(target, ast.Name) else None


def _called_for_every_key(fi: FuncInfo, call: ast.Call, key: ast.AST | None, table: str, *, need_snapshot: bool = True) -> bool:
    """
    Is `call` made once for EVERY key of the mapping `table`, with `key` being that key?
    True iff key is the loop variable of an enclosing for-statement or comprehension generator that enumerates (a snapshot of)
    the table, and nothing between that loop and the call can skip an element (no filter, no condition, no break/continue/return).
    for-loop + append, comprehension, tuple/list/sorted snapshots and local aliases of the iterable are all the same to this test.
    """
    key = strip_cast(key) if key is not None else None
    if not isinstance(key, ast.Name):
        return False
    conditional = False
    cur: ast.AST = call
    for a in ancestors(call):
        if isinstance(a, (ast.FunctionDef, ast.AsyncFunctionDef, ast.Lambda)):
            break
        if isinstance(a, ast.For):
            tab, snap, kind = _enumerated_table(fi, a.iter)
            if tab == table and _loop_var(a.target, kind) == key.id:
                in_body = any(cur is s for s in a.body)
                escapes = any(isinstance(x, _LOOP_ESCAPES) for s in a.body for x in walk_no_nested(s))
                return in_body and not conditional and not escapes and (snap or not need_snapshot)
            conditional = conditional or not any(cur is s for s in a.body)
        elif isinstance(a, _COMPREHENSIONS):
            for g in a.generators:
                tab, snap, kind = _enumerated_table(fi, g.iter)
                if tab == table and _loop_var(g.target, kind) == key.id:
                    unfiltered = not any(gg.ifs or gg.is_async for gg in a.generators)
                    consumed = not isinstance(a, ast.GeneratorExp) or isinstance(parent(a), (ast.Call, ast.Starred))   # a lazy generator calls nothing until consumed
                    in_elt = not any(cur is gg.iter for gg in a.generators)
                    return unfiltered and consumed and in_elt and not conditional and (snap or not need_snapshot)
            conditional = conditional or any(gg.ifs for gg in a.generators)
        elif isinstance(a, (ast.If, ast.IfExp, ast.While, ast.Match, ast.AsyncFor, ast.ExceptHandler)):
            conditional = True
        elif isinstance(a, ast.Try) and any(cur is s for s in a.orelse):
            conditional = True
        elif isinstance(a, ast.BoolOp) and a.values[0] is not cur:
            conditional = True
        cur = a
    return False


def _carries(expr: ast.AST | None, names: set[str]) -> bool:
    """Does expr evaluate to a collection that contains all elements of one of the local collections `names`?"""
    if expr is None:
        return False
    expr = strip_cast(expr)
    if isinstance(expr, ast.Name):
        return expr.id in names
    if isinstance(expr, ast.Starred):
        return _carries(expr.value, names)
    if isinstance(expr, ast.BinOp) and isinstance(expr.op, ast.Add):
        return _carries(expr.left, names) or _carries(expr.right, names)
    if isinstance(expr, (ast.List, ast.Tuple, ast.Set)):
        return any(isinstance(e, ast.Starred) and _carries(e.value, names) for e in expr.elts)
    if isinstance(expr, ast.Call) and isinstance(expr.func, ast.Name) and expr.func.id in ("list", "tuple", "set") and len(expr.args) == 1:
        return _carries(expr.args[0], names)
    return False


def _value_flow(fi: FuncInfo, k: ast.Call) -> tuple[bool, set[str], list[ast.AST]]:
    """
    Where does the value of call k go?  -> (directly awaited / element of an awaited gather, local collections that receive it,
    the expressions (k itself, list displays, comprehensions) that hold it).
    Follows: element of a list/tuple/set display or comprehension, `*` unpacking, list()/tuple() copies, `name = ...`,
    `name += ...`, `name.append/extend/add/insert(...)`, and then copies of those collections into other locals.
    """
    names: set[str] = set()
    holders: list[ast.AST] = [k]
    awaited = False
    cur: ast.AST = k
    while True:
        p = parent(cur)
        if isinstance(p, ast.Await):
            awaited = True
            break
        if isinstance(p, (ast.List, ast.Tuple, ast.Set, ast.Starred)):
            cur = p
        elif isinstance(p, (ast.ListComp, ast.SetComp, ast.GeneratorExp)) and p.elt is cur:
            cur = p
        elif isinstance(p, ast.Call) and cur in p.args:
            nm = call_name(p)
            if nm in ("gather", "wait") and _awaited(p):
                awaited = True
                break
            if nm in ("list", "tuple", "set") and isinstance(p.func, ast.Name):
                cur = p
            elif nm in ("append", "extend", "add", "insert") and isinstance(p.func, ast.Attribute) and isinstance(p.func.value, ast.Name):
                names.add(p.func.value.id)
                break
            else:
                break
        elif isinstance(p, (ast.Assign, ast.AnnAssign, ast.AugAssign)) and p.value is cur:
            for t in (p.targets if isinstance(p, ast.Assign) else [p.target]):
                if isinstance(t, ast.Name):
                    names.add(t.id)
            break
        else:
            break
        holders.append(cur)
    # copies of the receiving collections into other local collections
    changed = bool(names)
    while changed:
        changed = False
        for n in walk_no_nested(fi.node):
            tgt = None
            if isinstance(n, (ast.Assign, ast.AnnAssign, ast.AugAssign)) and n.value is not None and _carries(n.value, names):
                ts = n.targets if isinstance(n, ast.Assign) else [n.target]
                tgt = next((t.id for t in ts if isinstance(t, ast.Name)), None)
            elif isinstance(n, ast.Call) and call_name(n) == "extend" and isinstance(n.func, ast.Attribute) and isinstance(n.func.value, ast.Name) \
                    and n.args and _carries(n.args[0], names):
                tgt = n.func.value.id
            if tgt is not None and tgt not in names:
                names.add(tgt)
                changed = True
    return awaited, names, holders


def _awaits_of_collections(fi: FuncInfo, names: set[str]) -> list[ast.AST]:
    """Sites that wait for every element of one of the local collections: awaited gather/wait over it, or `for x in coll: await x`."""
    out: list[ast.AST] = []
    if not names:
        return out
    for g in calls(fi):
        if call_name(g) in ("gather", "wait") and _awaited(g) and any(_carries(a, names) for a in g.args):
            out.append(g)
    for n in walk_no_nested(fi.node):
        if isinstance(n, ast.Await) and isinstance(n.value, ast.Name) and n.value.id in names:
            out.append(n)
        if isinstance(n, ast.For) and isinstance(n.target, ast.Name) and _carries(n.iter, names):
            aw = [x for s in n.body for x in walk_no_nested(s) if isinstance(x, ast.Await) and chain(x.value) == n.target.id]
            if aw and not any(isinstance(x, (ast.Break, ast.Return)) for s in n.body for x in walk_no_nested(s)):
                out.append(n)
    return out


def _nonempty_test(test: ast.AST, coll: str) -> bool:
    """`while coll:` / `while len(coll):` / `while len(coll) > 0:` / `while len(coll) != 0:` / `while coll != []:`"""
    def is_len(e):
        return isinstance(e, ast.Call) and chain(e.func) == "len" and len(e.args) == 1 and chain(e.args[0]) == coll
    if chain(test) == coll or is_len(test):
        return True
    if isinstance(test, ast.Compare) and len(test.ops) == 1:
        l, op, r = test.left, test.ops[0], test.comparators[0]
        if is_len(l) and const_value(r) == 0 and isinstance(op, (ast.Gt, ast.NotEq)):
            return True
        if is_len(l) and const_value(r) == 1 and isinstance(op, ast.GtE):
            return True
        if is_len(r) and const_value(l) == 0 and isinstance(op, (ast.Lt, ast.NotEq)):
            return True
        if chain(l) == coll and isinstance(op, ast.NotEq) and isinstance(r, (ast.List, ast.Tuple)) and not r.elts:
            return True
    return False


def _unloads_every_bootstrapper(fi: FuncInfo, call: ast.Call, coll: str = "self.bootstrappers") -> bool:
    """`call` (= <x>.unload()) is made for every element of coll: drain loop `while coll: coll.pop().unload()` or a loop over coll."""
    recv = call.func.value
    if _called_for_every_key(fi, call, recv, coll, need_snapshot=False):
        return True
    r = resolve(fi, recv)
    if not (isinstance(r, ast.Call) and chain(r.func) in (coll + ".pop", coll + ".popleft")):
        return False
    cur: ast.AST = call
    for a in ancestors(call):
        if isinstance(a, (ast.FunctionDef, ast.AsyncFunctionDef, ast.Lambda)):
            return False
        if isinstance(a, ast.While):
            return _nonempty_test(a.test, coll) and any(cur is s for s in a.body) and \
                not any(isinstance(x, _LOOP_ESCAPES) for s in a.body for x in walk_no_nested(s))
        if isinstance(a, (ast.If, ast.IfExp, ast.For, ast.AsyncFor, ast.Match, ast.ExceptHandler, *_COMPREHENSIONS)):
            return False
        if isinstance(a, ast.BoolOp) and a.values[0] is not cur:
            return False
        cur = a
    return False


def rule_super_chain(ctx: Ctx) -> None:
    n = 0
    for c in overlay_classes(ctx):
        fi = c.methods.get("unload")
        if fi is None or c.name == "Overlay":
            continue
        n += 1
        cfg = ctx.cfg(fi)
        sup = [x for x in calls(fi) if isinstance(x.func, ast.Attribute) and x.func.attr == "unload" and isinstance(x.func.value, ast.Call)
               and chain(x.func.value.func) == "super"]
        ok = bool(sup) and all(_awaited(s) for s in sup) and fi.is_async
        sn = [nn for s in sup for nn in cfg.nodes_for(s)]
        ok = ok and cfg.exit not in cfg.reach(cut_nodes=sn, follow_exc=False)
        ctx.check(ok, "super-chain", fi, fi.node, f"{c.name}.unload awaits super().unload() on every normal path",
                  f"{c.name}.unload can finish without (awaiting) super().unload(): listener and tasks of the base classes stay alive")
    ctx.floor("super-chain", n, 5)
    ou = ctx.repo.method("Overlay", "unload", "ipv8/overlay.py")
    cfg = ctx.cfg(ou)
    rl = [x for x in calls(ou, "self.endpoint.remove_listener") if chain(arg(x, 0)) == "self"]
    st = [x for x in calls(ou, "self.shutdown_task_manager")]
    ok = bool(rl) and bool(st) and all(_awaited(s) for s in st)
    if ok:
        rn = [nn for r in rl for nn in cfg.nodes_for(r)]
        ok = all(cfg.must_complete(nn, rn) for s in st for nn in cfg.nodes_for(s)) and cfg.exit not in cfg.reach(cut_nodes=[nn for s in st for nn in cfg.nodes_for(s)], follow_exc=False)
    ctx.check(ok, "super-chain", ou, ou.node, "Overlay.unload: remove_listener(self) then await shutdown_task_manager() on every path",
              "Overlay.unload does not stop listening before (or does not) shut its task manager down")
    cu = ctx.repo.method("Community", "unload", "ipv8/community.py")
    ok = any(_unloads_every_bootstrapper(cu, x) for x in calls(cu) if isinstance(x.func, ast.Attribute) and x.func.attr == "unload"
             and not (isinstance(x.func.value, ast.Call) and chain(x.func.value.func) == "super"))
    ctx.check(ok, "super-chain", cu, cu.node, "Community.unload unloads every bootstrapper", "bootstrappers are not unloaded")


def rule_request_cache(ctx: Ctx) -> None:
    n = 0
    for c in overlay_classes(ctx):
        creates = [st for fi in c.methods.values() for st, t in stores(fi, "self.request_cache")
                   if isinstance(strip_cast(st.value), ast.Call) and chain(strip_cast(st.value).func) == "RequestCache"]
        if not creates:
            continue
        n += 1
        un = c.lookup("unload")
        owner = un.cls if un is not None else None
        # the unload that runs for this class must shut the cache down before delegating upward
        ok = False
        if un is not None and owner is not None and (owner is c or c.is_subclass_of(owner.name)):
            # walk the MRO from c until a class that shuts down the cache
            for k in c.mro():
                u = k.methods.get("unload")
                if u is None:
                    continue
                cfg = ctx.cfg(u)
                sh = [x for x in calls(u, "self.request_cache.shutdown") if _awaited(x)]
                sup = [x for x in calls(u) if isinstance(x.func, ast.Attribute) and x.func.attr == "unload" and isinstance(x.func.value, ast.Call)]
                if sh:
                    shn = [nn for s in sh for nn in cfg.nodes_for(s)]
                    ok = all(cfg.must_complete(nn, shn) for s in sup for nn in cfg.nodes_for(s)) and \
                        cfg.exit not in cfg.reach(cut_nodes=shn, follow_exc=False)
                    break
                if k.name in ("Community", "Overlay"):
                    break
        ctx.check(ok, "request-cache", c.where + ".unload", creates[0], f"{c.name}: RequestCache created => awaited request_cache.shutdown() before super().unload()",
                  f"{c.name} creates a RequestCache but its unload does not await request_cache.shutdown() before super().unload(): cache timeouts fire after unload")
    ctx.floor("request-cache", n, 4)


def rule_listeners(ctx: Ctx) -> None:
    """Every add_listener / add_prefix_listener(obj, ..) made for an overlay has a remove_listener(obj) reachable from unload."""
    repo = ctx.repo
    n = 0
    ovs = overlay_classes(ctx)
    ov_set = {id(c.node) for c in ovs}
    for fi in repo.all_functions():
        if fi.module.relpath.startswith(("ipv8/REST/", "ipv8/messaging/interfaces/", "ipv8/messaging/anonymization/endpoint.py")):
            continue
        for c in calls(fi):
            if call_name(c) not in ("add_listener", "add_prefix_listener"):
                continue
            if fi.cls is not None and fi.cls.is_subclass_of("Endpoint"):
                continue
            obj = arg(c, 0)
            n += 1
            if chain(obj) != "self" or fi.cls is None:
                ctx.check(False, "listeners", fi, c, "listener object is the registering object itself", "listener registered for a foreign object")
                continue
            owner = fi.cls
            if id(owner.node) in ov_set:
                # overlay registers itself: Overlay.unload removes `self` (checked in super-chain)
                ctx.instance("listeners", fi.where, f"{owner.name} registers itself; removed by Overlay.unload", line=c.lineno)
                continue
            # helper object: find overlays that construct it and check their unload removes it
            users = []
            for oc in ovs:
                for m in oc.methods.values():
                    for k in calls(m):
                        if chain(k.func) == owner.name:
                            st = enclosing_stmt(k)
                            tgt = None
                            for node in ast.walk(st):
                                if isinstance(node, ast.Attribute) and isinstance(node.ctx, ast.Store) and chain(node.value) == "self":
                                    tgt = node.attr
                            users.append((oc, m, tgt))
            ctx.check(bool(users), "listeners", fi, c, f"helper {owner.name} is constructed by an overlay", f"no overlay constructs {owner.name}")
            for oc, m, attr in users:
                un = oc.lookup("unload")
                removed = False
                if un is not None and attr is not None:
                    for k in calls(un):
                        if call_name(k) == "remove_listener":
                            a0 = resolve(un, arg(k, 0))
                            if chain(a0) == f"self.{attr}" or (isinstance(a0, ast.Call) and chain(a0.func) == "getattr" and len(a0.args) >= 2
                                                             and chain(a0.args[0]) == "self" and const_value(a0.args[1]) == attr):
                                removed = True
                        # or a teardown method of the helper that removes itself
                        if chain(k.func) and chain(k.func).startswith(f"self.{attr}."):
                            t = owner.lookup(call_name(k))
                            if t is not None and any(call_name(q) == "remove_listener" and chain(arg(q, 0)) == "self" for q in calls(t)):
                                removed = True
                ctx.check(removed, "listeners", (un or m).where, f"{owner.name} listener of {oc.name}.{attr}",
                          f"{oc.name}: helper listener self.{attr} ({owner.name}) removed in unload",
                          f"{owner.name} registers itself as endpoint listener on behalf of {oc.name} (via self.{attr}) but {oc.name}.unload never removes it: "
                          "datagrams arriving after unload still reach the overlay's handlers")
    ctx.floor("listeners", n, 3)
    # wrapper endpoints: whoever forwards add_listener / add_prefix_listener must forward remove_listener to the same receivers
    ep = repo.cls("Endpoint", "ipv8/messaging/interfaces/endpoint.py")
    for c in ep.all_subclasses():
        adds = [m for m in ("add_listener", "add_prefix_listener") if m in c.methods]
        if not adds:
            continue
        def receivers(meth: str, name: str):
            f = c.methods.get(meth)
            if f is None:
                return None
            out = set()
            for k in calls(f):
                if call_name(k) == name and chain(k.func) != f"self.{name}":
                    out.add(norm(k.func.value))
            return out
        want = set()
        for a in adds:
            want |= receivers(a, a) or set()
        got = receivers("remove_listener", "remove_listener")
        ctx.check(got is not None and want <= got, "listeners", c.where + ".remove_listener", f"{c.name} forwards remove_listener",
                  f"{c.name}: add_listener/add_prefix_listener are forwarded to {sorted(want)} and so is remove_listener",
                  f"{c.name} forwards listener registration to {sorted(want)} but " + ("inherits remove_listener (which only edits its own empty lists)" if got is None else f"forwards removal only to {sorted(got)}") +
                  ": an overlay behind this endpoint stays registered after unload and keeps receiving datagrams")


def _releases_resource(ctx: Ctx, fi: FuncInfo) -> list[str]:
    out = []
    for c in calls(fi):
        ch = chain(c.func) or ""
        if call_name(c) == "pop" and any(t in ch for t in ("self.circuits", "self.relay_from_to", "self.exit_sockets")):
            out.append(ch)
        if call_name(c) in ("close", "shutdown_task_manager") and not ch.startswith("self.logger"):
            out.append(ch)
    return out


def rule_awaited_release(ctx: Ctx) -> None:
    repo = ctx.repo
    n = 0
    for c in overlay_classes(ctx):
        fi = c.methods.get("unload")
        if fi is None:
            continue
        cfg = ctx.cfg(fi)
        for k in calls(fi):
            ch = chain(k.func) or ""
            if not ch.startswith("self.") or ch.count(".") != 1:
                continue
            targets = [t for t in repo.dispatch(c, call_name(k)) if "task" in t.decorator_names()]
            if not targets:
                continue
            rel = sorted({r for t in targets for r in _releases_resource(ctx, t)})
            if not rel:
                continue
            n += 1
            # is the returned future awaited / gathered before super().unload()?
            # the future flows (through list displays / comprehensions / append / += / copies) into something that is awaited afterwards
            awaited, names, _ = _value_flow(fi, k)
            if not awaited:
                after = cfg.reach([v for kn in cfg.nodes_for(k) for v, lab in kn.succ if lab != "exc"])
                awaited = any(gn in after for g in _awaits_of_collections(fi, names) for gn in cfg.nodes_for(g))
            delays = sorted({norm(s.args[0]) for t in targets for s in calls(t, "sleep") if s.args})
            ctx.check(awaited, "awaited-release", fi, k, f"{c.name}.unload awaits `{ch}` (releases {rel})",
                      f"{c.name}.unload starts the @task `{ch}` (which releases {rel}" + (f" after sleeping {delays}" if delays else "") +
                      ") without awaiting it: shutdown_task_manager() cancels it, so the entries and the exit sockets' transports stay open after unload")
    ctx.floor("awaited-release", n, 3)
    # a failing release must not abort the rest of unload (request cache shutdown, listener removal, task shutdown)
    for c in overlay_classes(ctx):
        fi = c.methods.get("unload")
        if fi is None:
            continue
        for g in calls(fi, "gather"):
            if not _awaited(g):
                continue
            rex = arg(g, None, "return_exceptions")
            shielded = (rex is not None and const_value(rex) is True) or any(isinstance(a, ast.Try) for a in ancestors(g)) or \
                any(isinstance(a, ast.With) and any("suppress" in norm(i.context_expr) for i in a.items) for a in ancestors(g))
            ctx.check(shielded, "awaited-release", fi, g, f"{c.name}.unload: awaited gather cannot abort the unload (return_exceptions=True)",
                      f"{c.name}.unload awaits gather(...) without return_exceptions=True: one failing release raises out of unload and the overlay stays loaded")


def rule_sockets(ctx: Ctx) -> None:
    repo = ctx.repo
    # TunnelExitSocket transports: close() reachable from TunnelCommunity.unload via remove_exit_socket
    tc = repo.cls("TunnelCommunity")
    un = tc.methods["unload"]
    res = repo.method("TunnelCommunity", "remove_exit_socket")
    ok = any(_called_for_every_key(un, k, arg(k, 0, "circuit_id"), "self.exit_sockets") for k in calls(un, "self.remove_exit_socket"))
    ctx.check(ok, "sockets", un, un.node, "TunnelCommunity.unload removes every exit socket", "exit sockets are not torn down on unload")
    for t, rem in (("self.circuits", "remove_circuit"), ("self.relay_from_to", "remove_relay")):
        ok = any(_called_for_every_key(un, k, arg(k, 0, "circuit_id"), t) for k in calls(un, f"self.{rem}"))
        ctx.check(ok, "sockets", un, un.node, f"TunnelCommunity.unload removes every entry of {t}", f"{t} is not emptied on unload")
    au = repo.method("AttestationCommunity", "unload")
    cfg = ctx.cfg(au)
    dbc = [k for k in calls(au, "self.database.close")]
    sup = [x for x in calls(au) if isinstance(x.func, ast.Attribute) and x.func.attr == "unload" and isinstance(x.func.value, ast.Call)]
    ok = bool(dbc) and bool(sup) and all(cfg.must_complete(nn, [m for s in sup for m in cfg.nodes_for(s)]) for d in dbc for nn in cfg.nodes_for(d))
    ctx.check(ok, "sockets", au, au.node, "AttestationCommunity closes its database after super().unload()", "attestation database is not closed (or closed while handlers may still run)")
    # every create_datagram_endpoint result is stored and has a close in its owner class
    n = 0
    for m, fi, c in repo.callers_of_name("create_datagram_endpoint"):
        if fi is None:
            continue
        n += 1
        owner = fi.cls
        if owner is None:
            for f2 in m.all_functions:
                pass
        closes = []
        k = owner
        if k is not None:
            closes = [x for mm in k.methods.values() for x in calls(mm) if call_name(x) == "close"]
        ctx.check(bool(closes) or (owner is not None and owner.name == "TunnelProtocol"), "sockets", fi, c,
                  f"{owner.name if owner else '?'} opens a datagram endpoint and has a close()", "an opened datagram endpoint has no close in its owner")
    ctx.floor("sockets", n, 3)


def _table_read(fi: FuncInfo, e: ast.AST, _depth: int = 0) -> str | None:
    """`self.T` when e evaluates to an entry read out of the mapping self.T (`self.T.pop(k..)`, `self.T.get(k..)`, `self.T[k]`, or a local holding only such)."""
    e = strip_cast(e)
    if isinstance(e, ast.Call) and isinstance(e.func, ast.Attribute) and e.func.attr in ("pop", "get") and e.args:
        t = chain(e.func.value)
        return t if t and t.startswith("self.") and t.count(".") == 1 else None
    if isinstance(e, ast.Subscript):
        t = chain(e.value)
        return t if t and t.startswith("self.") and t.count(".") == 1 else None
    if isinstance(e, ast.Name) and _depth < 3 and e.id not in fi.params():
        ts = {_table_read(fi, v, _depth + 1) if v is not None and i is None else None for _, v, i in local_defs(fi, e.id)}
        return next(iter(ts)) if len(ts) == 1 else None
    return None


def _element_classes(ctx: Ctx, c: ClassInfo, table: str) -> list[ClassInfo]:
    """Classes of the objects stored into the mapping `self.T` (from `self.T[k] = Ctor(...)`, also `self.T[k] = x = Ctor(...)`) anywhere in c's MRO."""
    out: list[ClassInfo] = []
    for k in c.mro():
        for m in k.methods.values():
            for st, _ in stores(m, table + "[]"):
                v = strip_cast(getattr(st, "value", None)) if getattr(st, "value", None) is not None else None
                v = resolve(m, v) if v is not None else None
                if isinstance(v, ast.Call):
                    e = ctx.repo.resolve_class_expr(k.module, v.func)
                    if e is not None and e not in out:
                        out.append(e)
    return out


def rule_release_window(ctx: Ctx) -> None:
    """
    An entry that a removal takes out of a table of open resources is closed without suspending in between.
    unload finds what it has to close by enumerating these tables (checked in `sockets`) and waits only for the removals it started itself; every
    other task is cancelled by shutdown_task_manager().  A removal that has already popped the entry and then suspends (e.g. sleeps
    remove_tunnel_delay) holds the only reference to a still-open socket: unload cannot see it, cancels the suspended removal, and the
    socket stays open - and keeps receiving - after unload.
    """
    n = 0
    for c in overlay_classes(ctx):
        for fi in c.methods.values():
            rel = [(k, _table_read(fi, k.func.value)) for k in calls(fi) if isinstance(k.func, ast.Attribute) and k.func.attr in ("close", "shutdown_task_manager")]
            tables = sorted({t for _, t in rel if t})
            if not tables:
                continue
            cfg = ctx.cfg(fi)
            for t in tables:
                # only tables whose entries own tasks / sockets (TaskManager objects such as TunnelExitSocket); a Circuit.close() is bookkeeping
                elem = _element_classes(ctx, c, t)
                if elem and not any(e.is_subclass_of("TaskManager") for e in elem):
                    continue
                releases = [k for k, tt in rel if tt == t]
                rel_nodes = {nn for k in releases for nn in cfg.nodes_for(k)}
                removals: list[ast.AST] = [k for k in calls(fi) if chain(k.func) in (f"{t}.pop", f"{t}.popitem", f"{t}.clear")]
                removals += [st for st, _ in stores(fi, f"{t}[]") if isinstance(st, ast.Delete)]
                if not removals:
                    continue
                suspensions = [a for a in walk_no_nested(fi.node) if isinstance(a, (ast.Await, ast.AsyncWith, ast.AsyncFor))
                               and not (isinstance(a, ast.Await) and any(a.value is k for k in releases))]
                n += 1
                bad = None
                for r in removals:
                    after = cfg.reach([v for rn in cfg.nodes_for(r) for v, lab in rn.succ])
                    for a in suspensions:
                        an = [x for x in cfg.nodes_for(a) if x in after and x not in rel_nodes]
                        if an and rel_nodes & cfg.reach([v for x in an for v, lab in x.succ]):
                            bad = (r, a)
                            break
                    if bad:
                        break
                ctx.check(bad is None, "release-window", fi, (bad[0] if bad else removals[0]),
                          f"{fi.qualname}: an entry taken out of {t} is closed without suspending in between",
                          f"{fi.qualname} takes the entry out of {t} (`{norm(bad[0])[:50]}`) and then suspends in `{norm(bad[1])[:60]}` before closing it: while the removal "
                          f"sleeps the open socket is in no table, so {c.name}.unload (which enumerates {t}) neither closes it nor waits for this removal; "
                          "shutdown_task_manager() cancels the sleeping removal and the socket stays open after unload" if bad else "")
    ctx.floor("release-window", n, 1)


def rule_tracked(ctx: Ctx) -> None:
    repo = ctx.repo
    tm = repo.cls("TaskManager", "ipv8/taskmanager.py")
    n = 0
    for c in tm.all_subclasses():
        for fi in [f for f in repo.all_functions() if f.cls is c]:
            for k in calls(fi, ["ensure_future", "create_task", "asyncio.ensure_future", "asyncio.create_task"]):
                n += 1
                p = parent(k)
                ok = isinstance(p, ast.Call) and call_name(p) in ("register_task", "register_anonymous_task", "replace_task")
                if not ok:
                    st = enclosing_stmt(k)
                    if isinstance(st, ast.Assign) and isinstance(st.targets[0], ast.Name):
                        v = st.targets[0].id
                        top = fi.node
                        for x in ast.walk(top):
                            if isinstance(x, ast.Call) and call_name(x) in ("register_task", "register_anonymous_task") and any(chain(a) == v for a in x.args):
                                ok = True
                            if isinstance(x, ast.Await) and chain(x.value) == v:
                                ok = True
                    if isinstance(p, ast.Await):
                        ok = True
                ctx.check(ok, "tracked-background-work", fi, k, f"{fi.qualname}: ensure_future result is registered with the task manager or awaited",
                          "a background future is neither registered nor awaited: it survives shutdown_task_manager()")
    ctx.floor("tracked-background-work", n, 2)
    # the low-level runners await the scheduled step ITSELF: cancelling the registered runner task (cancel_pending_task, shutdown, unload)
    # is the only way a periodic / delayed step is stopped, and cancellation only travels through a direct await.  shield(), ensure_future(),
    # create_task() or gather() around the step hand it to a separate, unregistered future that keeps running (and sending) after unload.
    TM = "ipv8/taskmanager.py"
    for rn in ("interval_runner", "delay_runner"):
        fi = repo.func(TM, rn)
        steps = [k for k in calls(fi) if isinstance(k.func, ast.Name) and k.func.id in fi.params()]
        ctx.anchor(steps, f"call of the scheduled callable in {rn}")
        for k in steps:
            awaited, names, holders = _value_flow(fi, k)
            ok = (awaited and len(holders) == 1) or any(isinstance(a, ast.Await) for a in _awaits_of_collections(fi, names) if len(holders) == 1)
            ctx.check(ok, "tracked-background-work", fi, k, f"{rn} awaits the scheduled step directly (cancelling the runner cancels the step)",
                      f"{rn} does not await `{norm(k)}` directly (it is wrapped in `{norm(parent(k))[:60]}`): cancelling the registered runner task no longer "
                      "cancels a step that is in flight, so the step finishes - and sends packets - after unload has completed")
    # ... and nowhere in task-manager code is work shielded from cancellation
    scanned = 0
    for fi in repo.all_functions():
        if not (fi.module.relpath == TM or (fi.cls is not None and (fi.cls is tm or fi.cls.is_subclass_of("TaskManager")))):
            continue
        scanned += 1
        for k in calls(fi, ["shield", "asyncio.shield"], nested=False):
            ctx.check(False, "tracked-background-work", fi, k, "no asyncio.shield in task-manager code",
                      f"{fi.qualname} shields `{norm(k)[:60]}` from cancellation: shield() runs its argument as a separate future that survives the cancellation "
                      "of the registered task, i.e. it keeps running after shutdown_task_manager() / unload")
    ctx.instance("tracked-background-work", TM, f"no asyncio.shield() in {scanned} functions of TaskManager and its subclasses")


def _active_means_registered_and_running(ia: FuncInfo) -> bool:
    """
    Decision table of is_pending_task_active over the two facts it may depend on: the name maps to a task (`_pending_tasks.get(name)` is
    truthy / is not None) and that task is done().  The result must be true exactly for (registered, not done), whatever mix of conditional
    expression, if/return, and/or and early return computes it.
    """
    from ..boolfn import TableEvaluator
    name = ia.params()[1]

    def is_lookup(e: ast.AST) -> bool:
        e = strip_cast(e)
        return isinstance(e, ast.Call) and chain(e.func) == "self._pending_tasks.get" and not e.keywords and 1 <= len(e.args) <= 2 \
            and chain(e.args[0]) == name and (len(e.args) == 1 or const_value(e.args[1]) is None)

    def holds_lookup(e: ast.AST) -> bool:
        if is_lookup(e):
            return True
        if isinstance(e, ast.Name) and e.id != name:
            ds = local_defs(ia, e.id)
            return bool(ds) and all(v is not None and i is None and is_lookup(v) for _, v, i in ds)
        return False

    def atom_of(e: ast.AST) -> str | None:
        if is_lookup(e):
            return "registered"
        if isinstance(e, ast.Call) and isinstance(e.func, ast.Attribute) and e.func.attr == "done" and not e.args and holds_lookup(e.func.value):
            return "done"
        if isinstance(e, ast.Compare) and len(e.ops) == 1 and const_value(e.comparators[0]) is None and holds_lookup(e.left):
            if isinstance(e.ops[0], ast.IsNot):
                return "registered"
            if isinstance(e.ops[0], ast.Is):
                return "unregistered"
        return None

    def on_effect(s: ast.stmt, env: dict, ev: TableEvaluator) -> None:
        if isinstance(s, ast.With):
            ev._block(s.body, env)      # noqa: SLF001  the lock does not change the result
        elif not isinstance(s, ast.Assert):
            raise AnalysisError(f"undecided: is_pending_task_active contains `{norm(s)[:60]}`; cannot tabulate its result")

    ev = TableEvaluator(ia, atom_of, on_effect=on_effect)
    for registered in (False, True):
        for done in (False, True):
            try:
                res = ev.run({"registered": registered, "unregistered": not registered, "done": done})
                got = ev.truth(res)
            except AnalysisError as e:
                raise AnalysisError(f"undecided: result of is_pending_task_active for registered={registered} done={done}: {e}") from e
            if got != (registered and not done):
                return False
    return True


def rule_taskmanager(ctx: Ctx) -> None:
    repo = ctx.repo
    TM = "ipv8/taskmanager.py"
    rt = repo.method("TaskManager", "register_task", TM)
    cfg = ctx.cfg(rt)
    sts = [s for s, t in stores(rt, "self._pending_tasks[]")]
    starts = calls(rt, "ensure_future")
    ctx.anchor(sts, "_pending_tasks[name] = task")
    for s in [*sts, *starts]:
        fs = facts_at(cfg, s)
        not_shut = any(f.op == "truthy" and not f.pos and chain(f.left) == "self._shutdown" for f in fs)
        not_active = any(f.op == "truthy" and not f.pos and isinstance(f.left, ast.Call) and chain(f.left.func) == "self.is_pending_task_active"
                         and norm(f.left.args[0]) == rt.params()[1] for f in fs)
        locked = any(isinstance(a, ast.With) and any(chain(i.context_expr) == "self._task_lock" for i in a.items) for a in ancestors(s))
        ctx.check(not_shut and not_active and locked, "taskmanager-gates", rt, s, f"`{norm(s)[:50]}` only when not shut down and the name is not active (under the lock)",
                  f"a task can be started/registered after shutdown or under a name that is still active (not_shutdown={not_shut} name_free={not_active} locked={locked})",
                  [str(f) for f in fs])
    # the active-name branch raises
    for n in cfg.nodes:
        if n.kind == "cond" and isinstance(n.ast, ast.Call) and chain(n.ast.func) == "self.is_pending_task_active":
            r = cfg.reach([v for v, lab in n.succ if lab is True], follow_exc=False)
            ctx.check(cfg.exit not in r, "taskmanager-gates", rt, n.ast, "registering an active name raises", "registering under an active name is not refused")
    # the done-callback may only unregister its own future (a newer task may have taken the name)
    dcb = [f for f in rt.module.all_functions if f.qualname == "TaskManager.register_task.done_cb"]
    ctx.anchor(dcb, "done_cb in register_task")
    cfgd = ctx.cfg(dcb[0])
    fut = dcb[0].params()[0]
    for c in calls(dcb[0], "self._pending_tasks.pop"):
        fs = facts_at(cfgd, c)
        ok = any(f.op == "is" and f.pos and ((isinstance(f.left, ast.Call) and chain(f.left.func) in ("self._pending_tasks.get",) and norm(f.right) == fut) or
                                               (isinstance(f.right, ast.Call) and chain(f.right.func) in ("self._pending_tasks.get",) and norm(f.left) == fut) or
                                               ({norm(f.left), norm(f.right)} == {"self._pending_tasks[name]", fut})) for f in fs)
        ctx.check(ok, "taskmanager-gates", dcb[0], c, "a finished task unregisters its name only if the name still maps to itself",
                  "the done-callback pops the task name unconditionally: when a name is cancelled and re-registered before the old task finishes, the old task's "
                  "callback unregisters the NEW task, which then survives shutdown_task_manager() (e.g. a request-cache timeout firing after unload) and can be duplicated",
                  [str(f) for f in fs])
    # after shutdown a passed-in future is cancelled
    cancels = [c for c in calls(rt) if call_name(c) == "cancel"]
    ok = any(any(f.op == "truthy" and f.pos and chain(f.left) == "self._shutdown" for f in facts_at(cfg, c)) for c in cancels)
    ctx.check(ok, "taskmanager-gates", rt, rt.node, "a future handed in after shutdown is cancelled", "futures handed to register_task after shutdown keep running")
    ia = repo.method("TaskManager", "is_pending_task_active", TM)
    ok = _active_means_registered_and_running(ia)
    ctx.check(ok, "taskmanager-gates", ia, ia.node, "is_pending_task_active = registered and not done", "is_pending_task_active no longer means 'registered and not done'")
    # replace_task
    rp = repo.method("TaskManager", "replace_task", TM)
    direct = [c for c in calls(rp, "self.register_task")]
    nested = [f for f in rp.module.all_functions if f.qualname.startswith("TaskManager.replace_task.")]
    inner = [(f, c) for f in nested for c in calls(f, "self.register_task")]
    cbs = [c for c in calls(rp) if call_name(c) == "add_done_callback"]
    cbname = inner[0][0].name if inner else None
    direct_cb = [c for c in calls(rp) if chain(c.func) == cbname]
    ok = not direct and not direct_cb and len(inner) == 1 and len(cbs) == 1 and chain(arg(cbs[0], 0)) == cbname
    if ok:
        old = resolve(rp, cbs[0].func.value)
        ok = isinstance(old, ast.Call) and chain(old.func) == "self.cancel_pending_task" and norm(arg(old, 0)) == rp.params()[1] \
            and norm(arg(inner[0][1], 0)) == rp.params()[1]
    ctx.check(ok, "taskmanager-gates", rp, rp.node, "replace_task registers the new task only in the done-callback of the cancelled old task",
              "replace_task starts the new task before the old one has finished")
    # shutdown_task_manager
    sh = repo.method("TaskManager", "shutdown_task_manager", TM)
    cfgs = ctx.cfg(sh)
    flag = [s for s, t in stores(sh, "self._shutdown") if const_value(s.value) is True]
    ca = calls(sh, "self.cancel_all_pending_tasks")
    ok = bool(flag) and bool(ca) and all(cfgs.must_complete(nn, [m for f in flag for m in cfgs.nodes_for(f)]) for c in ca for nn in cfgs.nodes_for(c))
    g = [c for c in calls(sh, "gather") if _awaited(c)]
    ctx.check(ok and bool(g), "taskmanager-gates", sh, sh.node, "shutdown: flag set before all tasks are cancelled, cancellation awaited",
              "shutdown cancels tasks before refusing new ones (a cancelled task's callback can register a new task) or does not wait for cancellation")
    cp = repo.method("TaskManager", "cancel_pending_task", TM)
    ok = any(call_name(c) == "cancel" for c in calls(cp)) and any(chain(c.func) == "self._pending_tasks.pop" for c in calls(cp))
    ctx.check(ok, "taskmanager-gates", cp, cp.node, "cancel_pending_task cancels and unregisters the named task", "cancel_pending_task does not cancel")
    call_all = repo.method("TaskManager", "cancel_all_pending_tasks", TM)
    ok = False
    for k in calls(call_all, "self.cancel_pending_task"):
        if not _called_for_every_key(call_all, k, arg(k, 0, "name"), "self._pending_tasks"):
            continue
        # ... and the cancelled futures are what the caller (shutdown_task_manager) gets back to wait for
        _, names, holders = _value_flow(call_all, k)
        rets = [r for r in walk_no_nested(call_all.node) if isinstance(r, ast.Return)]
        ok = bool(rets) and all(r.value is not None and (any(strip_cast(r.value) is h for h in holders[1:]) or _carries(r.value, names)) for r in rets)
    ctx.check(ok, "taskmanager-gates", call_all, call_all.node, "cancel_all_pending_tasks cancels every registered name", "not every registered task is cancelled at shutdown")
    # delivery re-check
    dl = repo.method("Endpoint", "_deliver_later", "ipv8/messaging/interfaces/endpoint.py")
    cfgd = ctx.cfg(dl)
    for c in ctx.anchor([c for c in calls(dl) if call_name(c) == "on_packet"], "on_packet in _deliver_later"):
        fs = facts_at(cfgd, c)
        open_ok = any(f.op == "truthy" and f.pos and isinstance(f.left, ast.Call) and chain(f.left.func) == "self.is_open" for f in fs)
        # (prefix in map or listener in _listeners): not a single dominating atom; check no path with both false
        from .c04 import _path_with
        lst = dl.params()[1]
        bad = _path_with(cfgd, c, [(f"packet[1][:self.prefixlen] in self._prefix_map", False), (f"{lst} in self._listeners", False)])
        has = any(n.kind == "cond" and norm(n.ast) == f"{lst} in self._listeners" for n in cfgd.nodes)
        ctx.check(open_ok and has and not bad, "taskmanager-gates", dl, c, "_deliver_later delivers only to a still-registered listener on an open endpoint",
                  "a packet can be delivered to a listener that was removed in the meantime")
    rl = repo.method("Endpoint", "remove_listener", "ipv8/messaging/interfaces/endpoint.py")
    ok = any(isinstance(s, ast.Assign) and chain(s.targets[0]) == "self._listeners" for s in walk_no_nested(rl.node)) and \
        any(isinstance(s, ast.Assign) and chain(s.targets[0]) == "self._prefix_map" for s in walk_no_nested(rl.node))
    ctx.check(ok, "taskmanager-gates", rl, rl.node, "remove_listener drops the listener from the generic list and the prefix map", "remove_listener leaves the listener registered")


def run(ctx: Ctx) -> None:
    rule_super_chain(ctx)
    rule_request_cache(ctx)
    rule_listeners(ctx)
    rule_awaited_release(ctx)
    rule_sockets(ctx)
    rule_release_window(ctx)
    from .c09 import rule_transports_stored
    rule_transports_stored(ctx, "sockets")
    from .c10 import rule_shutdown        # "runs no cache timeout after unload" rests on RequestCache.shutdown's ordering
    rule_shutdown(ctx)
    rule_tracked(ctx)
    rule_taskmanager(ctx)
    ctx.assume("asyncio: a cancelled task does not run further; cancelling a task that awaits another future cancels that future")
    ctx.assume("unload 'at whatever moment' is covered only through these orderings, not through schedule exploration")


TC = "ipv8/messaging/anonymization/community.py"
WITNESSES = [
    {"name": "pre-fix: done_cb pops the name unconditionally", "file": "ipv8/taskmanager.py", "rule": "taskmanager-gates",
     "old": "                if self._pending_tasks.get(name, None) is future:\n                    self._pending_tasks.pop(name, None)\n",
     "new": "                self._pending_tasks.pop(name, None)\n"},
    {"name": "pre-fix: TunnelEndpoint inherits remove_listener", "file": "ipv8/messaging/anonymization/endpoint.py", "rule": "listeners",
     "old": "    def remove_listener(self, listener: EndpointListener) -> None:\n        \"\"\"\n        Forward directly to the underlying endpoint.\n        \"\"\"\n        self.endpoint.remove_listener(listener)\n\n",
     "new": ""},
    {"name": "pre-fix: removals not awaited", "file": TC, "rule": "awaited-release",
     "old": "        await gather(*removals, return_exceptions=True)\n", "new": ""},
    {"name": "gather can abort unload", "file": TC, "rule": "awaited-release",
     "old": "        await gather(*removals, return_exceptions=True)\n", "new": "        await gather(*removals)\n"},
    {"name": "exit sockets removal fire-and-forget only", "file": TC, "rule": "awaited-release",
     "old": "            removals.append(self.remove_exit_socket(circuit_id, \"unload\", remove_now=True,\n                                                    destroy=DESTROY_REASON_SHUTDOWN))",
     "new": "            self.remove_exit_socket(circuit_id, \"unload\", remove_now=True, destroy=DESTROY_REASON_SHUTDOWN)"},
    {"name": "pre-fix: crypto endpoint listener stays", "file": TC, "rule": "listeners",
     "old": "        crypto_endpoint = getattr(self, \"crypto_endpoint\", None)\n        if isinstance(crypto_endpoint, PythonCryptoEndpoint):\n            self.endpoint.remove_listener(crypto_endpoint)\n",
     "new": ""},
    {"name": "dht unload skips request cache", "file": "ipv8/dht/community.py", "rule": "request-cache",
     "old": "        await self.request_cache.shutdown()\n        await super().unload()", "new": "        await super().unload()"},
    {"name": "request cache shutdown not awaited", "file": "ipv8/peerdiscovery/community.py", "rule": "request-cache",
     "old": "        await self.request_cache.shutdown()\n        await super().unload()", "new": "        self.request_cache.shutdown()\n        await super().unload()"},
    {"name": "unload returns early without super", "file": "ipv8/attestation/wallet/community.py", "rule": "super-chain",
     "old": "        await self.request_cache.shutdown()\n\n        await super().unload()",
     "new": "        await self.request_cache.shutdown()\n        if not self.database:\n            return\n\n        await super().unload()"},
    {"name": "overlay shuts tasks before removing listener", "file": "ipv8/overlay.py", "rule": "super-chain",
     "old": "        self.endpoint.remove_listener(self)\n        await self.shutdown_task_manager()",
     "new": "        await self.shutdown_task_manager()\n        self.endpoint.remove_listener(self)"},
    {"name": "untracked background future", "file": "ipv8/community.py", "rule": "tracked-background-work",
     "old": "        task = ensure_future(bootstrapper.initialize(self))\n", "new": "        ensure_future(bootstrapper.initialize(self))\n        task = succeed(None)\n"},
    {"name": "register_task after shutdown", "file": "ipv8/taskmanager.py", "rule": "taskmanager-gates",
     "old": "                # We need to return an awaitable in case the caller awaits the output of register_task.\n                return succeed(None)\n",
     "new": "                # We need to return an awaitable in case the caller awaits the output of register_task.\n"},
    {"name": "duplicate active name allowed", "file": "ipv8/taskmanager.py", "rule": "taskmanager-gates",
     "old": "                msg = f\"Task already exists: '{name}'\"\n                raise RuntimeError(msg)",
     "new": "                self._logger.warning(\"Task already exists: '%s'\", name)"},
    {"name": "replace_task registers immediately", "file": "ipv8/taskmanager.py", "rule": "taskmanager-gates",
     "old": "        old_task = self.cancel_pending_task(name)\n        old_task.add_done_callback(cancel_cb)\n        return new_task",
     "new": "        old_task = self.cancel_pending_task(name)\n        cancel_cb(old_task)\n        return new_task"},
    {"name": "shutdown flag after cancellation", "file": "ipv8/taskmanager.py", "rule": "taskmanager-gates",
     "old": "            self._shutdown = True\n            tasks = self.cancel_all_pending_tasks()\n\n        if tasks:",
     "new": "            tasks = self.cancel_all_pending_tasks()\n            self._shutdown = True\n\n        if tasks:"},
    {"name": "deliver_later without re-check", "file": "ipv8/messaging/interfaces/endpoint.py", "rule": "taskmanager-gates",
     "old": "        if self.is_open() and (packet[1][:self.prefixlen] in self._prefix_map or listener in self._listeners):\n            listener.on_packet(packet)",
     "new": "        if self.is_open():\n            listener.on_packet(packet)"},
    {"name": "exit socket leaves its table before the removal delay", "rule": "release-window", "edits": [
        {"file": TC, "old": "        exit_socket_to_destroy = self.exit_sockets.get(circuit_id, None)\n",
         "new": "        exit_socket_to_destroy = self.exit_sockets.pop(circuit_id, None)\n"},
        {"file": TC, "old": "        exit_socket = self.exit_sockets.pop(circuit_id, None)\n", "new": "        exit_socket = exit_socket_to_destroy\n"}]},
    {"name": "periodic step detached from its runner", "file": "ipv8/taskmanager.py", "rule": "tracked-background-work",
     "old": "        await interval_task(*args)\n", "new": "        ensure_future(interval_task(*args))\n"},
    {"name": "delayed step started as its own future", "file": "ipv8/taskmanager.py", "rule": "tracked-background-work",
     "old": "    await delayed_task(*args)\n", "new": "    await ensure_future(delayed_task(*args))\n"},
    {"name": "is_pending_task_active ignores done()", "file": "ipv8/taskmanager.py", "rule": "taskmanager-gates",
     "old": "            return not pending_task.done() if pending_task else False\n", "new": "            return pending_task is not None\n"},
    {"name": "cancel_all_pending_tasks skips a name", "file": "ipv8/taskmanager.py", "rule": "taskmanager-gates",
     "old": "for name in list(self._pending_tasks.keys())]", "new": "for name in list(self._pending_tasks.keys()) if name != \"_check_tasks\"]"},
    {"name": "only one bootstrapper unloaded", "file": "ipv8/community.py", "rule": "super-chain",
     "old": "        while self.bootstrappers:\n            bootstrapper = self.bootstrappers.pop()", "new": "        if self.bootstrappers:\n            bootstrapper = self.bootstrappers.pop()"},
    {"name": "exit sockets removed only when enabled", "file": TC, "rule": "sockets",
     "old": "        for circuit_id in list(self.exit_sockets.keys()):\n            removals.append(",
     "new": "        for circuit_id in list(self.exit_sockets.keys()):\n            if self.exit_sockets[circuit_id].enabled:\n                removals.append("},
    {"name": "attestation db closed before super", "file": "ipv8/attestation/wallet/community.py", "rule": "sockets",
     "old": "        await super().unload()\n        # Close the database after we stop accepting requests.\n        self.database.close()",
     "new": "        self.database.close()\n        await super().unload()"},
]
