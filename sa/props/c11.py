"""C11 - An unloaded overlay is silent and holds no resources."""
from __future__ import annotations

import ast

from ..core import Ctx
from ..match import arg, call_name, calls, expr_context_facts, fact_of, facts_at, local_defs, rchain, resolve, single_def, stores
from ..model import NOCONST, AnalysisError, ClassInfo, FuncInfo, ancestors, chain, clone, const_value, enclosing_stmt, norm, parent, set_parents, strip_cast, walk_no_nested

LEVEL = "other"
EXPLANATION = (
    "Unload completeness as pairing / ordering rules over every Overlay subclass: each unload override awaits "
    "super().unload() on every normal path; every class that creates a RequestCache awaits its shutdown before that; "
    "every listener registered on behalf of an overlay (also by helper objects it constructs) is removed on a path "
    "reachable from unload; a @task started inside unload whose body releases a resource must be awaited before the "
    "task manager is shut down (otherwise it is cancelled); opened sockets have a close reachable from unload; raw "
    "ensure_future results are registered or awaited; TaskManager gates (no registration after shutdown, no duplicate "
    "live name, replace_task re-registers only in the old task's done-callback, shutdown flag before cancellation); "
    "Overlay.unload removes the listener before shutting tasks down; _deliver_later re-checks registration; an entry a removal takes out of a "
    "table of open resources is closed without suspending in between (unload only sees what is still in the table), and an entry taken out of a "
    "table of TaskManager objects has its task manager shut down on every normal path - and what is shut down is the entry that was taken out, not an "
    "object looked up before a suspension; the low-level runners await "
    "the scheduled step itself and nothing in task-manager code is shielded from cancellation. "
    "'At whatever moment' (schedules) is not explored beyond these orderings."
)


def overlay_classes(ctx: Ctx) -> list[ClassInfo]:
    ov = ctx.repo.cls("Overlay", "ipv8/overlay.py")
    return [ov, *ov.all_subclasses()]


def _awaited(call: ast.Call) -> bool:
    return isinstance(parent(call), ast.Await)


# ----------------------------------------------------------------------------------- shape-independent helpers
_SNAPSHOT_CTORS = ("list", "tuple", "sorted", "set", "frozenset")
_COMPREHENSIONS = (ast.ListComp, ast.SetComp, ast.GeneratorExp, ast.DictComp)
_LOOP_ESCAPES = (ast.Break, ast.Continue, ast.Return, ast.Raise)


def _enumerated_table(fi: FuncInfo, it: ast.AST) -> tuple[str | None, bool, str]:
    """
    What does iterating over `it` enumerate?  -> (chain of the mapping, is a snapshot, 'keys' | 'items').
    `list(t.keys())`, `list(t)`, `tuple(t)`, `sorted(t)`, `[*t]`, `t.copy()`, `t.keys()`, `t`, `list(t.items())` (also through a local alias).
    """
    it = resolve(fi, it)
    snap = False
    for _ in range(4):
        # wrappers that enumerate the same elements: copies (a snapshot), reversed() / iter() (a view, in another order)
        if isinstance(it, ast.Call) and isinstance(it.func, ast.Name) and it.func.id in _SNAPSHOT_CTORS and len(it.args) == 1 and not it.keywords:
            snap, it = True, resolve(fi, it.args[0])
        elif isinstance(it, ast.Call) and isinstance(it.func, ast.Name) and it.func.id in ("reversed", "iter") and len(it.args) == 1 and not it.keywords:
            it = resolve(fi, it.args[0])
        elif isinstance(it, (ast.List, ast.Tuple)) and len(it.elts) == 1 and isinstance(it.elts[0], ast.Starred):
            snap, it = True, resolve(fi, it.elts[0].value)
        elif isinstance(it, ast.Call) and isinstance(it.func, ast.Attribute) and it.func.attr == "copy" and not it.args:
            snap, it = True, resolve(fi, it.func.value)
        else:
            break
    kind = "keys"
    if isinstance(it, ast.Call) and isinstance(it.func, ast.Attribute) and it.func.attr in ("keys", "items") and not it.args:
        kind, it = it.func.attr, it.func.value
    return chain(it), snap, kind


def _loop_var(target: ast.AST, kind: str) -> str | None:
    if kind == "items":
        target = target.elts[0] if isinstance(target, (ast.Tuple, ast.List)) and len(target.elts) == 2 else None
    return target.id if isinstance(target, ast.Name) else None


def _called_for_every_key(fi: FuncInfo, call: ast.Call, key: ast.AST | None, table: str, *, need_snapshot: bool = True) -> bool:
    """
    Is `call` made once for EVERY key of the mapping `table`, with `key` being that key?
    True iff key is the loop variable of an enclosing for-statement or comprehension generator that enumerates (a snapshot of)
    the table, and nothing between that loop and the call can skip an element (no filter, no condition, no break/continue/return).
    for-loop + append, comprehension, tuple/list/sorted snapshots and local aliases of the iterable are all the same to this test.
    """
    key = strip_cast(key) if key is not None else None
    if not isinstance(key, ast.Name):
        return False
    conditional = False
    cur: ast.AST = call
    for a in ancestors(call):
        if isinstance(a, ast.Lambda):
            # map(lambda key: CALL(key, ..), <snapshot of the table>) whose result is consumed
            m = parent(a)
            ps = [x.arg for x in a.args.posonlyargs + a.args.args]
            if isinstance(m, ast.Call) and chain(m.func) == "map" and len(m.args) == 2 and m.args[0] is a and not m.keywords and ps == [key.id] and a.body is cur:
                tab, snap, kind = _enumerated_table(fi, m.args[1])
                return tab == table and kind == "keys" and not conditional and (snap or not need_snapshot) and _consumed_unconditionally(m)
            return False
        if isinstance(a, (ast.FunctionDef, ast.AsyncFunctionDef)):
            break
        if isinstance(a, ast.For):
            tab, snap, kind = _enumerated_table(fi, a.iter)
            if tab == table and _loop_var(a.target, kind) == key.id:
                in_body = any(cur is s for s in a.body)
                escapes = any(isinstance(x, _LOOP_ESCAPES) for s in a.body for x in walk_no_nested(s))
                return in_body and not conditional and not escapes and (snap or not need_snapshot)
            conditional = conditional or not any(cur is s for s in a.body)
        elif isinstance(a, _COMPREHENSIONS):
            for g in a.generators:
                tab, snap, kind = _enumerated_table(fi, g.iter)
                if tab == table and _loop_var(g.target, kind) == key.id:
                    unfiltered = not any(gg.ifs or gg.is_async for gg in a.generators)
                    consumed = not isinstance(a, ast.GeneratorExp) or isinstance(parent(a), (ast.Call, ast.Starred)) or _drained_by_loop(a)   # a lazy generator calls nothing until consumed
                    in_elt = not any(cur is gg.iter for gg in a.generators)
                    return unfiltered and consumed and in_elt and not conditional and (snap or not need_snapshot)
            conditional = conditional or any(gg.ifs for gg in a.generators)
        elif isinstance(a, (ast.If, ast.IfExp, ast.While, ast.Match, ast.AsyncFor, ast.ExceptHandler)):
            conditional = True
        elif isinstance(a, ast.Try) and any(cur is s for s in a.orelse):
            conditional = True
        elif isinstance(a, ast.BoolOp) and a.values[0] is not cur:
            conditional = True
        cur = a
    return False


def _drained_by_loop(it: ast.AST) -> bool:
    """the lazy iterable `it` is what a for-statement iterates over, and that loop always runs to the end (no break / return / raise in its body)"""
    p = parent(it)
    return isinstance(p, ast.For) and p.iter is it and not any(isinstance(x, (ast.Break, ast.Return, ast.Raise)) for s in p.body for x in walk_no_nested(s))


def _calls_with_lambdas(fi: FuncInfo, pattern=None) -> list[ast.Call]:
    """calls in fi including those in the bodies of lambdas written in fi (`map(lambda k: self.m(k), ..)`), not those in nested defs"""
    out = list(calls(fi, pattern))
    todo = [x for x in walk_no_nested(fi.node) if isinstance(x, ast.Lambda) and x is not fi.node]
    while todo:
        lam = todo.pop()
        out += calls(lam.body, pattern)
        if isinstance(lam.body, ast.Call) and lam.body not in out and (pattern is None or chain(lam.body.func) == pattern or (chain(lam.body.func) or "").endswith("." + str(pattern))):
            out.append(lam.body)
        todo += [x for x in walk_no_nested(lam.body) if isinstance(x, ast.Lambda)]
    return out


def _consumed_unconditionally(it: ast.AST) -> bool:
    """the lazy iterable `it` (a map / generator expression) is run to its end where it stands: `*it`, list(it), gather(*it), x.extend(it) - not under a condition"""
    cur = it
    used = False
    for a in ancestors(it):
        if isinstance(a, (ast.FunctionDef, ast.AsyncFunctionDef, ast.Lambda)):
            break
        if isinstance(a, ast.Starred) and a.value is cur:
            used = True
        elif isinstance(a, ast.Call) and cur in a.args and (chain(a.func) in ("list", "tuple", "set", "sorted", "frozenset", "dict") or
                                                            call_name(a) in ("extend", "gather", "wait", "update")):
            used = True
        elif isinstance(a, ast.Call) and a.args and a.args[0] is cur and call_name(a) == "deque" and const_value(arg(a, 1, "maxlen")) == 0:
            used = True                 # deque(it, maxlen=0): the idiom for running an iterator to its end
        elif isinstance(a, ast.For) and a.iter is cur and _drained_by_loop(cur):
            used = True
            cur = a
            continue
        elif isinstance(a, (ast.If, ast.IfExp, ast.While, ast.For, ast.AsyncFor, ast.Match, ast.ExceptHandler, *_COMPREHENSIONS)):
            return False
        elif isinstance(a, ast.BoolOp) and a.values[0] is not cur:
            return False
        cur = a
    return used


def _mapped_over_every_key(fi: FuncInfo, m: ast.Call, method: str, table: str) -> bool:
    """`map(self.<method>, <snapshot of table>)` consumed where it stands: the bound method is called once for every key"""
    if not (chain(m.func) == "map" and len(m.args) == 2 and not m.keywords and rchain(fi, m.args[0]) == f"self.{method}"):
        return False
    tab, snap, kind = _enumerated_table(fi, m.args[1])
    return tab == table and kind == "keys" and snap and _consumed_unconditionally(m)


def _carries(expr: ast.AST | None, names: set[str]) -> bool:
    """Does expr evaluate to a collection that contains all elements of one of the local collections `names`?"""
    if expr is None:
        return False
    expr = strip_cast(expr)
    if isinstance(expr, ast.Name):
        return expr.id in names
    if isinstance(expr, ast.Starred):
        return _carries(expr.value, names)
    if isinstance(expr, ast.BinOp) and isinstance(expr.op, ast.Add):
        return _carries(expr.left, names) or _carries(expr.right, names)
    if isinstance(expr, (ast.List, ast.Tuple, ast.Set)):
        return any(isinstance(e, ast.Starred) and _carries(e.value, names) for e in expr.elts)
    if isinstance(expr, ast.Call) and isinstance(expr.func, ast.Name) and expr.func.id in ("list", "tuple", "set") and len(expr.args) == 1:
        return _carries(expr.args[0], names)
    return False


def _value_flow(fi: FuncInfo, k: ast.Call) -> tuple[bool, set[str], list[ast.AST]]:
    """
    Where does the value of call k go?  -> (directly awaited / element of an awaited gather, local collections that receive it,
    the expressions (k itself, list displays, comprehensions) that hold it).
    Follows: element of a list/tuple/set display or comprehension, `*` unpacking, list()/tuple() copies, `name = ...`,
    `name += ...`, `name.append/extend/add/insert(...)`, and then copies of those collections into other locals.
    """
    names: set[str] = set()
    holders: list[ast.AST] = [k]
    awaited = False
    cur: ast.AST = k
    while True:
        p = parent(cur)
        if isinstance(p, ast.Await):
            awaited = True
            break
        if isinstance(p, (ast.List, ast.Tuple, ast.Set, ast.Starred)):
            cur = p
        elif isinstance(p, (ast.ListComp, ast.SetComp, ast.GeneratorExp)) and p.elt is cur:
            cur = p
        elif isinstance(p, ast.Lambda) and p.body is cur and isinstance(parent(p), ast.Call) and chain(parent(p).func) == "map" and parent(p).args[0] is p:
            cur = parent(p)           # map(lambda x: K(x), ..) yields the values of K
            holders.append(p)
        elif isinstance(p, ast.Call) and cur in p.args:
            nm = call_name(p)
            if nm in ("gather", "wait") and _awaited(p):
                awaited = True
                break
            if nm in ("list", "tuple", "set") and isinstance(p.func, ast.Name):
                cur = p
            elif nm in ("append", "extend", "add", "insert") and isinstance(p.func, ast.Attribute) and isinstance(p.func.value, ast.Name):
                names.add(p.func.value.id)
                break
            else:
                break
        elif isinstance(p, (ast.Assign, ast.AnnAssign, ast.AugAssign)) and p.value is cur:
            for t in (p.targets if isinstance(p, ast.Assign) else [p.target]):
                if isinstance(t, ast.Name):
                    names.add(t.id)
            break
        else:
            break
        holders.append(cur)
    # copies of the receiving collections into other local collections
    changed = bool(names)
    while changed:
        changed = False
        for n in walk_no_nested(fi.node):
            tgt = None
            if isinstance(n, (ast.Assign, ast.AnnAssign, ast.AugAssign)) and n.value is not None and _carries(n.value, names):
                ts = n.targets if isinstance(n, ast.Assign) else [n.target]
                tgt = next((t.id for t in ts if isinstance(t, ast.Name)), None)
            elif isinstance(n, ast.Call) and call_name(n) == "extend" and isinstance(n.func, ast.Attribute) and isinstance(n.func.value, ast.Name) \
                    and n.args and _carries(n.args[0], names):
                tgt = n.func.value.id
            if tgt is not None and tgt not in names:
                names.add(tgt)
                changed = True
    return awaited, names, holders


def _awaits_of_collections(fi: FuncInfo, names: set[str], ctx: Ctx | None = None, _depth: int = 0) -> list[ast.AST]:
    """Sites that wait for every element of one of the local collections: awaited gather/wait over it, `for x in coll: await x`, or (with ctx) an awaited
    coroutine of the same object that does one of these to the parameter it receives the collection in, on every normal path on which it is not empty."""
    out: list[ast.AST] = []
    if not names:
        return out
    for g in calls(fi):
        if call_name(g) in ("gather", "wait") and _awaited(g) and any(_carries(a, names) for a in g.args):
            out.append(g)
        elif ctx is not None and _depth < 2 and _awaited(g) and any(_carries(a, names) for a in [*g.args, *[k.value for k in g.keywords]]):
            ts = _helper_targets(ctx, fi, g)
            ok = bool(ts)
            for t in ts:
                ps = {p for p, a in _simple_binding(t, g).items() if _carries(a, names)}
                tv = U(ctx, t)
                inner = _awaits_of_collections(tv, ps, ctx, _depth + 1) if ps and len(local_defs(tv, next(iter(ps)))) == 0 else []
                cfg = ctx.cfg(tv)

                def empty(f, ps=ps):
                    # the collection is not empty (an empty one needs no waiting)
                    if f.op == "truthy" and chain(f.left) in ps:
                        return True
                    return None
                fe = _Feas(ctx, tv, empty)
                ok = ok and bool(inner) and cfg.exit not in fe.explore(cut_nodes=[n for i in inner for n in cfg.nodes_for(i)], follow_exc=False)
            if ok:
                out.append(g)
    for n in walk_no_nested(fi.node):
        if isinstance(n, ast.Await) and isinstance(n.value, ast.Name) and n.value.id in names:
            out.append(n)
        if isinstance(n, ast.For) and isinstance(n.target, ast.Name) and _carries(n.iter, names):
            aw = [x for s in n.body for x in walk_no_nested(s) if isinstance(x, ast.Await) and chain(x.value) == n.target.id]
            if aw and not any(isinstance(x, (ast.Break, ast.Return)) for s in n.body for x in walk_no_nested(s)):
                out.append(n)
    return out


def _nonempty_test(test: ast.AST, coll: str) -> bool:
    """`while coll:` / `while len(coll):` / `while len(coll) > 0:` / `while len(coll) != 0:` / `while coll != []:`"""
    def is_len(e):
        return isinstance(e, ast.Call) and chain(e.func) == "len" and len(e.args) == 1 and chain(e.args[0]) == coll
    if chain(test) == coll or is_len(test):
        return True
    if isinstance(test, ast.Compare) and len(test.ops) == 1:
        l, op, r = test.left, test.ops[0], test.comparators[0]
        if is_len(l) and const_value(r) == 0 and isinstance(op, (ast.Gt, ast.NotEq)):
            return True
        if is_len(l) and const_value(r) == 1 and isinstance(op, ast.GtE):
            return True
        if is_len(r) and const_value(l) == 0 and isinstance(op, (ast.Lt, ast.NotEq)):
            return True
        if chain(l) == coll and isinstance(op, ast.NotEq) and isinstance(r, (ast.List, ast.Tuple)) and not r.elts:
            return True
    return False


def _empty_test(test: ast.AST, coll: str) -> bool:
    """`len(coll) == 0` / `coll == []` / `len(coll) < 1`"""
    def is_len(e):
        return isinstance(e, ast.Call) and chain(e.func) == "len" and len(e.args) == 1 and chain(e.args[0]) == coll
    if isinstance(test, ast.Compare) and len(test.ops) == 1:
        l, op, r = test.left, test.ops[0], test.comparators[0]
        if is_len(l) and ((const_value(r) == 0 and isinstance(op, (ast.Eq, ast.LtE))) or (const_value(r) == 1 and isinstance(op, ast.Lt))):
            return True
        if is_len(r) and const_value(l) == 0 and isinstance(op, (ast.Eq, ast.GtE)):
            return True
        if chain(l) == coll and isinstance(op, ast.Eq) and isinstance(r, (ast.List, ast.Tuple)) and not r.elts:
            return True
    return False


def _unloads_every_bootstrapper(fi: FuncInfo, call: ast.Call, coll: str = "self.bootstrappers") -> bool:
    """`call` (= <x>.unload()) is made for every element of coll: drain loop `while coll: coll.pop().unload()` or a loop over coll."""
    recv = call.func.value
    if _called_for_every_key(fi, call, recv, coll, need_snapshot=False):
        return True
    r = resolve(fi, recv)
    if not (isinstance(r, ast.Call) and chain(r.func) in (coll + ".pop", coll + ".popleft")):
        return False
    cur: ast.AST = call
    for a in ancestors(call):
        if isinstance(a, (ast.FunctionDef, ast.AsyncFunctionDef, ast.Lambda)):
            return False
        if isinstance(a, ast.While):
            escapes = [x for s in a.body for x in walk_no_nested(s) if isinstance(x, _LOOP_ESCAPES)]
            if _nonempty_test(a.test, coll):
                return any(cur is s for s in a.body) and not escapes
            if const_value(a.test) in (True, 1) and not a.orelse:
                # `while True: try: x = coll.pop() except IndexError: break ...`: drained until the pop fails on the empty collection - the only way out
                tr = next((t for t in ancestors(r) if isinstance(t, ast.Try)), None)
                return any(cur is s for s in a.body) and tr is not None and any(tr is s for s in a.body) and len(tr.handlers) == 1 and not tr.finalbody \
                    and (chain(tr.handlers[0].type) or "") in ("IndexError", "LookupError") and len(tr.handlers[0].body) == 1 \
                    and isinstance(tr.handlers[0].body[0], ast.Break) and escapes == [tr.handlers[0].body[0]]
            return False
        if isinstance(a, (ast.If, ast.IfExp, ast.For, ast.AsyncFor, ast.Match, ast.ExceptHandler, *_COMPREHENSIONS)):
            return False
        if isinstance(a, ast.BoolOp) and a.values[0] is not cur:
            return False
        cur = a
    return False


# ----------------------------------------------------------------------------------- path-sensitive feasibility
# Abstract values: a frozenset of possibilities.  ("k", c) = the constant c, "T" = some truthy object, "F" = some falsy object that is not None,
# ("t", (v0, v1, ..)) = a tuple display of abstract values.
_NONE = ("k", None)
_TRUE, _FALSE = ("k", True), ("k", False)
_ANY = frozenset({_NONE, "F", "T"})
_BOOL = frozenset({_TRUE, _FALSE})
_OBJ = frozenset({"F", "T"})
_KEY_RAISED = frozenset({("k", "KeyError")})
_NO_KEY_RAISED = frozenset({("k", "not a KeyError")})
_PURE_BOOL_CALLS = {"isinstance", "issubclass", "callable", "hasattr", "any", "all", "iscoroutinefunction", "iscoroutine", "isfuture"}
_OBJ_CALLS = {"len", "int", "str", "list", "tuple", "dict", "set", "frozenset", "sorted", "repr", "float", "bytes", "range", "enumerate", "zip", "map",
              "iter", "id", "hash", "type", "reversed", "min", "max", "sum", "abs", "round", "hexlify", "unhexlify"}
_ALWAYS_TRUE_CTORS = {"Future", "Task", "Event", "Lock", "RLock", "Semaphore", "object"}


def _is_true(x) -> bool:
    if x == "T":
        return True
    if x == "F":
        return False
    if x[0] == "k":
        return bool(x[1])
    if x[0] == "r":
        return True               # a dataclass instance (record classes that define __bool__ / __len__ are not modelled as records)
    return len(x[1]) > 0


class _Member:
    """A named constant object: a member of a plain Enum, or a module-level `NAME = object()` sentinel.  Equal only to itself, always truthy."""

    __slots__ = ("owner", "key")

    def __init__(self, owner: str, key) -> None:
        self.owner, self.key = owner, key

    def __eq__(self, other) -> bool:
        return isinstance(other, _Member) and (self.owner, self.key) == (other.owner, other.key)

    def __hash__(self) -> int:
        return hash((self.owner, self.key))

    def __bool__(self) -> bool:
        return True

    def __repr__(self) -> str:
        return f"<{self.owner}.{self.key}>"


_ENUM_BASES = {"Enum", "IntEnum", "StrEnum", "Flag", "IntFlag", "ReprEnum"}
_ENUM_MIXED = {"IntEnum", "StrEnum", "Flag", "IntFlag", "int", "str", "bytes", "float"}


def _is_record_value(x) -> bool:
    return isinstance(x, tuple) and len(x) == 3 and x[0] in ("t", "r")


def _record_fields(ctx: Ctx, cls: ClassInfo) -> tuple[str, list[tuple[str, ast.AST | None]]] | None:
    """
    ('t' | 'r', [(field, default expr | None), ..]) when constructing cls only stores its arguments: a NamedTuple ('t': also a tuple), a
    @dataclass, or a plain class whose __init__ does nothing but `self.<field> = <parameter>`; None for every other class.
    """
    memo = getattr(ctx, "_c11_records", None)
    if memo is None:
        memo = ctx._c11_records = {}     # noqa: SLF001
    k = id(cls.node)
    if k in memo:
        return memo[k]
    memo[k] = None
    if cls.lookup("__bool__") or cls.lookup("__len__") or cls.lookup("__new__") or cls.lookup("__eq__") or cls.lookup("__post_init__"):
        return None
    decs = {(chain(d.func) if isinstance(d, ast.Call) else chain(d)) or "" for d in cls.node.decorator_list}
    is_dc = any(d.rsplit(".", 1)[-1] == "dataclass" for d in decs)
    is_nt = "NamedTuple" in cls.base_names
    if (is_dc or is_nt) and not cls.bases and set(cls.base_names) <= {"NamedTuple", "object"} and cls.lookup("__init__") is None:
        fields = [(st.target.id, st.value) for st in cls.node.body if isinstance(st, ast.AnnAssign) and isinstance(st.target, ast.Name)
                  and "ClassVar" not in norm(st.annotation)]
        if fields:
            memo[k] = ("t" if is_nt else "r", fields)
        return memo[k]
    init = cls.methods.get("__init__")
    if init is None or cls.bases or not set(cls.base_names) <= {"object"} or decs or init.node.args.vararg or init.node.args.kwarg \
            or init.node.args.kwonlyargs or init.decorator_names():
        return None
    ps = init.params()
    defaults = dict(zip(ps[len(ps) - len(init.node.args.defaults):], init.node.args.defaults))
    fields = []
    for st in init.node.body:
        if isinstance(st, ast.Expr) and isinstance(st.value, ast.Constant):
            continue
        tgt = st.targets[0] if isinstance(st, ast.Assign) and len(st.targets) == 1 else st.target if isinstance(st, ast.AnnAssign) else None
        val = getattr(st, "value", None)
        if not (isinstance(tgt, ast.Attribute) and chain(tgt.value) == ps[0] and isinstance(val, ast.Name) and val.id in ps[1:]):
            return None
        fields.append((tgt.attr, val.id))
    if [p for _, p in fields] != ps[1:]:
        return None                      # every parameter is stored exactly once, in order
    # ... and no method of the class rebinds a field afterwards
    for m in cls.methods.values():
        if m is not init and any(isinstance(x, ast.Attribute) and isinstance(x.ctx, (ast.Store, ast.Del)) and x.attr in {f for f, _ in fields}
                                 for x in ast.walk(m.node)):
            return None
    memo[k] = ("r", [(f, defaults.get(p)) for f, p in fields])
    return memo[k]


def _known(vs) -> bool:
    return bool(vs) and all(isinstance(x, tuple) and x[0] == "k" for x in vs)


def _bools(outcomes) -> frozenset:
    return frozenset(_TRUE if o else _FALSE for o in outcomes)


def _const_abs(v):
    if v is NOCONST:
        return None
    try:
        hash(v)
    except TypeError:
        return None
    return frozenset({("k", v)})


def _rebound_attrs(ctx: Ctx) -> set[str]:
    """attribute names that are assigned / deleted through an attribute target anywhere in the repository (`x.attr = ..`)"""
    s = getattr(ctx, "_c11_rebound", None)
    if s is None:
        s = ctx._c11_rebound = {n.attr for m in ctx.repo.modules.values() for n in ast.walk(m.tree)       # noqa: SLF001
                                if isinstance(n, ast.Attribute) and isinstance(n.ctx, (ast.Store, ast.Del))}
    return s


def _rebound_outside_self(ctx: Ctx) -> set[str]:
    """attribute names that are assigned through something other than `self` somewhere (`other._shutdown = ..`)"""
    s = getattr(ctx, "_c11_rebound_other", None)
    if s is None:
        s = ctx._c11_rebound_other = {n.attr for m in ctx.repo.modules.values() for n in ast.walk(m.tree)       # noqa: SLF001
                                      if isinstance(n, ast.Attribute) and isinstance(n.ctx, (ast.Store, ast.Del)) and chain(n.value) != "self"}
    return s


def _module_binds_once(ctx: Ctx, mod, name: str) -> bool:
    memo = getattr(ctx, "_c11_modbinds", None)
    if memo is None:
        memo = ctx._c11_modbinds = {}    # noqa: SLF001
    k = (id(mod), name)
    if k not in memo:
        n = sum(1 for x in ast.walk(mod.tree) if isinstance(x, ast.Name) and x.id == name and isinstance(x.ctx, (ast.Store, ast.Del)))
        g = any(isinstance(x, ast.Global) and name in x.names for x in ast.walk(mod.tree))
        memo[k] = n == 1 and not g
    return memo[k]


def _static_value(ctx: Ctx, fi: FuncInfo, e: ast.AST):
    """
    The abstract value of a name / attribute that denotes a constant of the program: a module-level constant (`_REFUSED = "refused"`,
    `_NOTHING = object()`), a member of an Enum (`_Admission.CLOSED`), a class-level constant (`Cls.LIMIT`, `self.LIMIT` when no instance
    attribute of that name is ever assigned).  None when e is anything else.
    """
    repo = ctx.repo
    if isinstance(e, ast.Name):
        if e.id in fi.params() or local_defs(fi, e.id):
            return None
        r = repo.resolve_name(fi.module, e.id)
        if not (isinstance(r, tuple) and r[0] == "const") or not _module_binds_once(ctx, r[1], e.id):
            return None
        ex = strip_cast(r[2])
        if isinstance(ex, ast.Call) and chain(ex.func) == "object" and not ex.args and not ex.keywords:
            return frozenset({("k", _Member(r[1].relpath, e.id))})
        return _const_abs(repo.resolve_const(fi.module, e))
    if not isinstance(e, ast.Attribute):
        return None
    via_self = isinstance(e.value, ast.Name) and e.value.id in ("self", "cls")
    c = fi.cls if via_self else repo.resolve_class_expr(fi.module, e.value)
    if c is None or e.attr in _rebound_attrs(ctx):
        return None
    if c.lookup_attr(e.attr) is None:
        # `_OPEN, _CLOSED = "open", "closed"` at class level (the model records single-name class attributes only)
        for k in c.mro():
            for st in k.node.body:
                if isinstance(st, ast.Assign) and len(st.targets) == 1 and isinstance(st.targets[0], ast.Tuple) and isinstance(st.value, ast.Tuple) \
                        and len(st.targets[0].elts) == len(st.value.elts):
                    for tg, v in zip(st.targets[0].elts, st.value.elts):
                        if isinstance(tg, ast.Name) and tg.id == e.attr and not (via_self and any(e.attr in kk.attrs for kk in c.all_subclasses())) \
                                and not any(e.attr in kk.attrs or e.attr in kk.methods for kk in c.mro()):
                            return _const_abs(repo.resolve_const(k.module, v, k))
        return None
    owner = next(k for k in c.mro() if e.attr in k.attrs)
    bases = {b.rsplit(".", 1)[-1] for b in c.all_base_names()}
    if bases & _ENUM_BASES:
        if via_self or c.lookup("__bool__") or c.lookup("__eq__") or c.lookup("_missing_"):
            return None
        if bases & _ENUM_MIXED:
            return _const_abs(repo.resolve_const(owner.module, owner.attrs[e.attr], owner)) or _OBJ
        v = repo.resolve_const(owner.module, owner.attrs[e.attr], owner)
        try:
            hash(v)
        except TypeError:
            v = NOCONST
        return frozenset({("k", _Member(owner.name, ("n", e.attr) if v is NOCONST else ("v", v)))})
    if via_self and any(e.attr in k.attrs for k in c.all_subclasses()):
        return None                       # a subclass may override the class-level constant
    return _const_abs(repo.resolve_const(owner.module, owner.attrs[e.attr], owner))


class _Feas:
    """
    Which CFG nodes of `fi` can be reached when some atoms have an assumed, stable truth value?
    `assume(Fact) -> bool | None` gives the truth of the POSITIVE relation (op, left, right) of a fact, or None when nothing is assumed about it.
    Unlike a cut of contradicting condition edges (match.unreachable_assuming) this follows the values of local decision variables
    (`refusal = None ... refusal = succeed(None) ... if refusal is not None: return`), tags and tuples returned by helpers, and the results of
    calls to helpers of the same object / module (analysed with their parameters bound to the caller's arguments).  Everything it does not
    understand evaluates to 'any value', i.e. it can only make MORE nodes reachable than really are.
    """

    LIMIT = 40000
    MAX_DEPTH = 3

    def __init__(self, ctx: Ctx, fi: FuncInfo, assume, *, bind: dict | None = None, penv: dict | None = None, depth: int = 0,
                 memo: dict | None = None, stack: tuple = ()) -> None:
        self.ctx, self.repo, self.fi, self.assume = ctx, ctx.repo, fi, assume
        self.bind = dict(bind or {})
        self.depth = depth
        self.memo = memo if memo is not None else {}
        self.stack = (*stack, id(fi.node))
        self.cfg = ctx.cfg(fi)
        self.params = set(fi.params())
        self.stored = {n.id for n in walk_no_nested(fi.node) if isinstance(n, ast.Name) and isinstance(n.ctx, (ast.Store, ast.Del))}
        self.stored |= {n.name for n in walk_no_nested(fi.node) if isinstance(n, ast.ExceptHandler) and n.name}
        self.stored |= {n.name for n in walk_no_nested(fi.node) if isinstance(n, (ast.FunctionDef, ast.AsyncFunctionDef, ast.ClassDef)) and n is not fi.node}
        self.init_env = {k: v for k, v in (penv or {}).items() if v != _ANY}
        self.tracked = self.stored | set(self.init_env)
        self.returns: set = set()
        self.seen: dict = {}

    # ------------------------------------------------------------ exploration
    def explore(self, starts=None, *, cut_nodes=(), follow_exc: bool = True) -> dict:
        """{node: {envkey: env}} for every (node, abstract environment) that is feasible."""
        cut = set(cut_nodes)
        seen: dict = {}
        todo = list(starts) if starts is not None else [(self.cfg.entry, dict(self.init_env))]
        count = 0
        while todo:
            node, env = todo.pop()
            if node in cut:
                continue
            key = frozenset(env.items())
            at = seen.setdefault(node, {})
            if key in at:
                continue
            at[key] = env
            count += 1
            if count > self.LIMIT:
                raise AnalysisError(f"undecided: too many abstract states in {self.fi.qualname}")
            if node is self.cfg.exit:
                self.returns |= env.get("$ret", frozenset({_NONE}))
                continue
            for nxt, env2 in self._step(node, env, follow_exc):
                todo.append((nxt, env2))
        self.seen = seen
        return seen

    # ------------------------------------------------------------ key lookups that raise / cannot raise under the assumption
    _KEY_ERRORS = ("KeyError", "LookupError", "Exception", "BaseException")
    _QUIET_METHODS = ("done", "cancelled", "cancel", "is_set", "get", "items", "keys", "values")

    def _lookups(self, node) -> tuple[list, list, bool]:
        """(subscript reads evaluated whenever the node is, all subscript reads, nothing else in the node can raise KeyError)"""
        memo = self.__dict__.setdefault("_lk", {})
        if id(node) in memo:
            return memo[id(node)]
        a = node.ast
        eager: list = []
        every: list = []
        clean = True
        if isinstance(a, (ast.expr, ast.Assign, ast.AnnAssign, ast.AugAssign, ast.Expr, ast.Return, ast.Delete)):
            from ..cfg import call_may_raise
            for x in walk_no_nested(a):
                if isinstance(x, ast.Subscript) and isinstance(x.ctx, (ast.Load, ast.Del)):
                    every.append(x)
                    lazy = False
                    cur = x
                    for p in ancestors(x):
                        if (isinstance(p, ast.BoolOp) and p.values[0] is not cur) or (isinstance(p, ast.IfExp) and p.test is not cur) or \
                                isinstance(p, (ast.Lambda, *_COMPREHENSIONS)):
                            lazy = True
                        if p is a:
                            break
                        cur = p
                    if not lazy:
                        eager.append(x)
                elif isinstance(x, ast.Call) and call_may_raise(x) and not (isinstance(x.func, ast.Attribute) and x.func.attr in self._QUIET_METHODS):
                    clean = False
                elif isinstance(x, (ast.Await, ast.Yield, ast.YieldFrom, ast.Lambda, *_COMPREHENSIONS)):
                    clean = False
        memo[id(node)] = (eager, every, clean)
        return memo[id(node)]

    def _present(self, sub: ast.Subscript, env: dict | None = None):
        """True / False when the assumption says the key of the lookup `M[k]` is / is not in M, else None"""
        cmp = ast.Compare(left=clone(sub.slice), ops=[ast.In()], comparators=[clone(sub.value)])
        return self.assume(fact_of(self._root(cmp, env), True))

    # ------------------------------------------------------------ origins: what a local holds on THIS path
    # `x = <pure read>` records, per path, the expression (in root terms) whose value x holds.  A local with several reaching definitions
    # (`try: x = T[k] / except KeyError: x = None`, `x = None; if ..: x = T.get(k)`) is then judged per path: where it holds the lookup, a test of x
    # is a test of the lookup; where it holds the constant, the constant decides.  Rebinding x or any name the expression reads drops the record.
    @staticmethod
    def _drop_origin(env: dict, name: str) -> None:
        env.pop("$o:" + name, None)
        for k in [k for k, v in env.items() if k.startswith("$o:") and name in next(iter(v))[2]]:
            del env[k]

    def _note_origin(self, name: str, value: ast.AST, env: dict) -> None:
        v = strip_cast(value)
        if isinstance(v, (ast.Constant, ast.Name)) or not _pure_read(v):
            return
        r = self._root(v, env)
        free = frozenset(n.id for n in ast.walk(r) if isinstance(n, ast.Name))
        if name in free:
            return
        key = norm(r)
        self.__dict__.setdefault("_origins", {})[key] = r
        env["$o:" + name] = frozenset({("o", key, free)})

    def _origin(self, name: str, env: dict | None) -> ast.AST | None:
        v = env.get("$o:" + name) if env is not None else None
        return self.__dict__.get("_origins", {}).get(next(iter(v))[1]) if v else None

    def _catches_key_error(self, h: ast.ExceptHandler) -> bool:
        if h.type is None:
            return True
        return any((chain(t) or "").rsplit(".", 1)[-1] in self._KEY_ERRORS for t in (h.type.elts if isinstance(h.type, ast.Tuple) else [h.type]))

    def _only_key_errors(self, h: ast.ExceptHandler) -> bool:
        return h.type is not None and all((chain(t) or "").rsplit(".", 1)[-1] in ("KeyError", "LookupError")
                                          for t in (h.type.elts if isinstance(h.type, ast.Tuple) else [h.type]))

    def _step(self, node, env: dict, follow_exc: bool) -> list:  # noqa: C901, PLR0912
        a = node.ast
        out = []
        raised = env.get("$raised")
        if raised is not None:
            env = {k: v for k, v in env.items() if k != "$raised"}
            if node.kind == "dispatch":
                handlers = [(nxt, lab) for nxt, lab in node.succ if nxt.kind == "handler"]
                others = [(nxt, lab) for nxt, lab in node.succ if nxt.kind != "handler"]
                if raised == _KEY_RAISED:
                    # a KeyError raised by a lookup that the assumption says fails: it runs the first handler that catches it - ordinary control flow
                    for nxt, _ in handlers:
                        if self._catches_key_error(nxt.ast):
                            return [(nxt, env)]
                    return [(nxt, {**env, "$raised": raised}) for nxt, _ in others]
                # an exception that is not a KeyError: handlers for KeyError / LookupError only do not run
                return [(nxt, env) for nxt, _ in handlers if not self._only_key_errors(nxt.ast)] + [(nxt, {**env, "$raised": raised}) for nxt, _ in others]
        if node.kind in ("cond", "stmt") and a is not None:
            eager, every, clean = self._lookups(node)
            if every:
                if any(self._present(x, env) is False for x in eager):
                    # the lookup raises KeyError: the node never completes normally
                    return [(nxt, {**env, "$raised": _KEY_RAISED}) for nxt, lab in node.succ if lab == "exc"]
                if follow_exc and clean and all(self._present(x, env) is True for x in every):
                    exc = [(nxt, {**env, "$raised": _NO_KEY_RAISED}) for nxt, lab in node.succ if lab == "exc"]
                    return [*exc, *[(n2, e2) for n2, e2 in self._step_plain(node, env, False)]]
        return self._step_plain(node, env, follow_exc)

    def _step_plain(self, node, env: dict, follow_exc: bool) -> list:
        a = node.ast
        out = []
        if node.kind == "cond":
            post = dict(env)
            v = self.ev(a, post)
            for nxt, lab in node.succ:
                if lab == "exc":
                    if follow_exc:
                        out.append((nxt, env))
                elif lab is True:
                    if any(_is_true(x) for x in v):
                        out.append((nxt, self._refine(a, True, post)))
                elif lab is False:
                    if any(not _is_true(x) for x in v):
                        out.append((nxt, self._refine(a, False, post)))
                else:
                    out.append((nxt, post))
            return out
        post = env
        if node.kind == "loop" and isinstance(a, (ast.For, ast.AsyncFor)):
            for nxt, lab in node.succ:
                if lab is True:
                    e2 = dict(env)
                    self._bind_target(a.target, _ANY, e2)
                    out.append((nxt, e2))
                elif lab != "exc" or follow_exc:
                    out.append((nxt, env))
            return out
        if node.kind == "stmt" and a is not None:
            post = self._exec(a, env)
            if post is None:                 # the statement calls a helper that never returns normally (it always raises)
                return [(nxt, env) for nxt, lab in node.succ if lab == "exc" and follow_exc]
        elif node.kind == "handler" and a is not None and getattr(a, "name", None):
            post = dict(env)
            self._drop_origin(post, a.name)
            post[a.name] = frozenset({"T"})
        for nxt, lab in node.succ:
            if lab == "exc":
                if follow_exc:
                    out.append((nxt, env))
            else:
                out.append((nxt, post))
        return out

    @staticmethod
    def _set(env: dict, name: str, v) -> None:
        if v == _ANY:
            env.pop(name, None)
        else:
            env[name] = frozenset(v)

    def _bind_target(self, t: ast.AST, v, env: dict) -> None:
        if isinstance(t, ast.Name):
            self._drop_origin(env, t.id)
            self._set(env, t.id, v)
        elif isinstance(t, (ast.Tuple, ast.List)):
            n = len(t.elts)
            if v and not any(isinstance(e, ast.Starred) for e in t.elts) and all(isinstance(x, tuple) and x[0] == "t" and len(x[1]) == n for x in v):
                for i, e in enumerate(t.elts):
                    self._bind_target(e, frozenset().union(*[x[1][i] for x in v]), env)
            else:
                for e in t.elts:
                    self._bind_target(e.value if isinstance(e, ast.Starred) else e, _ANY, env)

    def _forget_walrus(self, node: ast.AST, env: dict) -> None:
        for x in ast.walk(node):
            if isinstance(x, ast.NamedExpr):
                env.pop(x.target.id, None)
                self._drop_origin(env, x.target.id)

    def _exec(self, a: ast.AST, env: dict) -> dict | None:
        env = dict(env)
        if isinstance(a, ast.Assign):
            v = self.ev(a.value, env)
            if not v:
                return None
            for t in a.targets:
                self._bind_target(t, v, env)
            if len(a.targets) == 1 and isinstance(a.targets[0], ast.Name):
                self._note_origin(a.targets[0].id, a.value, env)
        elif isinstance(a, ast.AnnAssign):
            if a.value is not None:
                v = self.ev(a.value, env)
                if not v:
                    return None
                self._bind_target(a.target, v, env)
                if isinstance(a.target, ast.Name):
                    self._note_origin(a.target.id, a.value, env)
        elif isinstance(a, ast.AugAssign):
            self._forget_walrus(a.value, env)
            self._bind_target(a.target, _ANY, env)
        elif isinstance(a, ast.Return):
            env["$ret"] = self.ev(a.value, env) if a.value is not None else frozenset({_NONE})
            if not env["$ret"]:
                return None
        elif isinstance(a, (ast.With, ast.AsyncWith)):
            for it in a.items:
                self._forget_walrus(it.context_expr, env)
                if it.optional_vars is not None:
                    self._bind_target(it.optional_vars, _ANY, env)
        elif isinstance(a, (ast.FunctionDef, ast.AsyncFunctionDef, ast.ClassDef)):
            self._drop_origin(env, a.name)
            env[a.name] = frozenset({"T"})
        elif isinstance(a, ast.Delete):
            for t in a.targets:
                if isinstance(t, ast.Name):
                    env.pop(t.id, None)
                    self._drop_origin(env, t.id)
        elif isinstance(a, ast.Expr):
            v = strip_cast(a.value)
            inner = strip_cast(v.value) if isinstance(v, ast.Await) else v
            if isinstance(v, ast.NamedExpr):
                self.ev(v, env)
            elif isinstance(inner, ast.Call) and (isinstance(inner.func, ast.Name) or chain(getattr(inner.func, "value", None)) in ("self", "cls")):
                if not self.ev(v, env):
                    return None
            else:
                self._forget_walrus(a, env)
        elif isinstance(a, ast.expr):
            if isinstance(self.fi.node, ast.Lambda) and a is self.fi.node.body:
                env["$ret"] = self.ev(a, env)
            else:
                self._forget_walrus(a, env)
        elif not isinstance(a, (ast.Import, ast.ImportFrom, ast.Pass, ast.Break, ast.Continue, ast.Global, ast.Nonlocal)):
            self._forget_walrus(a, env)
        return env

    # ------------------------------------------------------------ expressions
    def _root(self, e: ast.AST, env: dict | None = None) -> ast.AST:
        """e in the terms of the function the assumptions are about: bound parameters of a followed helper are replaced by the caller's arguments,
        pure single-assignment locals by their value; other locals of a followed helper get a name that cannot clash."""
        fe = self

        class S(ast.NodeTransformer):
            def __init__(self) -> None:
                self.budget = 12

            def visit_Name(self, n: ast.Name):
                if not isinstance(n.ctx, ast.Load):
                    return n
                if n.id in fe.bind and n.id not in fe.stored:
                    b = fe.bind[n.id]
                    return clone(b) if b is not None else ast.Name(id=f"{n.id}@{fe.fi.name}", ctx=ast.Load())
                o = fe._origin(n.id, env)
                if o is not None:
                    return clone(o)           # (already in root terms)
                if n.id in fe.stored and self.budget > 0:
                    d = single_def(fe.fi, n.id)
                    if d is not None and d[1] is None and _pure_read(d[0]):
                        self.budget -= 1
                        return self.visit(clone(strip_cast(d[0])))
                    if d is not None and d[1] is None and isinstance(strip_cast(d[0]), ast.Call) and not any(isinstance(x, (ast.Await, ast.NamedExpr, ast.Lambda)) for x in ast.walk(d[0])):
                        # a getter whose result the assumption speaks about (`live = self.get_task(name)`): the local stands for that lookup
                        self.budget -= 1
                        rv = self.visit(clone(strip_cast(d[0])))
                        if fe.assume(fact_of(rv, True)) is not None:
                            return rv
                if fe.depth and (n.id in fe.stored or n.id in fe.params):
                    return ast.Name(id=f"{n.id}@{fe.fi.name}", ctx=ast.Load())
                return n

            def visit_Lambda(self, n):
                return n
        return S().visit(clone(e))

    def _atom(self, e: ast.AST, kind: str, env: dict | None = None):
        f = fact_of(self._root(e, env), True)
        v = self.assume(f)
        if v is None:
            return _BOOL if kind == "bool" else _ANY
        truth = bool(v) if f.pos else not v
        if kind == "bool" or self._bool_flag(e):
            return frozenset({_TRUE if truth else _FALSE})
        return frozenset({"T"}) if truth else frozenset({_NONE, "F"})

    def _bool_flag(self, e: ast.AST) -> bool:
        """e is `self.<flag>` and every assignment to that attribute in the class family stores True / False: its value IS a bool (so `flag is True` is decided by its truth)"""
        e = strip_cast(e)
        if not (isinstance(e, ast.Attribute) and chain(e.value) == "self" and self.fi.cls is not None):
            return False
        memo = self.ctx.__dict__.setdefault("_c11_boolflags", {})
        k = (id(self.fi.cls.node), e.attr)
        if k not in memo:
            vals = [_stored_value(st, t) for c in [*self.fi.cls.mro(), *self.fi.cls.all_subclasses()] for m in c.methods.values() for st, t in stores(m, f"self.{e.attr}")
                    if not isinstance(st, ast.Delete)]
            memo[k] = bool(vals) and all(isinstance(const_value(v), bool) for v in vals if v is not None) and all(v is not None for v in vals) \
                and e.attr not in _rebound_outside_self(self.ctx)
        return memo[k]

    def _returns_bool(self, e: ast.Call) -> bool:
        """the call goes to repository functions that are all annotated `-> bool`"""
        if not (isinstance(e.func, ast.Attribute) and chain(e.func.value) in ("self", "cls")) and not isinstance(e.func, ast.Name):
            return False
        try:
            ts = self.repo.resolve_call(self.fi, e)
        except Exception:  # noqa: BLE001
            return False
        return bool(ts) and all(t.node.returns is not None and norm(t.node.returns) in ("bool", "'bool'") and not t.is_async for t in ts)

    def ev(self, e: ast.AST | None, env: dict):  # noqa: C901, PLR0911, PLR0912
        if e is None:
            return frozenset({_NONE})
        e = strip_cast(e)
        if isinstance(e, ast.Constant):
            try:
                hash(e.value)
            except TypeError:
                return _OBJ
            return frozenset({("k", e.value)})
        if isinstance(e, ast.Name):
            if e.id in env:
                return env[e.id]
            if e.id in self.tracked:
                return self._atom(e, "any", env) if self._origin(e.id, env) is not None else _ANY
            if e.id in ("True", "False", "None"):
                return frozenset({("k", {"True": True, "False": False, "None": None}[e.id])})
            a = self._atom(e, "any")
            if a == _ANY and e.id not in self.params:
                s = _static_value(self.ctx, self.fi, e)
                if s is not None:
                    return s
            return a
        if isinstance(e, ast.NamedExpr):
            v = self.ev(e.value, env)
            self._drop_origin(env, e.target.id)
            self._set(env, e.target.id, v)
            self._note_origin(e.target.id, e.value, env)
            return v
        if isinstance(e, ast.UnaryOp):
            if isinstance(e.op, ast.Not):
                v = self.ev(e.operand, env)
                return _bools({not _is_true(x) for x in v})
            c = const_value(e)
            self._forget_walrus(e, env)
            return frozenset({("k", c)}) if c is not NOCONST else _OBJ
        if isinstance(e, ast.BoolOp):
            is_and = isinstance(e.op, ast.And)
            out: set = set()
            for i, operand in enumerate(e.values):
                if i:
                    sub = dict(env)
                    v = self.ev(operand, sub)
                    self._forget_walrus(operand, env)
                else:
                    v = self.ev(operand, env)
                if i == len(e.values) - 1:
                    out |= v
                    break
                out |= {x for x in v if _is_true(x) != is_and}
                if not any(_is_true(x) == is_and for x in v):
                    for rest in e.values[i + 1:]:
                        self._forget_walrus(rest, env)
                    break
            return frozenset(out)
        if isinstance(e, ast.IfExp):
            t = self.ev(e.test, env)
            out = set()
            if any(_is_true(x) for x in t):
                out |= self.ev(e.body, dict(env))
            if any(not _is_true(x) for x in t):
                out |= self.ev(e.orelse, dict(env))
            self._forget_walrus(e.body, env)
            self._forget_walrus(e.orelse, env)
            return frozenset(out)
        if isinstance(e, ast.Compare):
            return self._compare(e, env)
        if isinstance(e, ast.Call):
            return self._call(e, env, awaited=False)
        if isinstance(e, ast.Await):
            if isinstance(strip_cast(e.value), ast.Call):
                return self._call(strip_cast(e.value), env, awaited=True)
            self._forget_walrus(e, env)
            return _ANY
        if isinstance(e, ast.Tuple):
            if any(isinstance(x, ast.Starred) for x in e.elts):
                self._forget_walrus(e, env)
                return _OBJ
            return frozenset({("t", tuple(self.ev(x, env) for x in e.elts))})
        if isinstance(e, (ast.List, ast.Set)):
            self._forget_walrus(e, env)
            return frozenset({"T"}) if any(not isinstance(x, ast.Starred) for x in e.elts) else (_OBJ if e.elts else frozenset({"F"}))
        if isinstance(e, ast.Dict):
            self._forget_walrus(e, env)
            return frozenset({"T"}) if any(k is not None for k in e.keys) else (_OBJ if e.keys else frozenset({"F"}))
        if isinstance(e, ast.Lambda):
            return frozenset({"T"})
        if isinstance(e, (ast.JoinedStr, ast.BinOp, ast.ListComp, ast.SetComp, ast.DictComp, ast.GeneratorExp)):
            self._forget_walrus(e, env)
            return _OBJ
        if isinstance(e, (ast.Attribute, ast.Subscript)):
            a = self._atom(e, "any", env)
            if a != _ANY:
                self._forget_walrus(e, env)
                return a
            if isinstance(e, ast.Attribute):
                s = _static_value(self.ctx, self.fi, e)
                if s is not None:
                    return s
            # a field of a result object (NamedTuple / dataclass / plain record class) held in a local or returned by a helper
            base = strip_cast(e.value)
            if isinstance(base, ast.Await):
                base = strip_cast(base.value) if isinstance(strip_cast(base.value), ast.Call) else base
            if (isinstance(base, ast.Name) and base.id in env) or (isinstance(base, ast.Call) and (
                    isinstance(base.func, ast.Name) or chain(getattr(base.func, "value", None)) in ("self", "cls"))):
                bv = self.ev(e.value, env)
                if isinstance(e, ast.Attribute):
                    if bv and all(_is_record_value(x) and e.attr in x[2][1] for x in bv):
                        return frozenset().union(*[x[1][x[2][1].index(e.attr)] for x in bv])
                else:
                    i = const_value(e.slice)
                    if isinstance(i, int) and not isinstance(i, bool) and bv and all(isinstance(x, tuple) and x[0] == "t" and -len(x[1]) <= i < len(x[1]) for x in bv):
                        return frozenset().union(*[x[1][i] for x in bv])
                return _ANY
            self._forget_walrus(e, env)
            return _ANY
        self._forget_walrus(e, env)
        return _ANY

    def _compare(self, e: ast.Compare, env: dict):
        if len(e.ops) != 1:
            self._forget_walrus(e, env)
            return _BOOL
        op, l, r = e.ops[0], e.left, e.comparators[0]
        decided = self.assume(fact_of(self._root(e, env), True)) if not isinstance(strip_cast(l), ast.NamedExpr) else None
        if decided is not None:
            f = fact_of(e, True)
            self._forget_walrus(e, env)
            return frozenset({_TRUE if (bool(decided) if f.pos else not decided) else _FALSE})
        if isinstance(op, (ast.Is, ast.IsNot, ast.Eq, ast.NotEq)):
            for a, b in ((l, r), (r, l)):
                # `flag is True` / `flag == False` (e.g. from `case (True, _):`) about an atom whose truth is assumed: a flag compared with a bool is a bool
                c = const_value(b)
                if isinstance(c, bool) and not isinstance(strip_cast(a), (ast.NamedExpr, ast.Constant)) and not (isinstance(strip_cast(a), ast.Name) and strip_cast(a).id in self.tracked):
                    f = fact_of(self._root(a, env), True)
                    v = self.assume(f) if f.op == "truthy" else None
                    if v is not None:
                        self._forget_walrus(e, env)
                        return frozenset({_TRUE if ((bool(v) == c) == isinstance(op, (ast.Is, ast.Eq))) else _FALSE})
            lv, rv = self.ev(l, env), self.ev(r, env)
            pos = isinstance(op, (ast.Is, ast.Eq))
            for a, b in ((lv, rv), (rv, lv)):
                if b == frozenset({_NONE}):
                    outs = set()
                    if _NONE in a:
                        outs.add(pos)
                    if a - {_NONE}:
                        outs.add(not pos)
                    return _bools(outs)
            if _known(lv) and _known(rv):
                return _bools({(x[1] == y[1]) == pos for x in lv for y in rv})
            for a, b in ((lv, rv), (rv, lv)):
                # an unknown object may or may not equal a constant of the same truthiness; it never equals one of the other truthiness
                if _known(b) and all(x in ("T", "F") or x[0] == "k" for x in a):
                    outs = set()
                    for x in a:
                        for y in b:
                            if x in ("T", "F"):
                                outs.add(not pos)
                                if _is_true(x) == _is_true(y) and y[1] is not None:
                                    outs.add(pos)
                            else:
                                outs.add((x[1] == y[1]) == pos)
                    return _bools(outs)
            return _BOOL
        if isinstance(op, (ast.In, ast.NotIn)) and isinstance(r, (ast.Tuple, ast.List, ast.Set)) and all(isinstance(x, ast.Constant) for x in r.elts):
            lv = self.ev(l, env)
            pos = isinstance(op, ast.In)
            if _known(lv):
                consts = [x.value for x in r.elts]
                return _bools({(x[1] in consts) == pos for x in lv})
            return _BOOL
        self._forget_walrus(e, env)
        return _BOOL

    def _refine(self, test: ast.AST, pol: bool, env: dict) -> dict:
        env = dict(env)
        t = strip_cast(test)

        def local(x):
            x = strip_cast(x)
            if isinstance(x, ast.NamedExpr):
                return x.target.id
            return x.id if isinstance(x, ast.Name) and x.id in self.tracked else None
        nm = local(t)
        if nm is not None:
            cur = env.get(nm, _ANY)
            self._set(env, nm, frozenset(x for x in cur if _is_true(x) == pol))
            return env
        if isinstance(t, ast.Compare) and len(t.ops) == 1:
            op, l, r = t.ops[0], t.left, t.comparators[0]
            for a, b in ((l, r), (r, l)):
                nm = local(a)
                if nm is None:
                    continue
                cur = env.get(nm, _ANY)
                if isinstance(op, (ast.Is, ast.IsNot, ast.Eq, ast.NotEq)):
                    bv = self.ev(b, dict(env))
                    if len(bv) != 1 or not _known(bv):
                        continue
                    c = next(iter(bv))
                    same = pol if isinstance(op, (ast.Is, ast.Eq)) else not pol
                    if same:
                        new = {x for x in cur if x == c or (x in ("T", "F") and c[1] is not None and _is_true(x) == _is_true(c))}
                    else:
                        new = set(cur) - {c}
                    self._set(env, nm, frozenset(new))
                    return env
                if isinstance(op, (ast.In, ast.NotIn)) and a is l and isinstance(b, (ast.Tuple, ast.List, ast.Set)) and all(isinstance(x, ast.Constant) for x in b.elts):
                    consts = [("k", x.value) for x in b.elts]
                    inside = pol if isinstance(op, ast.In) else not pol
                    if inside:
                        new = {x for x in cur if x in consts or (x in ("T", "F") and any(_is_true(x) == _is_true(c) and c[1] is not None for c in consts))}
                    else:
                        new = {x for x in cur if x not in consts}
                    self._set(env, nm, frozenset(new))
                    return env
        return env

    # ------------------------------------------------------------ calls
    def _call(self, e: ast.Call, env: dict, awaited: bool):  # noqa: C901, PLR0911, PLR0912
        f = fact_of(self._root(e, env), True)
        v = self.assume(f)
        if v is not None:
            self._forget_walrus(e, env)
            if self._returns_bool(e):
                return frozenset({_TRUE if v else _FALSE})
            return frozenset({"T"}) if v else frozenset({_NONE, "F"})
        fn = chain(e.func)
        if fn == "bool" and len(e.args) == 1 and not e.keywords:
            return _bools({_is_true(x) for x in self.ev(e.args[0], env)})
        if fn == "isinstance" and len(e.args) == 2 and not e.keywords:
            r = self._isinstance(e, env)
            if r is not None:
                return r
        if fn in ("any", "all") and len(e.args) == 1 and not e.keywords and "any" not in self.tracked and "all" not in self.tracked:
            # any((a, b, c)) / all(f(x) for x in (p, q)) over conditions written out in the source: the or / and of those conditions
            items = self._written_items(e.args[0])
            if items is not None:
                if not items:
                    return frozenset({_FALSE if fn == "any" else _TRUE})
                bo = ast.copy_location(ast.BoolOp(op=ast.Or() if fn == "any" else ast.And(), values=items), e)
                return _bools({_is_true(x) for x in self.ev(bo, env)})
        self._forget_walrus(e, env)
        last = fn.rsplit(".", 1)[-1] if fn else None
        if fn in _PURE_BOOL_CALLS:
            return _BOOL
        if fn in _OBJ_CALLS:
            return _OBJ
        if awaited and last in ("sleep", "gather", "wait", "wait_for"):
            return _ANY
        cls = self.repo.resolve_class_expr(self.fi.module, e.func) if isinstance(e.func, (ast.Name, ast.Attribute)) else None
        if cls is not None:
            rec = self._record(cls, e, env) if not awaited else None
            if rec is not None:
                return rec
            return _OBJ if (cls.lookup("__bool__") or cls.lookup("__len__")) else frozenset({"T"})
        follow = (isinstance(e.func, ast.Name) and e.func.id not in self.params and (e.func.id not in self.stored or e.func.id in _nested_defs(self.fi))) or \
            (isinstance(e.func, ast.Attribute) and chain(e.func.value) in ("self", "cls")) or \
            (isinstance(e.func, ast.Attribute) and isinstance(e.func.value, ast.Name) and self.repo.resolve_class_expr(self.fi.module, e.func.value) is not None)
        targets = []
        if follow:
            try:
                nd = _nested_defs(self.fi).get(e.func.id) if isinstance(e.func, ast.Name) else None
                targets = [nd] if nd is not None else self.repo.resolve_call(self.fi, e)
            except Exception:  # noqa: BLE001
                targets = []
        if not targets:
            if last and last in _ALWAYS_TRUE_CTORS and not awaited:
                return frozenset({"T"})
            if last and last[:1].isupper() and not last.isupper() and not awaited:
                return _OBJ
            return _ANY
        out: set = set()
        for t in targets:
            decs = [d for d in t.decorator_names() if d not in ("staticmethod", "classmethod")]
            is_gen = any(isinstance(x, (ast.Yield, ast.YieldFrom)) for x in walk_no_nested(t.node))
            dv = _decorated_view(self.ctx, t) if decs and id(t.node) not in self.stack else None
            if dv is not None:
                t, decs = dv, []
            if "task" in decs and len(decs) == 1 and not awaited:
                out |= {"T"}              # @task registers the coroutine and returns its Future
            elif decs:
                return _ANY
            elif is_gen or (t.is_async and not awaited):
                out |= {"T"}              # a generator / coroutine object
            elif awaited and not t.is_async:
                return _ANY
            else:
                out |= self._summary(t, e, env)
        return frozenset(out)

    def _written_items(self, x: ast.AST) -> list[ast.AST] | None:
        """the element expressions of a collection written out where it is used: a display, a comprehension over a display, or a pure single-assignment local holding one"""
        x = strip_cast(x)
        if isinstance(x, ast.Name) and x.id in self.stored and x.id not in self.params:
            d = single_def(self.fi, x.id)
            if d is None or d[1] is not None or not _pure_read(d[0]):
                return None
            x = strip_cast(d[0])
        if isinstance(x, (ast.Tuple, ast.List, ast.Set)):
            return None if any(isinstance(el, ast.Starred) for el in x.elts) else list(x.elts)
        if isinstance(x, (ast.GeneratorExp, ast.ListComp, ast.SetComp)) and len(x.generators) == 1:
            g = x.generators[0]
            rows = self._written_items(g.iter)
            if rows is None or g.ifs or g.is_async or not isinstance(g.target, ast.Name) or any(isinstance(y, (ast.NamedExpr, ast.Lambda, *_COMPREHENSIONS)) for y in ast.walk(x.elt)):
                return None
            return [_instantiate(x.elt, {g.target.id: r}) for r in rows]
        return None

    def _record(self, cls: ClassInfo, e: ast.Call, env: dict):
        """the result object that `Cls(a, b, field=c)` builds, field by field; None when cls is not a plain record class"""
        rf = _record_fields(self.ctx, cls)
        if rf is None or any(isinstance(a, ast.Starred) for a in e.args) or any(k.arg is None for k in e.keywords) or len(e.args) > len(rf[1]):
            return None
        kind, fields = rf
        names = [f for f, _ in fields]
        given: dict = {}
        for f, a in zip(names, e.args):
            given[f] = a
        for k in e.keywords:
            if k.arg not in names or k.arg in given:
                return None
            given[k.arg] = k.value
        vals = []
        for f, d in fields:
            if f in given:
                vals.append(self.ev(given[f], env))
            elif d is not None:
                vals.append(self.ev(d, {}) if isinstance(d, ast.Constant) else _ANY)
            else:
                return None
        if not all(vals):
            return frozenset()           # an argument never evaluates normally
        return frozenset({(kind, tuple(vals), (cls.name, tuple(names)))})

    def _isinstance(self, e: ast.Call, env: dict):
        """isinstance(x, C) decided from the result objects / constants that x can hold; None when it cannot be decided"""
        x = strip_cast(e.args[0])
        if not (isinstance(x, ast.Name) and x.id in env):
            return None
        ks = e.args[1].elts if isinstance(e.args[1], ast.Tuple) else [e.args[1]]
        classes = [self.repo.resolve_class_expr(self.fi.module, k) for k in ks]
        if any(c is None or _record_fields(self.ctx, c) is None or c.subclasses for c in classes):
            return None
        want = {c.name for c in classes}
        outs = set()
        for v in env[x.id]:
            if _is_record_value(v):
                outs.add(v[2][0] in want)
            elif isinstance(v, tuple) and v[0] == "k" and (v[1] is None or isinstance(v[1], (bool, int, str, bytes, float, _Member))):
                outs.add(False)
            else:
                return None
        return _bools(outs)

    def bind_call(self, call: ast.Call, t: FuncInfo, envs: list) -> tuple[dict, dict] | None:
        """(parameter -> expression in root terms | None, parameter -> abstract value) for the call `call` to t, joined over the environments envs."""
        a = t.node.args
        if any(k.arg is None for k in call.keywords):
            return None
        pos = [p.arg for p in a.posonlyargs + a.args]
        decs = t.decorator_names()
        exprs: dict[str, ast.AST | None] = {}
        idx = 0
        if t.cls is not None and "staticmethod" not in decs and isinstance(call.func, ast.Attribute) and pos:
            recv = call.func.value
            if "classmethod" in decs:
                exprs[pos[0]] = None
                idx = 1
            elif chain(recv) in ("self", "cls") or self.repo.resolve_class_expr(self.fi.module, recv) is None:
                # `super().m()` runs m on the same object
                exprs[pos[0]] = ast.Name(id="self", ctx=ast.Load()) if isinstance(recv, ast.Call) and chain(recv.func) == "super" else recv
                idx = 1
        for x in call.args:
            if idx >= len(pos):
                if a.vararg is None:
                    return None
                continue              # (also `*args` handed on to the callee's own *args)
            if isinstance(x, ast.Starred):
                return None           # an unpacked argument would fill named parameters: not followed
            exprs[pos[idx]] = x
            idx += 1
        kwonly = [p.arg for p in a.kwonlyargs]
        for k in call.keywords:
            if k.arg in pos or k.arg in kwonly:
                exprs[k.arg] = k.value
            elif a.kwarg is None:
                return None
        defaults: dict[str, ast.AST] = {}
        for p, d in zip(pos[len(pos) - len(a.defaults):], a.defaults):
            defaults[p] = d
        for p, d in zip(kwonly, a.kw_defaults):
            if d is not None:
                defaults[p] = d
        bind: dict = {}
        penv: dict = {}
        for p in pos + kwonly:
            if p in exprs and exprs[p] is not None:
                x = exprs[p]
                roots = {norm(r): r for r in [self._root(x, env) for env in envs]}
                bind[p] = next(iter(roots.values())) if len(roots) == 1 else self._root(x)
                vals = [self.ev(x, dict(env)) for env in envs] or [_ANY]
                penv[p] = frozenset().union(*vals)
            elif p in exprs:
                bind[p] = None
            elif p in defaults:
                d = defaults[p]
                bind[p] = clone(d) if isinstance(d, ast.Constant) else None
                penv[p] = self.ev(d, {}) if isinstance(d, ast.Constant) else _ANY
            else:
                return None
        for p in ([a.vararg.arg] if a.vararg else []) + ([a.kwarg.arg] if a.kwarg else []):
            bind[p] = None
        return bind, penv

    def _summary(self, t: FuncInfo, call: ast.Call, env: dict):
        if self.depth >= self.MAX_DEPTH or id(t.node) in self.stack:
            return _ANY
        b = self.bind_call(call, t, [env])
        if b is None:
            return _ANY
        bind, penv = b
        key = (id(t.node), id(self.assume), frozenset(penv.items()), tuple(sorted((p, norm(x) if x is not None else "?") for p, x in bind.items())))
        if key not in self.memo:
            self.memo[key] = _ANY         # recursion guard
            try:
                sub = _Feas(self.ctx, U(self.ctx, t), self.assume, bind=bind, penv=penv, depth=self.depth + 1, memo=self.memo, stack=self.stack)
                sub.explore()
                self.memo[key] = frozenset(sub.returns) if sub.returns or self.cfgexit_unreachable(sub) else _ANY
            except AnalysisError:
                self.memo[key] = _ANY
        return self.memo[key]

    @staticmethod
    def cfgexit_unreachable(sub: "_Feas") -> bool:
        return sub.cfg.exit not in sub.seen


def _pure_read(e: ast.AST) -> bool:
    """an expression whose value does not change between its assignment to a local and the local's use, as far as the guards here are concerned:
    attribute / subscript reads, mapping lookups (`.get(k)`), comparisons and boolean combinations of these - no other calls"""
    for n in ast.walk(e):
        if isinstance(n, ast.Call):
            if not (isinstance(n.func, ast.Attribute) and n.func.attr == "get") and chain(n.func) not in ("len", "bool", "isinstance", "getattr", "cast"):
                return False
        elif isinstance(n, (ast.Await, ast.Yield, ast.YieldFrom, ast.NamedExpr, ast.Lambda, *_COMPREHENSIONS)):
            return False
    return True


def _assume_any(*assumes):
    def f(fact):
        for a in assumes:
            v = a(fact)
            if v is not None:
                return v
        return None
    return f


def _context_contradicts(fe: _Feas, site: ast.AST, assume) -> bool:
    """the short-circuit context of the expression `site` (a and SITE, SITE if t else ..) contradicts the assumption"""
    if not isinstance(site, ast.expr):
        return False
    for f in expr_context_facts(site):
        g = fact_of(fe._root(f.atom), True)      # noqa: SLF001
        v = assume(g)
        if v is not None and (bool(v) if g.pos else not v) != (f.pos == g.pos):
            return True
    return False


def _unreachable_assuming(ctx: Ctx, fi: FuncInfo, site: ast.AST, assume) -> bool:
    """True iff no feasible path from the entry of fi evaluates `site` when the assumed atoms have their assumed values."""
    return _chain_unreachable(ctx, [(fi, site)], assume)


def _chain_unreachable(ctx: Ctx, links: list[tuple[FuncInfo, ast.AST]], assume, penv0: dict | None = None) -> bool:
    """
    links = [(f0, call of f1 in f0), (f1, call of f2 in f1), ..., (fk, site)]: the site is only evaluated through this chain of calls.
    True iff under the assumption one of the links cannot be reached in its function (parameters bound to the caller's arguments).
    """
    bind, penv = None, penv0        # (penv0: what is known about the values of the first function's parameters)
    memo: dict = {}
    for i, (fi, node) in enumerate(links):
        fe = _Feas(ctx, fi, assume, bind=bind, penv=penv, depth=i, memo=memo)
        try:
            seen = fe.explore()
        except (AttributeError, KeyError, TypeError, IndexError, RecursionError) as ex:     # syntax the evaluator was not written for: no verdict
            raise AnalysisError(f"undecided: cannot evaluate {fi.qualname} ({type(ex).__name__}: {ex})") from ex
        envs = [env for n in fe.cfg.nodes_for(node) for env in seen.get(n, {}).values()]
        if not envs:
            return True
        if _context_contradicts(fe, node, assume):
            return True
        if i + 1 < len(links):
            call = node if isinstance(node, ast.Call) else None
            b = fe.bind_call(call, links[i + 1][0], envs) if call is not None else None
            bind, penv = b if b is not None else ({p: None for p in links[i + 1][0].params()}, {})
    return False


def _is_new_function(ctx: Ctx, t: FuncInfo) -> bool:
    """t is not part of the reviewed tree (a helper that a later change split off): not in the frozen table of reviewed functions"""
    table = ctx.__dict__.get("_c11_reviewed")
    if table is None:
        from ..localnames import load_table
        try:
            table = load_table()
        except Exception:  # noqa: BLE001
            table = {}
        ctx.__dict__["_c11_reviewed"] = table
    known = table.get(t.module.relpath)
    if known is None:
        return True
    q = t.qualname
    return not any(q == k or q.startswith(k + ".") for k in known)


def _as_method_of_caller(ctx: Ctx, fi: FuncInfo, call: ast.Call, t: FuncInfo) -> FuncInfo:
    """
    A module-level function that is handed the calling object (`_teardown(self)`, `await stop_all(self, tasks)`): the same function with that
    parameter spelled `self` and attributed to the caller's class, i.e. read as the method it would be.  t itself when this does not apply.
    """
    if t.cls is not None or fi.cls is None or isinstance(t.node, ast.Lambda) or isinstance(fi.node, ast.Lambda) or not fi.params() or t.decorator_names():
        return t
    own = fi.params()[0]
    if own not in ("self", "cls") or "staticmethod" in fi.decorator_names():
        return t
    b = _simple_binding(t, call)
    ps = [q for q, a in b.items() if isinstance(a, ast.Name) and a.id == own]
    if len(ps) != 1 or any(isinstance(a, ast.Starred) for a in call.args) or any(kw.arg is None for kw in call.keywords):
        return t
    q = ps[0]
    names = [x for x in ast.walk(t.node) if isinstance(x, ast.Name)]
    if q == own:
        rebound = any(x.id == q and isinstance(x.ctx, (ast.Store, ast.Del)) for x in names)
        if rebound:
            return t
    elif any(x.id == own for x in names) or any(x.id == q and isinstance(x.ctx, (ast.Store, ast.Del)) for x in names) or own in t.params():
        return t
    views = ctx.__dict__.setdefault("_c11_selfviews", {})
    k = (id(t.node), q, id(fi.cls.node))
    if k in views:
        return views[k]
    node = clone(t.node)
    for x in ast.walk(node):
        if isinstance(x, ast.Name) and x.id == q:
            x.id = own
        elif isinstance(x, ast.arg) and x.arg == q:
            x.arg = own
    # (the object comes first, as in a method: `_simple_binding` / bind_call then skip it for `self.f(..)`-style calls only; the call site here is `f(self, ..)`,
    # a plain-name call, which binds all positional parameters including this one)
    set_parents(node)
    view = FuncInfo(t.name, t.qualname, node, t.module, fi.cls)
    view._c11_selfview = True       # noqa: SLF001
    views[k] = view
    return view


def _helper_targets(ctx: Ctx, fi: FuncInfo, call: ast.Call) -> list[FuncInfo]:
    """functions of the same object / module that a call in fi runs synchronously as part of fi (`self.m()`, `cls.m()`, `Class.m()`, `f()`; awaited coroutines)"""
    f = call.func
    objv = getattr(fi, "_c11_obj", None)
    if objv is not None and isinstance(f, ast.Attribute) and isinstance(f.value, ast.Name) and f.value.id == f"self@{objv[0].name}":
        # another method of the same small helper object: seen through the same captured state
        v = _object_method_view(ctx, objv[2], objv[3], objv[0], f.attr, objv[1])
        return [v] if v is not None and (not v.is_async or _awaited(call)) and v.name != "__init__" else []
    is_super = isinstance(f, ast.Attribute) and isinstance(f.value, ast.Call) and chain(f.value.func) == "super" and not f.value.args
    if isinstance(f, ast.Call) or (isinstance(f, ast.Attribute) and isinstance(f.value, ast.Call) and not is_super):
        # a small helper object built and used on the spot: `_Detach(self.endpoint, self)()`, `_Teardown(self).run()`
        bo = _built_object(ctx, fi, f if isinstance(f, ast.Call) else f.value)
        if bo is None:
            return []
        v = _object_method_view(ctx, fi, bo[0], bo[1], "__call__" if isinstance(f, ast.Call) else f.attr)
        return [v] if v is not None and (not v.is_async or _awaited(call)) and v.name != "__init__" else []
    if not (isinstance(f, ast.Name) or is_super or (isinstance(f, ast.Attribute) and isinstance(f.value, ast.Name))):
        return []
    if isinstance(f, ast.Attribute) and not is_super and f.value.id not in ("self", "cls") and ctx.repo.resolve_class_expr(fi.module, f.value) is None:
        return []
    if isinstance(f, ast.Name) and f.id not in fi.params() and single_def(fi, f.id) is not None or \
            (isinstance(f, ast.Attribute) and isinstance(f.value, ast.Name) and f.value.id not in ("self", "cls") and single_def(fi, f.value.id) is not None):
        # a small helper object built in fi and called / asked to act here: `handover(..)`, `teardown.run()`
        bo = _built_object(ctx, fi, f if isinstance(f, ast.Name) else f.value)
        if bo is not None:
            v = _object_method_view(ctx, fi, bo[0], bo[1], "__call__" if isinstance(f, ast.Name) else f.attr)
            return [v] if v is not None and (not v.is_async or _awaited(call)) and v.name != "__init__" else []
    try:
        nd = _nested_defs(fi).get(f.id) if isinstance(f, ast.Name) else None
        if nd is None and isinstance(f, ast.Name) and (f.id in fi.params() or local_defs(fi, f.id)):
            return []                    # a callable held in a parameter / local is not the module function of the same name
        ts = [nd] if nd is not None else ctx.repo.resolve_call(fi, call)
    except Exception:  # noqa: BLE001
        return []
    out = []
    for t in ts:
        t = _as_method_of_caller(ctx, fi, call, t)
        decs = [d for d in t.decorator_names() if d not in ("staticmethod", "classmethod")]
        if decs and t.node is not fi.node and t.qualname != fi.qualname:
            dv = _decorated_view(ctx, t)        # a pass-through decorator: the name denotes wrapper + body
            if dv is not None:
                t, decs = dv, []
        if decs or t.node is fi.node or t.name == "__init__" or t.qualname == fi.qualname:
            continue
        if t.is_async and not _awaited(call):
            continue
        out.append(t)
    return out


def _sites_through(ctx: Ctx, fi: FuncInfo, finder, depth: int = 2, _stack: tuple = ()) -> list[list[tuple[FuncInfo, ast.AST]]]:
    """
    All places where `finder(function) -> [site nodes]` finds something in fi itself or in a helper that fi runs (same object / module), as call
    chains [(fi, call), ..., (helper, site)].  A construct that moved out of an anchor function into a helper is still found, and is judged
    together with the conditions under which the helper is called.
    """
    out = [[(fi, s)] for s in finder(fi)]
    if depth <= 0:
        return out
    for c in calls(fi):
        for t in _helper_targets(ctx, fi, c):
            if id(t.node) in _stack or (t.module is not fi.module and not _is_new_function(ctx, t)):
                continue              # (a reviewed function of another module is that module's business; a helper split off later is a respelling of this one)
            for rest in _sites_through(ctx, U(ctx, t), finder, depth - 1, (*_stack, id(fi.node), id(t.node))):
                out.append([(fi, c), *rest])
    return out


# ----------------------------------------------------------------------------------- literal tables: loops over dispatch tables are unrolled
def _literal_rows(ctx: Ctx, fi: FuncInfo, it: ast.AST, _depth: int = 0) -> list[ast.AST] | None:
    """
    The rows that iterating over `it` yields when `it` is a display written in the source: a tuple / list display (also through a single-assignment
    local, a class attribute or a module constant), `{..}.items() / .values() / .keys()`, `zip(display, display)`, `enumerate(display)`,
    `list(..)/tuple(..)` of these.  None when it is anything else.
    """
    if _depth > 4:
        return None
    it = strip_cast(it)
    if isinstance(it, ast.Name):
        d = single_def(fi, it.id)
        if d is not None and d[1] is None:
            return _literal_rows(ctx, fi, d[0], _depth + 1)
        if not local_defs(fi, it.id) and it.id not in fi.params():
            r = ctx.repo.resolve_name(fi.module, it.id)
            if isinstance(r, tuple) and r[0] == "const" and r[1] is fi.module:
                return _literal_rows(ctx, fi, r[2], _depth + 1)
        return None
    if isinstance(it, ast.Attribute) and isinstance(it.value, ast.Name) and fi.cls is not None and \
            (it.value.id in ("self", "cls") or it.value.id in [k.name for k in fi.cls.mro()]):
        for k in fi.cls.mro():
            if it.attr in k.attrs:
                # a class-level table; an instance attribute of the same name assigned anywhere would shadow it
                if any(stores(m, f"self.{it.attr}") for kk in [fi.cls, *fi.cls.all_subclasses(), *fi.cls.mro()] for m in kk.methods.values()):
                    return None
                return _literal_rows(ctx, fi, k.attrs[it.attr], _depth + 1)
        return None
    if isinstance(it, (ast.Tuple, ast.List)):
        return None if any(isinstance(e, ast.Starred) for e in it.elts) else list(it.elts)
    if isinstance(it, ast.Dict):
        return None if any(k is None for k in it.keys) else list(it.keys)
    if isinstance(it, ast.Call) and not it.keywords:
        fn = chain(it.func)
        if fn in ("list", "tuple", "iter", "reversed") and len(it.args) == 1:
            rows = _literal_rows(ctx, fi, it.args[0], _depth + 1)
            return rows[::-1] if rows is not None and fn == "reversed" else rows
        if fn == "zip" and it.args:
            cols = [_literal_rows(ctx, fi, a, _depth + 1) for a in it.args]
            if all(c is not None for c in cols) and len({len(c) for c in cols}) == 1:
                return [ast.Tuple(elts=list(r), ctx=ast.Load()) for r in zip(*cols)]
            return None
        if fn == "enumerate" and len(it.args) == 1:
            rows = _literal_rows(ctx, fi, it.args[0], _depth + 1)
            return None if rows is None else [ast.Tuple(elts=[ast.Constant(value=i), r], ctx=ast.Load()) for i, r in enumerate(rows)]
        if isinstance(it.func, ast.Attribute) and it.func.attr in ("items", "values", "keys") and not it.args:
            base = strip_cast(it.func.value)
            if isinstance(base, ast.Name):
                d = single_def(fi, base.id)
                base = strip_cast(d[0]) if d is not None and d[1] is None else base
            if isinstance(base, ast.Dict) and not any(k is None for k in base.keys):
                if it.func.attr == "keys":
                    return list(base.keys)
                if it.func.attr == "values":
                    return list(base.values)
                return [ast.Tuple(elts=[k, v], ctx=ast.Load()) for k, v in zip(base.keys, base.values)]
    return None


def _record_row(ctx: Ctx, fi: FuncInfo, row: ast.AST) -> ast.AST:
    """a table row written as a small record `_Stage(self.circuits, self.remove_circuit)` (NamedTuple / dataclass / plain record class) is the tuple
    of its field values, which also answers `row.field`; any other row is returned as it is"""
    r = strip_cast(row)
    if not isinstance(r, ast.Call) or any(isinstance(a, ast.Starred) for a in r.args) or any(k.arg is None for k in r.keywords):
        return row
    cls = ctx.repo.resolve_class_expr(fi.module, r.func)
    rf = _record_fields(ctx, cls) if cls is not None else None
    if rf is None or len(r.args) > len(rf[1]):
        return row
    names = [f for f, _ in rf[1]]
    given = dict(zip(names, r.args))
    for k in r.keywords:
        if k.arg not in names or k.arg in given:
            return row
        given[k.arg] = k.value
    vals = []
    for f, d in rf[1]:
        v = given.get(f, d if isinstance(d, ast.Constant) else None)
        if v is None:
            return row
        vals.append(v)
    t = ast.copy_location(ast.Tuple(elts=vals, ctx=ast.Load()), r)
    t._c11_fields = (rf[0], names)      # noqa: SLF001
    return t


def _destructure(target: ast.AST, row: ast.AST, out: dict) -> bool:
    if isinstance(target, (ast.Tuple, ast.List)) and getattr(row, "_c11_fields", ("t",))[0] != "t":
        return False                     # only NamedTuple records can be unpacked
    if isinstance(target, ast.Name):
        out[target.id] = row
        return True
    if isinstance(target, (ast.Tuple, ast.List)) and isinstance(row, (ast.Tuple, ast.List)) and len(target.elts) == len(row.elts) \
            and not any(isinstance(e, ast.Starred) for e in [*target.elts, *row.elts]):
        return all(_destructure(t, r, out) for t, r in zip(target.elts, row.elts))
    return False


def _row_value_ok(e: ast.AST) -> bool:
    """a table cell may be substituted for its loop variable when evaluating it has no effect: names, attribute reads, constants, displays of these"""
    if isinstance(e, ast.Call) and chain(e.func) in _FUNC_OBJECTS and e.args and not any(isinstance(a, ast.Starred) for a in e.args):
        # a pre-bound step `partial(self.endpoint.remove_listener, self)` / `methodcaller("unload")`: building it only records its (effect-free) operands
        return all(_row_value_ok(a) for a in e.args) and all(k.arg is not None and _row_value_ok(k.value) for k in e.keywords)
    return all(isinstance(n, (ast.Name, ast.Attribute, ast.Constant, ast.Tuple, ast.List, ast.expr_context)) for n in ast.walk(e))


class _SubstFold(ast.NodeTransformer):
    """replace loop variables by their table cell and fold what becomes constant: getattr(x, "a") -> x.a, "a" + "b", f"remove_{'relay'}", {..}["k"], (..)[0]"""

    def __init__(self, mapping: dict[str, ast.AST]) -> None:
        self.mapping = mapping

    def visit_Name(self, n: ast.Name):
        if isinstance(n.ctx, ast.Load) and n.id in self.mapping:
            return ast.copy_location(clone(self.mapping[n.id]), n)
        return n

    def visit_Attribute(self, n: ast.Attribute):
        # a field of a record row: `stage.remover` with stage = _Stage(self.circuits, self.remove_circuit)
        if isinstance(n.value, ast.Name) and isinstance(n.ctx, ast.Load) and n.value.id in self.mapping:
            rec = getattr(self.mapping[n.value.id], "_c11_fields", None)
            if rec is not None and n.attr in rec[1]:
                return ast.copy_location(clone(self.mapping[n.value.id].elts[rec[1].index(n.attr)]), n)
        self.generic_visit(n)
        return n

    def visit_Call(self, n: ast.Call):
        self.generic_visit(n)
        if chain(n.func) == "getattr" and len(n.args) == 2 and not n.keywords and isinstance(n.args[1], ast.Constant) and isinstance(n.args[1].value, str) \
                and n.args[1].value.isidentifier():
            return ast.copy_location(ast.Attribute(value=n.args[0], attr=n.args[1].value, ctx=ast.Load()), n)
        if isinstance(n.func, ast.Attribute) and n.func.attr == "get" and isinstance(n.func.value, ast.Dict) and n.args and isinstance(n.args[0], ast.Constant):
            for k, v in zip(n.func.value.keys, n.func.value.values):
                if isinstance(k, ast.Constant) and k.value == n.args[0].value:
                    return v
        if isinstance(n.func, ast.Attribute) and n.func.attr == "format" and isinstance(n.func.value, ast.Constant) and isinstance(n.func.value.value, str) \
                and not n.keywords and all(isinstance(a, ast.Constant) for a in n.args):
            try:
                return ast.copy_location(ast.Constant(value=n.func.value.value.format(*[a.value for a in n.args])), n)
            except Exception:  # noqa: BLE001
                return n
        return n

    def visit_BinOp(self, n: ast.BinOp):
        self.generic_visit(n)
        if isinstance(n.left, ast.Constant) and isinstance(n.right, ast.Constant) and isinstance(n.left.value, str):
            if isinstance(n.op, ast.Add) and isinstance(n.right.value, str):
                return ast.copy_location(ast.Constant(value=n.left.value + n.right.value), n)
            if isinstance(n.op, ast.Mod) and isinstance(n.right.value, (str, int)):
                try:
                    return ast.copy_location(ast.Constant(value=n.left.value % n.right.value), n)
                except Exception:  # noqa: BLE001
                    return n
        return n

    def visit_JoinedStr(self, n: ast.JoinedStr):
        self.generic_visit(n)
        parts = []
        for v in n.values:
            if isinstance(v, ast.Constant) and isinstance(v.value, str):
                parts.append(v.value)
            elif isinstance(v, ast.FormattedValue) and v.conversion == -1 and v.format_spec is None and isinstance(v.value, ast.Constant) \
                    and isinstance(v.value.value, (str, int)):
                parts.append(str(v.value.value))
            else:
                return n
        return ast.copy_location(ast.Constant(value="".join(parts)), n)

    def visit_Subscript(self, n: ast.Subscript):
        self.generic_visit(n)
        if isinstance(n.ctx, ast.Load) and isinstance(n.value, ast.Dict) and isinstance(n.slice, ast.Attribute) and isinstance(n.slice.value, ast.Name) \
                and all(isinstance(k, ast.Attribute) and isinstance(k.value, ast.Name) for k in n.value.keys):
            # a dispatch dict keyed by Enum members / class constants, indexed by one of them
            hits = [v for k, v in zip(n.value.keys, n.value.values) if (k.value.id, k.attr) == (n.slice.value.id, n.slice.attr)]
            if len(hits) == 1 and len({(k.value.id, k.attr) for k in n.value.keys}) == len(n.value.keys):
                return hits[0]
        if isinstance(n.ctx, ast.Load) and isinstance(n.slice, ast.Constant):
            if isinstance(n.value, ast.Dict):
                for k, v in zip(n.value.keys, n.value.values):
                    if isinstance(k, ast.Constant) and k.value == n.slice.value:
                        return v
            if isinstance(n.value, (ast.Tuple, ast.List)) and isinstance(n.slice.value, int) and not any(isinstance(e, ast.Starred) for e in n.value.elts) \
                    and -len(n.value.elts) <= n.slice.value < len(n.value.elts):
                return n.value.elts[n.slice.value]
        return n

    def visit_Expr(self, n: ast.Expr):
        self.generic_visit(n)
        c = n.value
        if isinstance(c, ast.Call) and chain(c.func) == "setattr" and len(c.args) == 3 and not c.keywords and isinstance(c.args[1], ast.Constant) \
                and isinstance(c.args[1].value, str) and c.args[1].value.isidentifier():
            return ast.copy_location(ast.Assign(targets=[ast.Attribute(value=c.args[0], attr=c.args[1].value, ctx=ast.Store())], value=c.args[2]), n)
        return n


def _instantiate(node, mapping: dict[str, ast.AST]):
    return _SubstFold(mapping).visit(clone(node))


def _rebinds(nodes: list[ast.AST], names: set[str]) -> bool:
    return any(isinstance(x, ast.Name) and isinstance(x.ctx, (ast.Store, ast.Del)) and x.id in names for s in nodes for x in ast.walk(s))


def _loop_jumps(body: list[ast.stmt]) -> bool:
    """a break / continue that belongs to the loop whose body this is"""
    stack = list(body)
    while stack:
        n = stack.pop()
        if isinstance(n, (ast.Break, ast.Continue)):
            return True
        if isinstance(n, (ast.For, ast.AsyncFor, ast.While)):
            stack.extend(n.orelse)
            continue
        if isinstance(n, (ast.FunctionDef, ast.AsyncFunctionDef, ast.ClassDef, ast.Lambda)):
            continue
        stack.extend(ast.iter_child_nodes(n))
    return False


class _Unroller(ast.NodeTransformer):
    def __init__(self, ctx: Ctx, fi: FuncInfo) -> None:
        self.ctx, self.fi = ctx, fi
        self.changed = False

    def visit_FunctionDef(self, n):
        if n is not self.root:
            return n
        self.generic_visit(n)
        return n
    visit_AsyncFunctionDef = visit_FunctionDef

    def visit_Lambda(self, n):
        return n

    def run(self, root):
        self.root = root
        return self.visit(root)

    def _maps(self, target: ast.AST, it: ast.AST, scope: list[ast.AST]) -> list[dict] | None:
        rows = _literal_rows(self.ctx, self.fi, it)
        if rows is None or not rows or len(rows) > 16:
            return None
        maps = []
        for r in rows:
            m: dict = {}
            r = _record_row(self.ctx, self.fi, r)
            if not _destructure(target, r, m) or not all(_row_value_ok(v) for v in m.values()):
                return None
            maps.append(m)
        if _rebinds(scope, set(maps[0])):
            return None
        return maps

    # ---- pipelines: a collection that is only built from displays / comprehensions and then iterated once is iterated where it is built
    def _pieces(self, it: ast.AST, depth: int = 0) -> list[tuple[list[ast.comprehension], ast.AST]] | None:
        """
        The elements that iterating over `it` yields, as (generators, element expression) pieces in order, when `it` is assembled in the source from
        displays and comprehensions: `[e for ..]`, `[a, *b]`, `a + b`, chain(a, b), list(a), or a local that is only built by `L = ..`, `L += ..`,
        `L.extend(..)`, `L.append(x)` (the latter also inside plain for-loops) and used nowhere else.  None for anything else (e.g. a table attribute).
        """
        if depth > 4:
            return None
        it = strip_cast(it)
        if isinstance(it, (ast.ListComp, ast.GeneratorExp)):
            return None if any(g.is_async for g in it.generators) else [(list(it.generators), it.elt)]
        if isinstance(it, (ast.List, ast.Tuple)):
            out: list = []
            for e in it.elts:
                if isinstance(e, ast.Starred):
                    sub = self._pieces(e.value, depth + 1)
                    if sub is None:
                        return None
                    out += sub
                else:
                    out.append(([], e))
            return out
        if isinstance(it, ast.BinOp) and isinstance(it.op, ast.Add):
            l, r = self._pieces(it.left, depth + 1), self._pieces(it.right, depth + 1)
            return None if l is None or r is None else l + r
        if isinstance(it, ast.Call) and not it.keywords and chain(it.func) in ("chain", "itertools.chain", "list", "tuple", "iter") and it.args:
            if chain(it.func) in ("list", "tuple", "iter") and len(it.args) != 1:
                return None
            out = []
            for a in it.args:
                sub = self._pieces(a.value if isinstance(a, ast.Starred) else a, depth + 1)
                if sub is None:
                    return None
                out += sub
            return out
        if isinstance(it, ast.Name) and it.id not in self.fi.params():
            return self._built_local(it, depth)
        return None

    def _built_local(self, use: ast.Name, depth: int) -> list | None:
        name = use.id
        mentions = [x for x in ast.walk(self.root) if isinstance(x, ast.Name) and x.id == name and x is not use]
        builders: list[tuple[int, list, ast.AST]] = []
        for x in mentions:
            st = enclosing_stmt(x)
            gens: list[ast.comprehension] = []
            ok = True
            for a in ancestors(st):
                if a is self.root:
                    break
                if isinstance(a, ast.For) and not a.orelse and not _loop_jumps(a.body):
                    gens.insert(0, ast.comprehension(target=a.target, iter=a.iter, ifs=[], is_async=0))
                elif not isinstance(a, ast.With):
                    ok = False
            if not ok:
                return None
            val = None
            if isinstance(st, (ast.Assign, ast.AnnAssign)) and st.value is not None and (st.targets if isinstance(st, ast.Assign) else [st.target]) == [x]:
                val = self._pieces(st.value, depth + 1) if not gens else None
            elif isinstance(st, ast.AugAssign) and st.target is x and isinstance(st.op, ast.Add):
                val = self._pieces(st.value, depth + 1)
            elif isinstance(st, ast.Expr) and isinstance(st.value, ast.Call) and isinstance(st.value.func, ast.Attribute) and st.value.func.value is x \
                    and len(st.value.args) == 1 and not st.value.keywords:
                if st.value.func.attr == "extend":
                    val = self._pieces(st.value.args[0], depth + 1)
                elif st.value.func.attr == "append":
                    val = [([], st.value.args[0])]
            if val is None:
                return None
            builders.append((st.lineno, gens, val))
        if not builders or any(b[0] >= getattr(use, "lineno", 0) for b in builders):
            return None
        out = []
        for _, gens, val in sorted(builders, key=lambda b: b[0]):
            out += [([*gens, *g], e) for g, e in val]
        return out

    def _fusable(self, target: ast.AST, it: ast.AST, scope: list[ast.AST]) -> list[tuple[list[ast.comprehension], dict]] | None:
        # only pipelines of tuples that the consumer takes apart again ((callable, key) / (table, remover, key) work lists): that is where a rule
        # needs to see which callable meets which key; plain element lists stay as they are (a copy may be a deliberate snapshot)
        if not isinstance(target, (ast.Tuple, ast.List)):
            return None
        ps = self._pieces(it)
        if not ps or len(ps) > 24 or not any(g for g, _ in ps) and not isinstance(strip_cast(it), ast.Name):
            return None
        out = []
        used = {x.id for s in scope for x in ast.walk(s) if isinstance(x, ast.Name)}
        for gens, e in ps:
            m: dict = {}
            if not _destructure(target, e, m) or not all(_row_value_ok(v) for v in m.values()):
                return None
            bound = {x.id for g in gens for x in ast.walk(g.target) if isinstance(x, ast.Name)}
            if bound & (used - set(m)):
                return None           # a loop variable of the producer would capture a name of the consumer
            out.append((gens, m))
        if _rebinds(scope, {k for _, m in out for k in m}):
            return None
        return out

    def visit_For(self, n: ast.For):
        self.generic_visit(n)
        if n.orelse or _loop_jumps(n.body):
            return n
        maps = self._maps(n.target, n.iter, n.body)
        if maps is None:
            fused = self._fusable(n.target, n.iter, n.body)
            if fused is None:
                return n
            self.changed = True
            out = []
            for gens, m in fused:
                body = [_instantiate(s, m) for s in n.body]
                for g in reversed(gens):
                    g = clone(g)
                    for cond in reversed(g.ifs):
                        body = [ast.If(test=cond, body=body, orelse=[])]
                    body = [ast.For(target=g.target, iter=g.iter, body=body, orelse=[])]
                    for x in ast.walk(body[0].target):
                        if isinstance(x, ast.Name):
                            x.ctx = ast.Store()
                out += [ast.copy_location(b, n) for b in body]
            return out
        self.changed = True
        # a local that only lives inside the loop body (assigned there, never mentioned outside the loop) is a different variable in every
        # iteration: give each unrolled row its own copy so that it stays a single-assignment local
        inside = {x.id for s in n.body for x in ast.walk(s) if isinstance(x, ast.Name) and isinstance(x.ctx, ast.Store)}
        within = {id(x) for x in ast.walk(n)}
        outside = {x.id for x in ast.walk(self.root) if isinstance(x, ast.Name) and id(x) not in within}
        private = inside - outside - set(maps[0])
        out = []
        for i, m in enumerate(maps):
            for s in n.body:
                s2 = _instantiate(s, m)
                for x in ast.walk(s2):
                    if isinstance(x, ast.Name) and x.id in private:
                        x.id = f"{x.id}@{i}"
                out.append(s2)
        return out

    def _comp(self, n):
        self.generic_visit(n)
        g = n.generators[0]
        if g.ifs or g.is_async:
            return n
        if isinstance(n, ast.GeneratorExp) and not isinstance(parent(n), (ast.Call, ast.Starred)):
            return n
        scope = [n.elt, *[x for gg in n.generators[1:] for x in (gg.target, gg.iter, *gg.ifs)]]
        maps = self._maps(g.target, g.iter, scope)
        if maps is None:
            fused = self._fusable(g.target, g.iter, scope)
            if fused is None:
                return n
            pieces = []
            for gens, m in fused:
                rest = [*[clone(x) for x in gens], *n.generators[1:]]
                if rest:
                    inner = ast.ListComp(elt=n.elt, generators=[clone(x) for x in rest])
                    inner = _instantiate(inner, m)
                    # the producer's own generators keep their variables: only the consumer's element and later generators are instantiated
                    for i, x in enumerate(gens):
                        inner.generators[i] = clone(x)
                    pieces.append(ast.Starred(value=inner, ctx=ast.Load()))
                else:
                    pieces.append(_instantiate(n.elt, m))
            self.changed = True
            new = ast.Set(elts=pieces) if isinstance(n, ast.SetComp) else ast.List(elts=pieces, ctx=ast.Load())
            return ast.copy_location(new, n)
        pieces = []
        for m in maps:
            if len(n.generators) > 1:
                inner = ast.ListComp(elt=n.elt, generators=n.generators[1:])
                pieces.append(ast.Starred(value=_instantiate(inner, m), ctx=ast.Load()))
            else:
                pieces.append(_instantiate(n.elt, m))
        self.changed = True
        new = ast.Set(elts=pieces) if isinstance(n, ast.SetComp) else ast.List(elts=pieces, ctx=ast.Load())
        return ast.copy_location(new, n)

    visit_ListComp = visit_SetComp = visit_GeneratorExp = _comp


# ----------------------------------------------------------------------------------- functional spellings are written out
_FUNC_OBJECTS = {"partial": "partial", "functools.partial": "partial", "methodcaller": "methodcaller", "operator.methodcaller": "methodcaller",
                 "itemgetter": "itemgetter", "operator.itemgetter": "itemgetter", "attrgetter": "attrgetter", "operator.attrgetter": "attrgetter"}
_PIPELINE_CALLS = {"map", "filter", "starmap", "itertools.starmap", "zip", "suppress", "contextlib.suppress", *_FUNC_OBJECTS}


def _arg_ok(e: ast.AST) -> bool:
    """an argument that may be evaluated later / more than once without changing anything: names, attribute reads, constants, displays and starred of these"""
    return all(isinstance(n, (ast.Name, ast.Attribute, ast.Constant, ast.Tuple, ast.List, ast.Starred, ast.expr_context)) for n in ast.walk(e))


class _Desugar(ast.NodeTransformer):
    """
    Writes out what functional spellings do, so that every rule sees the call that is really made:
      partial(f, a, k=v)(x) -> f(a, x, k=v)      methodcaller("m", a)(x) -> x.m(a)      itemgetter(i)(x) -> x[i]      attrgetter("a.b")(x) -> x.a.b
      (lambda p, q=D: E)(x) -> E[p:=x, q:=D]      obj(x) / obj.m(x) for a small helper object built here whose method is one `return E` -> E
      map(F, it) -> (F(v) for v in it)      starmap(F, zip(a, b)) -> (F(v, w) for v, w in zip(a, b))      filter(P, it) -> (v for v in it if P(v))
      zip(repeat(A), it) -> ((A, v) for v in it)      with suppress(E): body -> try: body except E: pass
    also when F / obj is a local that is assigned once to such an expression.  Each rewrite is what Python evaluates (lazily where the original is lazy).
    """

    def __init__(self, ctx: Ctx, fi: FuncInfo) -> None:
        self.ctx, self.fi = ctx, fi
        self.changed = False
        self.n = 0

    def run(self, root):
        self.root = root
        root.body = [x for st in root.body for x in self._stmts(self.visit(st))]
        return root

    @staticmethod
    def _stmts(r):
        return r if isinstance(r, list) else [r]

    def visit_FunctionDef(self, n):
        return n
    visit_AsyncFunctionDef = visit_ClassDef = visit_FunctionDef

    def fresh(self, base: str) -> str:
        self.n += 1
        return f"{base}@{self.n}"

    # ---- what does a callee expression denote?
    def _stable(self, e: ast.AST) -> bool:
        """the names in e keep their value from where e is written to where the callee is applied (parameters / single-assignment locals / globals)"""
        return all(len(local_defs(self.fi, x.id)) <= (0 if x.id in self.fi.params() else 1) for x in ast.walk(e) if isinstance(x, ast.Name))

    def _callee(self, f: ast.AST) -> ast.AST:
        """the functional object / lambda that the callee expression f denotes (through a single-assignment local), else f itself"""
        f = strip_cast(f)
        if isinstance(f, ast.Name):
            d = single_def(self.fi, f.id)
            if d is not None and d[1] is None:
                v = strip_cast(d[0])
                if isinstance(v, ast.Lambda) and self._stable(v):
                    return v
                if isinstance(v, ast.Call) and chain(v.func) in _FUNC_OBJECTS and all(_arg_ok(a) for a in [*v.args, *[k.value for k in v.keywords]]) and self._stable(v):
                    return v
        return f

    def _apply(self, f: ast.AST, args: list[ast.AST], keywords: list[ast.keyword] | None = None) -> ast.AST:
        """the expression that calling f with the given arguments evaluates"""
        call = ast.Call(func=f, args=list(args), keywords=list(keywords or []))
        r = self._rewrite_call(call)
        return r if r is not None else call

    def _rewrite_call(self, n: ast.Call):  # noqa: C901, PLR0911, PLR0912
        f = self._callee(n.func)
        kind = _FUNC_OBJECTS.get(chain(f.func) or "") if isinstance(f, ast.Call) else None
        plain = not n.keywords and not any(isinstance(a, ast.Starred) for a in n.args)
        if kind == "partial" and f.args and not isinstance(f.args[0], ast.Starred) and not n.keywords:
            # partial(g, *A, **K)(*B) is g(*A, *B, **K)
            return self._apply(clone(f.args[0]), [clone(a) for a in [*f.args[1:], *n.args]], [clone(k) for k in f.keywords])
        if kind == "partial" and f.args and not isinstance(f.args[0], ast.Starred) and all(k.arg for k in f.keywords):
            kw = {k.arg: k for k in f.keywords}
            kw.update({k.arg: k for k in n.keywords if k.arg})
            rest = [k for k in n.keywords if not k.arg]
            return self._apply(clone(f.args[0]), [clone(a) for a in [*f.args[1:], *n.args]], [clone(k) for k in [*kw.values(), *rest]])
        if kind == "methodcaller" and f.args and isinstance(f.args[0], ast.Constant) and isinstance(f.args[0].value, str) and plain and len(n.args) == 1:
            return ast.Call(func=ast.Attribute(value=n.args[0], attr=f.args[0].value, ctx=ast.Load()), args=[clone(a) for a in f.args[1:]],
                            keywords=[clone(k) for k in f.keywords])
        if kind == "itemgetter" and f.args and not f.keywords and plain and len(n.args) == 1 and _arg_ok(n.args[0]):
            subs = [ast.Subscript(value=clone(n.args[0]), slice=clone(i), ctx=ast.Load()) for i in f.args]
            return subs[0] if len(subs) == 1 else ast.Tuple(elts=subs, ctx=ast.Load())
        if kind == "attrgetter" and len(f.args) == 1 and isinstance(f.args[0], ast.Constant) and isinstance(f.args[0].value, str) and plain and len(n.args) == 1 \
                and all(p.isidentifier() for p in f.args[0].value.split(".")):
            e = n.args[0]
            for part in f.args[0].value.split("."):
                e = ast.Attribute(value=e, attr=part, ctx=ast.Load())
            return e
        if isinstance(f, ast.Lambda) and plain:
            a = f.args
            ps = [x.arg for x in a.posonlyargs + a.args]
            if a.vararg or a.kwarg or a.kwonlyargs or len(n.args) > len(ps) or len(n.args) < len(ps) - len(a.defaults):
                return None
            vals = [*n.args, *a.defaults[len(a.defaults) - (len(ps) - len(n.args)):]] if len(n.args) < len(ps) else list(n.args)
            if not all(_arg_ok(v) for v in vals) or any(isinstance(x, (ast.Lambda, ast.NamedExpr)) for x in ast.walk(f.body)):
                return None
            return _instantiate(f.body, dict(zip(ps, vals)))
        # a small helper object built in this function, called / asked to act: its method is one `return E`
        tgt = n.func if isinstance(n.func, ast.Name) else n.func.value if isinstance(n.func, ast.Attribute) and isinstance(n.func.value, ast.Name) else None
        if tgt is not None and plain and tgt.id not in ("self", "cls") and tgt.id not in self.fi.params() and single_def(self.fi, tgt.id) is not None:
            bo = _built_object(self.ctx, self.fi, tgt)
            if bo is not None and all(_arg_ok(x) for x in n.args):
                v = _object_method_view(self.ctx, self.fi, bo[0], bo[1], "__call__" if isinstance(n.func, ast.Name) else n.func.attr)
                body = [st for st in v.node.body if not (isinstance(st, ast.Expr) and isinstance(st.value, ast.Constant))] if v is not None else []
                if len(body) == 1 and isinstance(body[0], ast.Return) and body[0].value is not None and not v.is_async and not v.decorator_names():
                    a = v.node.args
                    ps = [x.arg for x in a.posonlyargs + a.args][1:]
                    if not (a.vararg or a.kwarg or a.kwonlyargs or a.defaults) and len(ps) == len(n.args) and \
                            f"self@{bo[1].name}" not in {x.id for x in ast.walk(body[0].value) if isinstance(x, ast.Name)} and \
                            not any(isinstance(x, (ast.Lambda, ast.NamedExpr, ast.Await, *_COMPREHENSIONS)) for x in ast.walk(body[0].value)):
                        return _instantiate(body[0].value, dict(zip(ps, n.args)))
        return None

    def _gen(self, elt_of, iters: list[ast.AST], cond_of=None) -> ast.AST:
        vs = [self.fresh("_v") for _ in iters]
        loads = [ast.Name(id=v, ctx=ast.Load()) for v in vs]
        if len(iters) == 1:
            target, it = ast.Name(id=vs[0], ctx=ast.Store()), iters[0]
        else:
            target = ast.Tuple(elts=[ast.Name(id=v, ctx=ast.Store()) for v in vs], ctx=ast.Store())
            it = ast.Call(func=ast.Name(id="zip", ctx=ast.Load()), args=iters, keywords=[])
        ifs = [cond_of(loads)] if cond_of is not None else []
        return ast.GeneratorExp(elt=elt_of(loads), generators=[ast.comprehension(target=target, iter=it, ifs=ifs, is_async=0)])

    def visit_Call(self, n: ast.Call):  # noqa: C901
        self.generic_visit(n)
        r = self._rewrite_call(n)
        if r is None:
            fn = chain(n.func)
            plain = not n.keywords and not any(isinstance(a, ast.Starred) for a in n.args)
            if fn == "map" and plain and len(n.args) >= 2:
                f = n.args[0]
                r = self._gen(lambda vs: self._apply(clone(f), vs), list(n.args[1:]))
            elif fn in ("starmap", "itertools.starmap") and plain and len(n.args) == 2:
                f, it = n.args
                if isinstance(it, ast.Call) and chain(it.func) == "zip" and it.args and not it.keywords and not any(isinstance(a, ast.Starred) for a in it.args):
                    r = self._gen(lambda vs: self._apply(clone(f), vs), list(it.args))
                elif isinstance(it, ast.GeneratorExp) and isinstance(it.elt, ast.Tuple) and not any(isinstance(x, ast.Starred) for x in it.elt.elts):
                    r = ast.GeneratorExp(elt=self._apply(clone(f), list(it.elt.elts)), generators=it.generators)
                else:
                    r = self._gen(lambda vs: self._apply(clone(f), [ast.Starred(value=vs[0], ctx=ast.Load())]), [it])
            elif fn == "filter" and plain and len(n.args) == 2:
                f = n.args[0]
                keep_truthy = isinstance(f, ast.Constant) and f.value is None
                r = self._gen(lambda vs: vs[0], [n.args[1]], lambda vs: clone(vs[0]) if keep_truthy else self._apply(clone(f), [clone(vs[0])]))
            elif fn == "zip" and plain and len(n.args) >= 2:
                def rep(a):
                    return isinstance(a, ast.Call) and chain(a.func) in ("repeat", "itertools.repeat") and len(a.args) == 1 and not a.keywords and _arg_ok(a.args[0])
                live = [a for a in n.args if not rep(a)]
                if len(live) == 1 and len(n.args) > 1:
                    r = self._gen(lambda vs: ast.Tuple(elts=[clone(a.args[0]) if rep(a) else vs[0] for a in n.args], ctx=ast.Load()), live)
        if r is None:
            return n
        self.changed = True
        return ast.copy_location(r, n)

    def visit_Subscript(self, n: ast.Subscript):
        """`table[key]` where table is a local that is assigned once to a dict display and only ever read by subscript: the display is written in place
        (so that it can be folded once the key is known)"""
        self.generic_visit(n)
        if isinstance(n.ctx, ast.Load) and isinstance(n.value, ast.Name) and n.value.id not in self.fi.params():
            d = single_def(self.fi, n.value.id)
            v = strip_cast(d[0]) if d is not None and d[1] is None else None
            if isinstance(v, ast.Dict) and v.keys and all(k is not None and _arg_ok(k) for k in v.keys) and all(_arg_ok(x) for x in v.values) and self._stable(v):
                uses = [x for x in ast.walk(self.root) if isinstance(x, ast.Name) and x.id == n.value.id and isinstance(x.ctx, ast.Load)]
                if all(isinstance(parent(x), ast.Subscript) and parent(x).value is x and isinstance(parent(x).ctx, ast.Load) for x in uses):
                    self.changed = True
                    n.value = clone(v)
        return n

    def visit_Match(self, n: ast.Match):
        """a `match` that the load-time normaliser left alone because its subject is not a plain name (`match (self._shutdown, self.is_active(name)):`,
        `match self._admit(name):` with class patterns ..): the subject is evaluated into fresh locals first - in the same order - and the cases become
        the if/elif chain that Python executes for them"""
        self.generic_visit(n)
        from ..normalize import _named_fields, _pattern, _simple_arg
        if not hasattr(self, "_fields"):
            self._fields = _named_fields(self.fi.module.tree)
        pre: list[ast.stmt] = []
        subj = n.subject

        def temp(e: ast.AST) -> ast.AST:
            t = self.fresh("_m")
            pre.append(ast.copy_location(ast.Assign(targets=[ast.Name(id=t, ctx=ast.Store())], value=e), n))
            return ast.Name(id=t, ctx=ast.Load())
        if isinstance(subj, ast.Tuple) and not any(isinstance(e, ast.Starred) for e in subj.elts):
            subj = ast.Tuple(elts=[e if _simple_arg(e) else temp(e) for e in subj.elts], ctx=ast.Load())
        elif not _simple_arg(subj):
            subj = temp(subj)
        arms = []
        for c in n.cases:
            r = _pattern(c.pattern, subj, self._fields)
            if r is None or (c.guard is not None and r[1]):
                return n
            cond, caps = r
            if c.guard is not None:
                cond = c.guard if cond is None else ast.BoolOp(op=ast.And(), values=[cond, c.guard])
            arms.append((cond, [ast.copy_location(ast.Assign(targets=[ast.Name(id=k, ctx=ast.Store())], value=v), c.body[0]) for k, v in caps] + c.body))
        chain_: list = []
        for cond, body in reversed(arms):
            chain_ = body if cond is None else [ast.copy_location(ast.If(test=cond, body=body, orelse=chain_), n)]
        self.changed = True
        return [*pre, *chain_] or [ast.copy_location(ast.Pass(), n)]

    def visit_With(self, n: ast.With):
        self.generic_visit(n)
        for i, it in enumerate(n.items):
            c = it.context_expr
            if isinstance(c, ast.Call) and chain(c.func) in ("suppress", "contextlib.suppress") and not c.keywords and c.args and it.optional_vars is None \
                    and not any(isinstance(a, ast.Starred) for a in c.args):
                inner = n.body if i == len(n.items) - 1 else [ast.copy_location(ast.With(items=n.items[i + 1:], body=n.body), n)]
                typ = c.args[0] if len(c.args) == 1 else ast.Tuple(elts=list(c.args), ctx=ast.Load())
                tr = ast.copy_location(ast.Try(body=inner, handlers=[ast.copy_location(ast.ExceptHandler(type=typ, name=None, body=[ast.copy_location(ast.Pass(), n)]), n)],
                                               orelse=[], finalbody=[]), n)
                self.changed = True
                return tr if i == 0 else ast.copy_location(ast.With(items=n.items[:i], body=[tr]), n)
        return n


def _property_views(ctx: Ctx, cls: ClassInfo) -> dict[str, str]:
    """
    `self._holder.field` -> property name, for every read-only @property of the class family whose getter is just `return self._holder.field`
    (a stored attribute that became a view over a small private state-holder object): reading the property IS reading that field, and a store
    into the field is a store into what the property reads.
    """
    memo = ctx.__dict__.setdefault("_c11_propviews", {})
    k = id(cls.node)
    if k in memo:
        return memo[k]
    out: dict[str, str] = {}
    setters = {m.name for c in cls.mro() for m in c.module.all_functions if m.cls is c and any(d.endswith(".setter") or d.endswith(".deleter") for d in m.decorator_names())}
    for c in cls.mro():
        for m in c.methods.values():
            if m.decorator_names() != ["property"] or m.name in setters:
                continue
            body = [st for st in m.node.body if not (isinstance(st, ast.Expr) and isinstance(st.value, ast.Constant))]
            if len(body) != 1 or not isinstance(body[0], ast.Return) or body[0].value is None:
                continue
            v = strip_cast(body[0].value)
            ps = m.params()
            if isinstance(v, ast.Attribute) and isinstance(v.value, ast.Attribute) and isinstance(v.value.value, ast.Name) and ps and v.value.value.id == ps[0] \
                    and v.value.attr.startswith("_") and not v.value.attr.startswith("__"):
                # (the most derived definition of a property name wins; a name defined twice with different fields is not folded)
                key = f"self.{v.value.attr}.{v.attr}"
                if cls.lookup(m.name) is m and key not in out:
                    out[key] = m.name
    memo[k] = out
    return out


def _index_loop_as_for(fn: ast.AST) -> bool:
    """
    `i = 0` / `while i < len(S): .. S[i] .. ; i += 1` over a local sequence S that the loop does not touch  ->  `for S@i in S: .. S@i ..`
    (the same elements in the same order; `break` keeps its meaning).  Rewrites fn in place; True when something changed.
    """
    changed = False
    for blk_owner in list(ast.walk(fn)):
        for field in ("body", "orelse", "finalbody"):
            blk = getattr(blk_owner, field, None)
            if not isinstance(blk, list):
                continue
            for pos, w in enumerate(blk):
                if not (isinstance(w, ast.While) and not w.orelse and pos > 0 and isinstance(w.test, ast.Compare) and len(w.test.ops) == 1):
                    continue
                l, op, r = w.test.left, w.test.ops[0], w.test.comparators[0]
                if isinstance(op, ast.Gt):
                    l, r, op = r, l, ast.Lt()
                if not (isinstance(op, (ast.Lt, ast.NotEq)) and isinstance(l, ast.Name) and isinstance(r, ast.Call) and chain(r.func) == "len" and len(r.args) == 1
                        and isinstance(r.args[0], ast.Name)):
                    continue
                i, seq = l.id, r.args[0].id
                # the counter starts at 0 in the statement(s) right before the loop
                init = next((st for st in reversed(blk[:pos]) if any(isinstance(x, ast.Name) and x.id == i for x in ast.walk(st))), None)
                if not (isinstance(init, ast.Assign) and len(init.targets) == 1 and isinstance(init.targets[0], ast.Name) and init.targets[0].id == i
                        and const_value(init.value) == 0 and not isinstance(const_value(init.value), bool)):
                    continue
                between = blk[blk.index(init) + 1:pos]
                if any(isinstance(x, (ast.While, ast.For, ast.If, ast.Try, ast.With)) for st in between for x in ast.walk(st)):
                    continue
                last = w.body[-1] if w.body else None
                if not (isinstance(last, ast.AugAssign) and isinstance(last.op, ast.Add) and isinstance(last.target, ast.Name) and last.target.id == i
                        and const_value(last.value) == 1 and len(w.body) > 1):
                    continue
                rest = w.body[:-1]
                inner = [x for st in rest for x in ast.walk(st)]
                if any(isinstance(x, ast.Continue) for x in inner) or any(isinstance(x, (ast.FunctionDef, ast.AsyncFunctionDef, ast.Lambda)) for x in inner):
                    continue
                uses_i = [x for x in inner if isinstance(x, ast.Name) and x.id == i]
                subs = [x for x in inner if isinstance(x, ast.Subscript) and isinstance(x.ctx, ast.Load) and isinstance(x.value, ast.Name) and x.value.id == seq
                        and isinstance(x.slice, ast.Name) and x.slice.id == i]
                uses_seq = [x for x in inner if isinstance(x, ast.Name) and x.id == seq]
                if len(uses_i) != len(subs) or len(uses_seq) != len(subs) or not subs:
                    continue
                # the counter is not read after the loop
                after = [x for st in blk[pos + 1:] for x in ast.walk(st) if isinstance(x, ast.Name) and x.id == i]
                if after or blk_owner is not fn and any(isinstance(x, ast.Name) and x.id == i for x in ast.walk(fn)
                                                        if not any(x is y for st in [init, w] for y in ast.walk(st))):
                    continue
                var = f"{seq}@{i}"

                class R(ast.NodeTransformer):
                    def visit_Subscript(self, n: ast.Subscript):
                        if n in subs:
                            return ast.copy_location(ast.Name(id=var, ctx=ast.Load()), n)
                        self.generic_visit(n)
                        return n
                body = [R().visit(st) for st in rest]
                loop = ast.copy_location(ast.For(target=ast.Name(id=var, ctx=ast.Store()), iter=ast.Name(id=seq, ctx=ast.Load()), body=body, orelse=[]), w)
                blk[pos] = loop
                blk.remove(init)
                changed = True
                break
    return changed


def _generator_loops_inlined(ctx: Ctx, fi: FuncInfo, fn: ast.AST) -> bool:       # noqa: C901, PLR0912
    """
    `for x in self._gen(a): BODY` over a plain generator helper of the same object / module  ->  the generator's statements with every `yield E`
    replaced by `x = E; BODY` (and `yield from X` by `for x in X: BODY`): what running the loop does, step by step.  Only when nothing can tell the
    difference: BODY does not break / continue, the generator does not return early, reads no sent values and yields outside try / with.
    Rewrites fn (a copy of fi's node) in place; True when something changed.
    """
    changed = False
    for owner in list(ast.walk(fn)):
        for field in ("body", "orelse", "finalbody"):
            blk = getattr(owner, field, None)
            if not isinstance(blk, list):
                continue
            for pos, loop in enumerate(list(blk)):
                if not (isinstance(loop, ast.For) and not loop.orelse and isinstance(loop.iter, ast.Call)):
                    continue
                call = loop.iter
                f = call.func
                if not (isinstance(f, ast.Name) or (isinstance(f, ast.Attribute) and chain(f.value) in ("self", "cls"))):
                    continue
                if any(isinstance(a, ast.Starred) for a in call.args) or any(kw.arg is None for kw in call.keywords):
                    continue
                try:
                    ts = ctx.repo.resolve_call(fi, call)
                except Exception:  # noqa: BLE001
                    continue
                if len(ts) != 1:
                    continue
                t = ts[0]
                tn = t.node
                if t.is_async or tn.decorator_list or tn is fi.node or tn.args.vararg or tn.args.kwarg:
                    continue
                inner = list(walk_no_nested(tn))
                ys = [x for x in inner if isinstance(x, (ast.Yield, ast.YieldFrom))]
                if not ys or any(isinstance(x, ast.Return) for x in inner) or any(isinstance(x, (ast.FunctionDef, ast.AsyncFunctionDef, ast.Lambda)) and x is not tn for x in ast.walk(tn)):
                    continue
                if not all(isinstance(parent(y), ast.Expr) and not any(isinstance(a, (ast.Try, ast.With, ast.AsyncWith)) for a in ancestors(y) if a is not tn
                                                                         and tn in list(ancestors(a))) for y in ys):
                    continue

                def own_jumps(stmts) -> bool:
                    for st in stmts:
                        if isinstance(st, (ast.Break, ast.Continue)):
                            return True
                        if isinstance(st, (ast.For, ast.While, ast.AsyncFor)):
                            if own_jumps(st.orelse):
                                return True
                            continue
                        for fld in ("body", "orelse", "finalbody"):
                            if own_jumps(getattr(st, fld, None) or []):
                                return True
                        if isinstance(st, ast.Try) and any(own_jumps(h.body) for h in st.handlers):
                            return True
                    return False
                if own_jumps(loop.body) or any(isinstance(x, (ast.Yield, ast.YieldFrom, ast.Await)) for st in loop.body for x in ast.walk(st)):
                    continue
                # bind the generator's parameters
                ps = t.params()
                mapping: dict[str, ast.AST] = {}
                if t.cls is not None and "staticmethod" not in t.decorator_names():
                    if not (isinstance(f, ast.Attribute) and ps and ps[0] == chain(f.value)):
                        continue
                    ps = ps[1:]
                b = _simple_binding(t, call)
                a_ = tn.args
                pos_names = [x.arg for x in a_.posonlyargs + a_.args]
                defaults = dict(zip(pos_names[len(pos_names) - len(a_.defaults):], a_.defaults))
                defaults.update({x.arg: dv for x, dv in zip(a_.kwonlyargs, a_.kw_defaults) if dv is not None})
                ok = True
                for q in ps:
                    v = b.get(q, defaults.get(q))
                    if v is None or not _row_value_ok(v):
                        ok = False
                    else:
                        mapping[q] = v
                stored = {x.id for x in inner if isinstance(x, ast.Name) and isinstance(x.ctx, (ast.Store, ast.Del))}
                if not ok or stored & set(ps) or len(call.args) > len(ps) or any(kw.arg not in ps for kw in call.keywords):
                    continue
                mapping.update({n: ast.Name(id=f"{n}@{t.name}", ctx=ast.Load()) for n in stored})
                target, body = loop.target, loop.body

                class Y(ast.NodeTransformer):
                    def visit_Expr(self, n: ast.Expr):
                        v = n.value
                        if isinstance(v, ast.Yield):
                            val = v.value if v.value is not None else ast.Constant(value=None)
                            return [ast.copy_location(ast.Assign(targets=[clone(target)], value=val), n), *[clone(st) for st in body]]
                        if isinstance(v, ast.YieldFrom):
                            return ast.copy_location(ast.For(target=clone(target), iter=v.value, body=[clone(st) for st in body], orelse=[]), n)
                        return n

                class N(ast.NodeTransformer):
                    def visit_Name(self, n: ast.Name):
                        if n.id in mapping:
                            m = mapping[n.id]
                            if isinstance(m, ast.Name):
                                return ast.copy_location(ast.Name(id=m.id, ctx=n.ctx), n)
                            if isinstance(n.ctx, ast.Load):
                                return ast.copy_location(clone(m), n)
                        return n
                new_body = []
                for st in tn.body:
                    if isinstance(st, ast.Expr) and isinstance(st.value, ast.Constant):
                        continue
                    st = N().visit(clone(st))
                    r = Y().visit(st)
                    new_body.extend(r if isinstance(r, list) else [r])
                i = blk.index(loop)
                blk[i:i + 1] = new_body
                changed = True
    return changed


# ----------------------------------------------------------------------------------- early binding: locals that only name a stable read
def _unstable_attrs(ctx: Ctx) -> tuple[set[str], set[str]]:
    """
    (attribute names that are assigned / deleted anywhere outside an `__init__` through `self` - or through setattr/delattr with a literal name -,
    names that some class defines as a property): reading any OTHER attribute of an initialised object twice gives the same object both times.
    """
    memo = ctx.__dict__.get("_c11_unstable")
    if memo is None:
        from ..model import enclosing_function
        stored: set[str] = set()
        computed: set[str] = set()
        for m in ctx.repo.modules.values():
            for n in ast.walk(m.tree):
                if isinstance(n, ast.Attribute) and isinstance(n.ctx, (ast.Store, ast.Del)):
                    f = enclosing_function(n)
                    if f is None or f.name != "__init__" or not (isinstance(n.value, ast.Name) and f.args.args and n.value.id == f.args.args[0].arg):
                        stored.add(n.attr)
                elif isinstance(n, ast.Call) and chain(n.func) in ("setattr", "delattr", "object.__setattr__") and len(n.args) >= 2:
                    v = const_value(n.args[1])
                    if isinstance(v, str):
                        stored.add(v)
                elif isinstance(n, (ast.FunctionDef, ast.AsyncFunctionDef)) and n.decorator_list:
                    # (a decorated method may be a descriptor that computes on every read: property, cached_property, x.setter ..)
                    dn = {(chain(d.func if isinstance(d, ast.Call) else d) or "?").rsplit(".", 1)[-1] for d in n.decorator_list}
                    if any("property" in x or x in ("setter", "getter", "deleter", "?") for x in dn):
                        computed.add(n.name)
        memo = ctx.__dict__["_c11_unstable"] = (stored, computed)
    return memo


def _family_rebinds(ctx: Ctx, cls: ClassInfo) -> set[str]:
    """attribute names that a method (other than __init__) of the class, its bases or its subclasses assigns / deletes through its own `self`"""
    memo = ctx.__dict__.setdefault("_c11_family_rebinds", {})
    k = id(cls.node)
    if k not in memo:
        fam = {id(c.node) for c in [*cls.mro(), *cls.all_subclasses()]}
        fam |= {id(b.node) for c in cls.all_subclasses() for b in c.mro()}
        out: set[str] = set()
        for f in ctx.repo.all_functions():
            if f.cls is None or id(f.cls.node) not in fam or f.name == "__init__":
                continue
            own = f.params()[0] if f.params() and not isinstance(f.node, ast.Lambda) else None
            for n in ast.walk(f.node):
                if isinstance(n, ast.Attribute) and isinstance(n.ctx, (ast.Store, ast.Del)):
                    # (a store through another name is made on another object - typically one that the method has just built - unless that name is
                    # an alias of self)
                    r = n.value
                    if not isinstance(r, ast.Name) or r.id == own or (own is not None and any(
                            isinstance(v, ast.Name) and v.id == own for _, v, _i in local_defs(f, r.id) if v is not None)):
                        out.add(n.attr)
                elif isinstance(n, ast.Call) and chain(n.func) in ("setattr", "delattr", "object.__setattr__"):
                    v = const_value(n.args[1]) if len(n.args) >= 2 else None
                    out.add(v if isinstance(v, str) else "*")
        memo[k] = out
    return memo[k]


def _stable_read(ctx: Ctx, fi: FuncInfo, e: ast.AST) -> bool:
    """
    e is `obj.a[.b ..]` (obj: `self`, a parameter or a local that is bound once) where no attribute of the chain is computed by a property and
      - none is ever re-assigned after construction (anywhere, through any receiver): a bound method (`self.register_task`, `listener.on_packet`),
        a table / lock created in __init__ (`self._pending_tasks`); or
      - (through `self` only) the object never re-assigns it itself: no method of its class family other than __init__ stores it, nor does this
        function through any receiver (`self.endpoint`, `self.bootstrappers`: set up by whoever builds the object, before it is used).
    Evaluating e once into a local and using the local is then the same as evaluating e at each use.
    """
    parts = []
    while isinstance(e, ast.Attribute):
        parts.append(e.attr)
        e = e.value
    if not parts or not isinstance(e, ast.Name) or isinstance(fi.node, ast.Lambda) or fi.name == "__init__":
        return False
    ps = fi.params()
    own = bool(ps) and e.id == ps[0] and e.id in ("self", "cls") and fi.cls is not None and "staticmethod" not in fi.decorator_names()
    if not own and not (e.id in ps or single_def(fi, e.id) is not None):
        return False
    if not _bound_once(fi.node, e.id):
        return False
    stored, computed = _unstable_attrs(ctx)
    if any(p in computed for p in parts):
        return False
    if not any(p in stored for p in parts):
        return True
    if not own:
        return False
    fam = _family_rebinds(ctx, fi.cls)
    here = {n.attr for n in ast.walk(fi.node) if isinstance(n, ast.Attribute) and isinstance(n.ctx, (ast.Store, ast.Del))}
    return "*" not in fam and not any(p in fam or p in here for p in parts)


def _bound_once(root: ast.AST, name: str) -> bool:
    """`name` is bound exactly once in the whole function `root` (nested scopes included): a parameter never assigned, or a local assigned by one statement"""
    n = 0
    for x in ast.walk(root):
        if isinstance(x, ast.Name) and x.id == name and isinstance(x.ctx, (ast.Store, ast.Del)):
            n += 1
        elif isinstance(x, ast.arg) and x.arg == name:
            n += 1
        elif isinstance(x, (ast.Global, ast.Nonlocal)) and name in x.names:
            return False
        elif isinstance(x, ast.ExceptHandler) and x.name == name:
            n += 1
        elif isinstance(x, (ast.FunctionDef, ast.AsyncFunctionDef, ast.ClassDef)) and x is not root and x.name == name:
            n += 1
        elif isinstance(x, (ast.MatchAs, ast.MatchStar)) and x.name == name:
            n += 1
        elif isinstance(x, ast.MatchMapping) and x.rest == name:
            n += 1
        elif isinstance(x, ast.alias) and (x.asname or x.name.split(".")[0]) == name:
            n += 1
    return n == 1


def _stable_expr(ctx: Ctx, fi: FuncInfo, e: ast.AST, *, func_objects: bool) -> bool:
    """evaluating e anywhere in fi (or later, in a closure of fi) gives what evaluating it where it is written gives"""
    if isinstance(e, ast.Constant):
        return True
    if isinstance(e, ast.Name):
        if e.id in fi.params() or local_defs(fi, e.id) or any(isinstance(x, ast.Name) and x.id == e.id and isinstance(x.ctx, ast.Store) for x in ast.walk(fi.node)):
            return _bound_once(fi.node, e.id)
        return True                  # a module-level function / class / constant
    if isinstance(e, ast.Attribute):
        return _stable_read(ctx, fi, e)
    if isinstance(e, (ast.Tuple, ast.List)):
        return all(_stable_expr(ctx, fi, x, func_objects=False) for x in e.elts)
    if isinstance(e, ast.Starred):
        return _stable_expr(ctx, fi, e.value, func_objects=False)
    if func_objects and isinstance(e, ast.Call) and chain(e.func) in _FUNC_OBJECTS:
        return all(_stable_expr(ctx, fi, a, func_objects=False) for a in [*e.args, *[k.value for k in e.keywords]])
    return False


def _early_bound(ctx: Ctx, fi: FuncInfo, *, closure: bool) -> dict[str, ast.AST]:
    """
    local name -> the expression it stands for, for every local of fi that is bound once to a stable read (`registry = self._pending_tasks`,
    `send, cancel = self.ez_send, self.cancel_pending_task`) - and, for use inside closures of fi (closure=True), to a functional object over
    stable values (`register_replacement = partial(self.register_task, name, *args, **kwargs)`).
    """
    if isinstance(fi.node, ast.Lambda):
        return {}
    out: dict[str, ast.AST] = {}
    seen: set[str] = set()
    for x in walk_no_nested(fi.node):
        if not (isinstance(x, ast.Name) and isinstance(x.ctx, ast.Store)) or x.id in seen or x.id in fi.params():
            continue
        seen.add(x.id)
        d = single_def(fi, x.id)
        if d is None or d[1] is not None:
            continue
        v = strip_cast(d[0])
        if not (isinstance(v, ast.Attribute) or (closure and isinstance(v, ast.Call))):
            continue
        if _bound_once(fi.node, x.id) and _stable_expr(ctx, fi, v, func_objects=closure):
            out[x.id] = v
    return out


class _NameSubst(ast.NodeTransformer):
    def __init__(self, mapping: dict[str, ast.AST]) -> None:
        self.mapping = mapping
        self.changed = False

    def visit_Name(self, n: ast.Name):
        if isinstance(n.ctx, ast.Load) and n.id in self.mapping:
            self.changed = True
            return ast.copy_location(clone(self.mapping[n.id]), n)
        return n


def _enclosing_info(fi: FuncInfo) -> FuncInfo | None:
    """the function in whose body fi (a nested def / lambda) is written"""
    from ..model import enclosing_function
    o = enclosing_function(fi.node)
    if o is None:
        return None
    info = getattr(o, "_info", None)
    if isinstance(info, FuncInfo) and info.node is o:
        return info
    return FuncInfo(o.name, fi.qualname.rsplit(".", 1)[0], o, fi.module, fi.cls)


def _early_bindings_written_out(ctx: Ctx, fi: FuncInfo, node: ast.AST) -> bool:
    """
    Replaces (in `node`, a copy of fi's syntax) every read of an early-bound local by the stable expression it names; in a nested def / lambda also
    the free names that the enclosing function(s) bound once to a stable read or to a partial / methodcaller over stable values.  True when changed.
    """
    def binds(f: ast.AST, k: str) -> bool:
        return any((isinstance(x, ast.Name) and x.id == k and isinstance(x.ctx, (ast.Store, ast.Del))) or (isinstance(x, ast.arg) and x.arg == k) for x in ast.walk(f))
    free: dict[str, ast.AST] = {}
    outer, hops = _enclosing_info(fi), 0
    while outer is not None and hops < 3:
        for k, v in _early_bound(ctx, outer, closure=True).items():
            # (the nested function must see the enclosing function's variable, and every name of the expression must mean there what it means here)
            if k not in free and not binds(fi.node, k) and not any(isinstance(x, ast.Name) and binds(fi.node, x.id) for x in ast.walk(v)):
                free[k] = v
        outer, hops = _enclosing_info(outer), hops + 1
    changed = False
    cur = fi
    for _ in range(3):
        mapping = {**free, **_early_bound(ctx, cur, closure=False)}
        if not mapping:
            break
        sub = _NameSubst(mapping)
        if isinstance(node.body, list):
            node.body = [sub.visit(st) for st in node.body]
        else:
            node.body = sub.visit(node.body)
        if not sub.changed:
            break
        changed = True
        ast.fix_missing_locations(node)
        set_parents(node)
        cur = FuncInfo(fi.name, fi.qualname, node, fi.module, fi.cls)
    return changed


def _prepass(ctx: Ctx, fi: FuncInfo) -> FuncInfo:
    """behaviour-preserving respellings applied before the rules look at a function: property views over a state holder, index loops"""
    if isinstance(fi.node, ast.Lambda):
        if _enclosing_info(fi) is None:
            return fi
        node = clone(fi.node)
        set_parents(node)
        if not _early_bindings_written_out(ctx, fi, node):
            return fi
        return FuncInfo(fi.name, fi.qualname, node, fi.module, fi.cls)
    props = _property_views(ctx, fi.cls) if fi.cls is not None and "property" not in fi.decorator_names() else {}
    hit = props and any(isinstance(x, ast.Attribute) and chain(x) in props for x in ast.walk(fi.node))
    loops = any(isinstance(x, ast.While) for x in walk_no_nested(fi.node))
    gens = any(isinstance(x, ast.For) and isinstance(x.iter, ast.Call) and (isinstance(x.iter.func, ast.Name) or chain(getattr(x.iter.func, "value", None)) in ("self", "cls"))
               and call_name(x.iter) not in (*_SNAPSHOT_CTORS, "range", "enumerate", "zip", "reversed", "iter", "map", "filter") for x in walk_no_nested(fi.node))
    early = bool(_early_bound(ctx, fi, closure=False)) or (_enclosing_info(fi) is not None and any(
        isinstance(x, ast.Name) and isinstance(x.ctx, ast.Load) and x.id not in fi.params() and not local_defs(fi, x.id) for x in ast.walk(fi.node)))
    if not hit and not loops and not gens and not early:
        return fi
    node = clone(fi.node)
    changed = False
    if early:
        set_parents(node)
        if _early_bindings_written_out(ctx, fi, node):
            changed = True
    if hit:
        class P(ast.NodeTransformer):
            def visit_Attribute(self, n: ast.Attribute):
                c = chain(n)
                if c in props:
                    nonlocal changed
                    changed = True
                    return ast.copy_location(ast.Attribute(value=ast.Name(id="self", ctx=ast.Load()), attr=props[c], ctx=n.ctx), n)
                self.generic_visit(n)
                return n
        node = P().visit(node)
    if loops and _index_loop_as_for(node):
        changed = True
    if gens:
        set_parents(node)
        if _generator_loops_inlined(ctx, fi, node):
            changed = True
    if not changed:
        return fi
    ast.fix_missing_locations(node)
    set_parents(node)
    view = FuncInfo(fi.name, fi.qualname, node, fi.module, fi.cls)
    if getattr(fi, "_c11_obj", None) is not None:
        view._c11_obj = fi._c11_obj      # noqa: SLF001
    return view


def U(ctx: Ctx, fi: FuncInfo) -> FuncInfo:
    """
    The function as the rules look at it: loops and comprehensions over a table that is written out in the source (dispatch tuples of
    (table, remover), attribute-name tuples with getattr/setattr, zip/enumerate/dict.items() of displays) are unrolled row by row, which is
    what executing them does.  Returns fi itself when there is nothing to unroll.
    """
    views = getattr(ctx, "_c11_views", None)
    if views is None:
        views = ctx._c11_views = {}      # noqa: SLF001
    k = id(fi.node)
    hit = views.get(k)
    if hit is not None and hit[0] is fi.node:
        return hit[1]
    orig = fi
    dv = _decorated_view(ctx, fi) if not isinstance(fi.node, ast.Lambda) and fi.node.decorator_list else None
    if dv is not None:
        fi = dv
        if getattr(orig, "_c11_obj", None) is not None:
            fi._c11_obj = orig._c11_obj      # noqa: SLF001
    fi = _prepass(ctx, fi)
    view = fi
    if not isinstance(fi.node, ast.Lambda) and any(isinstance(x, (ast.For, ast.Match, *_COMPREHENSIONS)) or (isinstance(x, ast.Call) and chain(x.func) in _PIPELINE_CALLS) or
                                                   (isinstance(x, ast.Call) and isinstance(x.func, (ast.Lambda, ast.Call))) or
                                                   (isinstance(x, ast.Call) and isinstance(x.func, ast.Name) and x.func.id not in fi.params() and single_def(fi, x.func.id) is not None) or
                                                   (isinstance(x, ast.Call) and isinstance(x.func, ast.Attribute) and isinstance(x.func.value, ast.Name)
                                                    and x.func.value.id not in ("self", "cls") and x.func.value.id not in fi.params() and single_def(fi, x.func.value.id) is not None
                                                    and _built_object(ctx, fi, x.func.value) is not None)
                                                   for x in walk_no_nested(fi.node)):
        cur = fi
        for _ in range(4):
            new = clone(cur.node)
            set_parents(new)
            tmp = FuncInfo(fi.name, fi.qualname, new, fi.module, fi.cls)
            ds = _Desugar(ctx, tmp)
            new = ds.run(new)
            if ds.changed:
                ast.fix_missing_locations(new)
                set_parents(new)
                tmp = FuncInfo(fi.name, fi.qualname, new, fi.module, fi.cls)
            un = _Unroller(ctx, tmp)
            new = un.run(new)
            if not un.changed and not ds.changed:
                break
            ast.fix_missing_locations(new)
            set_parents(new)
            cur = view = FuncInfo(fi.name, fi.qualname, new, fi.module, fi.cls)
            # per-row copies of loop-local aliases (`remover@0 = self.remove_circuit`) are replaced by what they stand for
            alias = {}
            for x in walk_no_nested(new):
                if isinstance(x, ast.Name) and isinstance(x.ctx, ast.Store) and "@" in x.id and x.id not in alias:
                    d = single_def(view, x.id)
                    if d is not None and d[1] is None and _row_value_ok(d[0]):
                        alias[x.id] = d[0]
            if alias:
                new = _SubstFold(alias).visit(new)
                ast.fix_missing_locations(new)
                set_parents(new)
                cur = view = FuncInfo(fi.name, fi.qualname, new, fi.module, fi.cls)
    if view is not fi and getattr(fi, "_c11_obj", None) is not None:
        view._c11_obj = fi._c11_obj      # noqa: SLF001
    views[k] = (orig.node, view)
    if view is not orig:
        views[id(view.node)] = (view.node, view)        # (a view is its own view)
    return view


# ----------------------------------------------------------------------------------- functions behind a small pass-through decorator
def _ends_flow(stmts: list[ast.stmt]) -> bool:
    """no execution of the statement list falls off its end"""
    for st in stmts:
        if isinstance(st, (ast.Return, ast.Raise)):
            return True
        if isinstance(st, ast.If) and st.orelse and _ends_flow(st.body) and _ends_flow(st.orelse):
            return True
        if isinstance(st, (ast.With, ast.AsyncWith)) and _ends_flow(st.body) and not any(
                isinstance(i.context_expr, ast.Call) and call_name(i.context_expr) == "suppress" for i in st.items):
            return True
        if isinstance(st, ast.Try) and (_ends_flow(st.finalbody) or (_ends_flow(st.body + st.orelse) and all(_ends_flow(h.body) for h in st.handlers))):
            return True
    return False


def _decorated_view(ctx: Ctx, t: FuncInfo) -> FuncInfo | None:      # noqa: C901, PLR0911, PLR0912, PLR0915
    """
    What the name of a function decorated with ONE repository decorator `@d` / `@d(args)` denotes, when the wrapper that d returns only puts
    something AROUND a pass-through call of the function in tail position (`return func(self, *args, **kwargs)`, `return await func(..)`, also
    inside `with <lock>:` / `try:` / under a guard that returns early): the wrapper's statements with that return replaced by the function's body,
    under the function's own signature.  Executing the decorated name executes exactly this.  None when the decorator does anything else with
    the function (schedules it, changes its arguments, uses its result, calls it twice): such a function stays opaque to the rules.
    """
    views = ctx.__dict__.setdefault("_c11_decviews", {})
    k = id(t.node)
    if k in views and views[k][0] is t.node:
        return views[k][1]
    views[k] = (t.node, None)
    if isinstance(t.node, ast.Lambda) or len(t.node.decorator_list) != 1:
        return None
    d = t.node.decorator_list[0]
    dcall = d if isinstance(d, ast.Call) else None
    dfun = d.func if dcall is not None else d
    if not isinstance(dfun, ast.Name):
        return None
    D = ctx.repo.resolve_name(t.module, dfun.id)
    if not isinstance(D, FuncInfo) or D.is_async or D.node.decorator_list:
        return None

    def returned_def(f: FuncInfo) -> FuncInfo | None:
        rets = [r for r in walk_no_nested(f.node) if isinstance(r, ast.Return)]
        if len(rets) != 1 or rets[0].value is None or any(isinstance(x, (ast.Yield, ast.YieldFrom)) for x in walk_no_nested(f.node)):
            return None
        v = strip_cast(rets[0].value)
        g = _nested_defs(f).get(v.id) if isinstance(v, ast.Name) else None
        # (the returned wrapper is defined at the top level of the decorator: its definition is not conditional)
        return g if g is not None and any(st is g.node for st in f.node.body) else None
    outer_subst: dict[str, ast.AST] = {}
    deco = D
    if dcall is not None:
        # `@d(a, b)`: d is a factory; its parameters stand for the (constant) arguments written at the decoration site
        if any(isinstance(a, ast.Starred) for a in dcall.args) or any(kw.arg is None for kw in dcall.keywords) or D.node.args.vararg or D.node.args.kwarg:
            return None
        ps = D.params()
        given = dict(zip(ps, dcall.args))
        given.update({kw.arg: kw.value for kw in dcall.keywords})
        a = D.node.args
        pos = [x.arg for x in a.posonlyargs + a.args]
        defaults = dict(zip(pos[len(pos) - len(a.defaults):], a.defaults))
        defaults.update({x.arg: dv for x, dv in zip(a.kwonlyargs, a.kw_defaults) if dv is not None})
        if len(dcall.args) > len(pos) or any(kk not in ps for kk in given):
            return None
        for q in ps:
            v = given.get(q, defaults.get(q))
            if v is None or not isinstance(strip_cast(v), ast.Constant):
                return None
            outer_subst[q] = strip_cast(v)
        deco = returned_def(D)
        if deco is None or deco.is_async or deco.node.decorator_list:
            return None
    dps = deco.params()
    if len(dps) != 1:
        return None
    fname = dps[0]
    W = returned_def(deco)
    if W is None or W.is_async != t.is_async:
        return None
    wdecs = [chain(x.func) if isinstance(x, ast.Call) else chain(x) for x in W.node.decorator_list]
    if any(x not in ("wraps", "functools.wraps") for x in wdecs):
        return None
    if any(isinstance(x, (ast.Yield, ast.YieldFrom)) for x in [*walk_no_nested(W.node), *walk_no_nested(t.node)]):
        return None
    # everything between the decorator's entry and `return wrapper` must be the wrapper's definition (nothing else is computed per decoration)
    for f in ([D, deco] if deco is not D else [D]):
        for st in f.node.body:
            if not (isinstance(st, (ast.FunctionDef, ast.AsyncFunctionDef, ast.Return, ast.Pass)) or
                    (isinstance(st, ast.Expr) and isinstance(st.value, ast.Constant))):
                return None
    # exactly one use of the function: the pass-through call, as `return func(..)` / `return await func(..)`
    uses = [x for x in ast.walk(W.node) if isinstance(x, ast.Name) and x.id == fname and x not in
            [y for dd in W.node.decorator_list for y in ast.walk(dd)]]
    if len(uses) != 1 or any(isinstance(x, (ast.FunctionDef, ast.AsyncFunctionDef, ast.Lambda)) and x is not W.node for x in ast.walk(W.node)):
        return None
    call = parent(uses[0])
    if not (isinstance(call, ast.Call) and call.func is uses[0]):
        return None
    holder = parent(call)
    if t.is_async:
        if not isinstance(holder, ast.Await):
            return None
        holder = parent(holder)
    if not isinstance(holder, ast.Return):
        return None
    # pass-through: every parameter of the wrapper goes, unchanged and in order, to the parameter of the function at the same place
    wa, ta = W.node.args, t.node.args
    if wa.defaults or wa.kw_defaults or wa.kwonlyargs or wa.posonlyargs or ta.posonlyargs:
        return None
    wpos = [x.arg for x in wa.args]
    tpos = [x.arg for x in ta.args]
    rename: dict[str, str] = {}
    args = list(call.args)
    star = None
    if args and isinstance(args[-1], ast.Starred):
        star = args.pop()
    if [a.id if isinstance(a, ast.Name) else None for a in args] != wpos or len(wpos) > len(tpos):
        return None
    for w_, t_ in zip(wpos, tpos):
        rename[w_] = t_
    if (wa.vararg is not None) != (star is not None) or (star is not None and chain(star.value) != wa.vararg.arg):
        return None
    kws = list(call.keywords)
    if wa.kwarg is not None:
        if len(kws) != 1 or kws[0].arg is not None or chain(kws[0].value) != wa.kwarg.arg:
            return None
    elif kws:
        return None
    hidden = {x for x in ([wa.vararg.arg] if wa.vararg else []) + ([wa.kwarg.arg] if wa.kwarg else [])}
    # the wrapper may not look into *args / **kwargs (they have no name in the function's own signature)
    inside_call = {id(y) for y in ast.walk(call)}
    if any(isinstance(x, ast.Name) and x.id in hidden and id(x) not in inside_call for x in ast.walk(W.node)):
        return None
    # the wrapper may not rebind what it passes on
    if any(isinstance(x, ast.Name) and isinstance(x.ctx, (ast.Store, ast.Del)) and (x.id in wpos or x.id in hidden) for x in ast.walk(W.node)):
        return None
    tnames = {x.id for x in ast.walk(t.node) if isinstance(x, ast.Name)} | set(t.params())
    wlocals = {x.id for x in ast.walk(W.node) if isinstance(x, ast.Name) and isinstance(x.ctx, (ast.Store, ast.Del))} | \
        {h.name for h in ast.walk(W.node) if isinstance(h, ast.ExceptHandler) and h.name}
    for n in wlocals:
        if n in tnames or n in rename.values():
            rename[n] = f"{n}@{dfun.id}"
    if any(isinstance(x, ast.Name) and x.id in outer_subst and x.id in wlocals for x in ast.walk(W.node)):
        return None
    wnode = clone(W.node)
    set_parents(wnode)
    target_ret = None
    for x, y in zip(ast.walk(W.node), ast.walk(wnode)):
        if x is holder:
            target_ret = y
    if target_ret is None:
        return None

    class S(ast.NodeTransformer):
        def visit_Name(self, n: ast.Name):
            if n.id in rename:
                n.id = rename[n.id]
            elif n.id in outer_subst and isinstance(n.ctx, ast.Load):
                return ast.copy_location(clone(outer_subst[n.id]), n)
            return n

        def visit_ExceptHandler(self, n: ast.ExceptHandler):
            if n.name in rename:
                n.name = rename[n.name]
            self.generic_visit(n)
            return n

        def visit_Return(self, n: ast.Return):
            if n is target_ret:
                body = [clone(st) for st in t.node.body]
                if not _ends_flow(body):
                    body.append(ast.copy_location(ast.Return(value=None), n))     # (`return func(..)` returns also when the body falls off its end)
                return body
            self.generic_visit(n)
            return n
    body = []
    for st in wnode.body:
        r = S().visit(st)
        body.extend(r if isinstance(r, list) else [r])
    node = clone(t.node)
    node.decorator_list = []
    node.body = body
    ast.fix_missing_locations(node)
    set_parents(node)
    view = FuncInfo(t.name, t.qualname, node, t.module, t.cls)
    if getattr(t, "_c11_obj", None) is not None:
        view._c11_obj = t._c11_obj      # noqa: SLF001
    views[k] = (t.node, view)
    views[id(node)] = (node, None)
    return view


# ----------------------------------------------------------------------------------- callables handed over as callbacks
def _nested_defs(fi: FuncInfo) -> dict[str, FuncInfo]:
    return {g.name: g for g in fi.module.all_functions if g.qualname.rsplit(".", 1)[0] == fi.qualname and g.node is not fi.node}


def _ctor_field_map(ctx: Ctx, fi: FuncInfo, cls: ClassInfo, ctor: ast.Call) -> dict[str, ast.AST] | None:
    """
    field -> constructor argument (an expression of fi) for the fields of the object `Cls(..)` built by `ctor` that hold exactly what was passed in:
    `self.<field> = <parameter>` at the top level of __init__ (or a NamedTuple / dataclass field), never rebound by any method of the class.
    None when the arguments cannot be matched to parameters.
    """
    if any(isinstance(a, ast.Starred) for a in ctor.args) or any(k.arg is None for k in ctor.keywords):
        return None
    init = cls.lookup("__init__")
    pairs: list[tuple[str, str]] = []          # (field, parameter)
    defaults: dict[str, ast.AST] = {}
    if init is None:
        rf = _record_fields(ctx, cls)
        if rf is None:
            return None
        params = [f for f, _ in rf[1]]
        pairs = [(f, f) for f in params]
        defaults = {f: d for f, d in rf[1] if d is not None}
    else:
        a = init.node.args
        if a.vararg or a.kwarg or init.decorator_names():
            return None
        ps = init.params()
        params = ps[1:]
        pos = [p.arg for p in a.posonlyargs + a.args]
        defaults = dict(zip(pos[len(pos) - len(a.defaults):], a.defaults))
        defaults.update({p.arg: d for p, d in zip(a.kwonlyargs, a.kw_defaults) if d is not None})
        stored = [x.id for x in ast.walk(init.node) if isinstance(x, ast.Name) and isinstance(x.ctx, (ast.Store, ast.Del))]
        for st in init.node.body:
            tgt = st.targets[0] if isinstance(st, ast.Assign) and len(st.targets) == 1 else st.target if isinstance(st, ast.AnnAssign) else None
            val = strip_cast(st.value) if getattr(st, "value", None) is not None else None
            if isinstance(tgt, ast.Attribute) and chain(tgt.value) == ps[0] and isinstance(val, ast.Name) and val.id in params and val.id not in stored:
                pairs.append((tgt.attr, val.id))
    given: dict[str, ast.AST] = {}
    for p, x in zip(params, ctor.args):
        given[p] = x
    if len(ctor.args) > len(params):
        return None
    for k in ctor.keywords:
        if k.arg not in params or k.arg in given:
            return None
        given[k.arg] = k.value
    counts: dict[str, int] = {}
    for m in cls.methods.values():
        for x in ast.walk(m.node):
            if isinstance(x, ast.Attribute) and isinstance(x.ctx, (ast.Store, ast.Del)):
                counts[x.attr] = counts.get(x.attr, 0) + 1
    out: dict[str, ast.AST] = {}
    for f, p in pairs:
        if counts.get(f, 0) > (1 if init is not None else 0):
            continue                     # rebound somewhere: not a captured value
        v = given.get(p, defaults.get(p))
        if v is not None and _row_value_ok(v) and (p in given or isinstance(v, ast.Constant)):
            out[f] = v
    return out


def _object_method_view(ctx: Ctx, fi: FuncInfo, ctor: ast.Call, cls: ClassInfo, meth: str, _fields: dict | None = None) -> FuncInfo | None:
    """
    The method `meth` of the small object that `ctor` (a call `Cls(..)` in fi) builds, written as the closure it replaces: every read of a field
    that just holds a constructor argument is replaced by that argument (an expression of fi), the object itself is called `self@Cls`.
    `_Handover(self, name, args, kwargs).__call__` thus reads `self.register_task(name, *args, **kwargs)`, like the nested def it stands for.
    """
    m = cls.lookup(meth)
    if m is None or [d for d in m.decorator_names() if d != "staticmethod"]:
        return None
    views = getattr(ctx, "_c11_objviews", None)
    if views is None:
        views = ctx._c11_objviews = {}   # noqa: SLF001
    key = (id(ctor), id(m.node))
    if key in views:
        return views[key]
    views[key] = None
    fields = _fields if _fields is not None else _ctor_field_map(ctx, fi, cls, ctor)
    if fields is None:
        return None
    node = clone(m.node)
    ps = m.params()
    own = ps[0] if ps and "staticmethod" not in m.decorator_names() else None
    outer = {x.id for v in fields.values() for x in ast.walk(v) if isinstance(x, ast.Name)}
    inner = {x.id for x in ast.walk(node) if isinstance(x, ast.Name) and isinstance(x.ctx, (ast.Store, ast.Del))} | set(ps)
    rename = {n: f"{n}@{m.name}" for n in (outer & inner) if n != own}
    obj = f"self@{cls.name}"

    class S(ast.NodeTransformer):
        def visit_Attribute(self, n: ast.Attribute):
            if isinstance(n.value, ast.Name) and n.value.id == own and isinstance(n.ctx, ast.Load) and n.attr in fields:
                return ast.copy_location(clone(fields[n.attr]), n)
            self.generic_visit(n)
            return n

        def visit_Name(self, n: ast.Name):
            if n.id == own:
                n.id = obj
            elif n.id in rename:
                n.id = rename[n.id]
            return n

        def visit_arg(self, n: ast.arg):
            if n.arg == own:
                n.arg = obj
            elif n.arg in rename:
                n.arg = rename[n.arg]
            return n
    node = S().visit(node)
    ast.fix_missing_locations(node)
    set_parents(node)
    view = FuncInfo(m.name, m.qualname, node, m.module, fi.cls)
    view._c11_obj = (cls, fields, fi, ctor)      # noqa: SLF001
    views[key] = view
    return view


def _built_object(ctx: Ctx, fi: FuncInfo, e: ast.AST) -> tuple[ast.Call, ClassInfo] | None:
    """(constructor call, class) when e (in fi) is an object of a repository class built right here: `Cls(..)` or a local that only holds that"""
    e = resolve(fi, e)
    if isinstance(e, ast.Call):
        cls = ctx.repo.resolve_class_expr(fi.module, e.func)
        if cls is not None:
            return e, cls
    return None


def _callback_targets(ctx: Ctx, fi: FuncInfo, expr: ast.AST, _depth: int = 0) -> list[tuple[FuncInfo, str | None]]:
    """
    The functions that run when the callable `expr` (evaluated in fi) is later called with ONE argument, each with the name of the parameter
    that receives that argument: a nested def, a lambda (analysed as a function), a bound method, functools.partial(f, a, b), or the result of
    a factory (`self._make_done_callback(name, ignore)` returning any of these).
    """
    if _depth > 4 or expr is None:
        return []
    expr = resolve(fi, expr)
    if isinstance(expr, ast.Name):
        g = _nested_defs(fi).get(expr.id)
        if g is not None:
            ps = g.params()
            return [(g, ps[0] if ps else None)]
        r = ctx.repo.resolve_name(fi.module, expr.id)
        if isinstance(r, FuncInfo):
            ps = r.params()
            return [(r, ps[0] if ps else None)]
        return []
    if isinstance(expr, ast.Lambda):
        a = expr.args
        ps = [x.arg for x in a.posonlyargs + a.args]
        lam = FuncInfo("<lambda>", fi.qualname + ".<lambda>", expr, fi.module, fi.cls)
        return [(lam, ps[0] if ps else None)]
    if isinstance(expr, ast.Attribute) and chain(expr.value) not in ("self", "cls"):
        # a bound method of a small helper object built here: `handover.fire` with handover = _Handover(self, name, ..)
        bo = _built_object(ctx, fi, expr.value)
        v = _object_method_view(ctx, fi, bo[0], bo[1], expr.attr) if bo is not None else None
        if v is not None:
            ps = v.params()
            i = 0 if "staticmethod" in v.decorator_names() else 1
            return [(v, ps[i] if len(ps) > i else None)]
        return []
    if isinstance(expr, ast.Attribute) and chain(expr.value) in ("self", "cls") and fi.cls is not None:
        out = []
        for m in ctx.repo.dispatch(fi.cls, expr.attr):
            ps = m.params()
            static = "staticmethod" in m.decorator_names()
            i = 0 if static else 1
            out.append((m, ps[i] if len(ps) > i else None))
        return out
    if isinstance(expr, ast.Call):
        bo = _built_object(ctx, fi, expr)
        if bo is not None:
            # an instance of a small callable class replaces a closure: what runs is its __call__, with the captured state read from its fields
            v = _object_method_view(ctx, fi, bo[0], bo[1], "__call__")
            if v is None:
                return []
            ps = v.params()
            return [(v, ps[1] if len(ps) > 1 else None)]
        if call_name(expr) == "partial" and expr.args:
            out = []
            for t, p in _callback_targets(ctx, fi, expr.args[0], _depth + 1):
                ps = t.params()
                if p is None or p not in ps:
                    out.append((t, None))
                    continue
                kw = {k.arg for k in expr.keywords}
                free = [q for q in ps[ps.index(p):] if q not in kw]
                n = len(expr.args) - 1
                out.append((t, free[n] if len(free) > n else None))
            return out
        out = []
        for t in _helper_targets(ctx, fi, expr):
            for r in walk_no_nested(t.node):
                if isinstance(r, ast.Return) and r.value is not None:
                    out.extend(_callback_targets(ctx, t, r.value, _depth + 1))
        return out
    return []


def _is_super_unload(fi: FuncInfo, x: ast.Call) -> bool:
    return isinstance(x.func, ast.Attribute) and x.func.attr == "unload" and isinstance(x.func.value, ast.Call) and chain(x.func.value.func) == "super"


def _performing_calls(ctx: Ctx, fi: FuncInfo, is_step, depth: int = 2, _stack: tuple = ()) -> list[ast.Call]:
    """
    Calls in fi that perform a step when they complete normally: the step itself (is_step(fi, call)), or a call to a helper of the same
    object (awaited when it is a coroutine) in which every normal path performs the step.  `await super().unload()` that moved into
    `await self._unload_base()` is still found.
    """
    out = []
    for c in calls(fi):
        if is_step(fi, c):
            out.append(c)
        elif depth > 0:
            ts = [t for t in _helper_targets(ctx, fi, c) if id(t.node) not in _stack]
            if ts and all(_always_performs(ctx, t, is_step, depth - 1, (*_stack, id(fi.node))) for t in ts):
                out.append(c)
    return out


def _always_performs(ctx: Ctx, fi: FuncInfo, is_step, depth: int = 1, _stack: tuple = ()) -> bool:
    v = U(ctx, fi)
    steps = _performing_calls(ctx, v, is_step, depth, _stack)
    if not steps:
        return False
    cfg = ctx.cfg(v)
    return cfg.exit not in cfg.reach(cut_nodes=[n for s in steps for n in cfg.nodes_for(s)], follow_exc=False)


def _awaited_step(pred):
    """is_step for steps that are coroutines: the call must be awaited"""
    return lambda fi, c: pred(fi, c) and _awaited(c)


def rule_super_chain(ctx: Ctx) -> None:
    n = 0
    for c in overlay_classes(ctx):
        fi = c.methods.get("unload")
        if fi is None or c.name == "Overlay":
            continue
        n += 1
        fi = U(ctx, fi)
        cfg = ctx.cfg(fi)
        raw = [x for x in calls(fi) if _is_super_unload(fi, x)]
        sup = _performing_calls(ctx, fi, _awaited_step(_is_super_unload))
        ok = bool(sup) and all(_awaited(s) for s in raw) and fi.is_async
        sn = [nn for s in sup for nn in cfg.nodes_for(s)]
        ok = ok and cfg.exit not in cfg.reach(cut_nodes=sn, follow_exc=False)
        ctx.check(ok, "super-chain", fi, fi.node, f"{c.name}.unload awaits super().unload() on every normal path",
                  f"{c.name}.unload can finish without (awaiting) super().unload(): listener and tasks of the base classes stay alive")
    ctx.floor("super-chain", n, 5)
    ou = U(ctx, ctx.repo.method("Overlay", "unload", "ipv8/overlay.py"))
    cfg = ctx.cfg(ou)
    rl = _performing_calls(ctx, ou, lambda f, x: rchain(f, x.func) == "self.endpoint.remove_listener" and chain(arg(x, 0)) == "self")
    st = _performing_calls(ctx, ou, lambda f, x: rchain(f, x.func) == "self.shutdown_task_manager")
    raw = [x for x in calls(ou, "self.shutdown_task_manager")]
    ok = bool(rl) and bool(st) and all(_awaited(s) for s in [*st, *raw])
    if ok:
        # (both steps may have moved, together or apart, into helpers / a small helper object: the order is judged where they meet)
        ok = _must_precede(ctx, ou, lambda f: [x for x in calls(f) if rchain(f, x.func) == "self.endpoint.remove_listener" and chain(arg(x, 0)) == "self"],
                           lambda f: [x for x in calls(f) if rchain(f, x.func) == "self.shutdown_task_manager"]) is True and \
            cfg.exit not in cfg.reach(cut_nodes=[nn for s in st for nn in cfg.nodes_for(s)], follow_exc=False)
    ctx.check(ok, "super-chain", ou, ou.node, "Overlay.unload: remove_listener(self) then await shutdown_task_manager() on every path",
              "Overlay.unload does not stop listening before (or does not) shut its task manager down")
    cu = U(ctx, ctx.repo.method("Community", "unload", "ipv8/community.py"))
    ok = False
    for links in _sites_through(ctx, cu, lambda f: [x for x in calls(U(ctx, f)) if isinstance(x.func, ast.Attribute) and x.func.attr == "unload"
                                                     and not _is_super_unload(f, x)], depth=1):
        h, x = links[-1]
        if _unloads_every_bootstrapper(U(ctx, h), x) and (len(links) == 1 or _unconditional(ctx, cu, links[0][1])):
            ok = True
    ctx.check(ok, "super-chain", cu, cu.node, "Community.unload unloads every bootstrapper", "bootstrappers are not unloaded")


def _always_has_site(ctx: Ctx, fi: FuncInfo, finder, depth: int = 1, _stack: tuple = ()) -> list[ast.AST]:
    """
    Nodes of fi whose normal completion means that a site of `finder` has been executed: the sites themselves, and calls to helpers of the same
    object (awaited when coroutines) in which every normal path executes one.
    """
    out = list(finder(fi))
    if depth > 0:
        for c in calls(fi):
            ts = [t for t in _helper_targets(ctx, fi, c) if id(t.node) not in _stack]
            if not ts:
                continue
            ok = True
            for t in ts:
                tv = U(ctx, t)
                inner = _always_has_site(ctx, tv, finder, depth - 1, (*_stack, id(fi.node)))
                cfg = ctx.cfg(tv)
                if not inner or cfg.exit in cfg.reach(cut_nodes=[n for s in inner for n in cfg.nodes_for(s)], follow_exc=False):
                    ok = False
            if ok:
                out.append(c)
    return out


def _must_precede(ctx: Ctx, fi: FuncInfo, first, then, depth: int = 2, _stack: tuple = ()) -> bool | None:
    """
    Whenever fi (or a helper of the same object that it runs) executes a site of `then`, a site of `first` has completed before - decided in the
    function where the two meet: both may stand in fi, either may have moved into a helper, or both into the same helper.
    None when fi executes no `then` site at all.
    """
    cfg = ctx.cfg(fi)
    firsts = [n for s in _always_has_site(ctx, fi, first, depth) for n in cfg.nodes_for(s)]
    found = None
    for s in then(fi):
        found = (found is not False) and all(cfg.must_complete(n, firsts) for n in cfg.nodes_for(s))
    if depth > 0:
        for c in calls(fi):
            for t in _helper_targets(ctx, fi, c):
                if id(t.node) in _stack:
                    continue
                if firsts and all(cfg.must_complete(n, firsts) for n in cfg.nodes_for(c)):
                    inner = True if _sites_through(ctx, U(ctx, t), then, depth - 1, (*_stack, id(fi.node))) else None
                else:
                    inner = _must_precede(ctx, U(ctx, t), first, then, depth - 1, (*_stack, id(fi.node)))
                if inner is not None:
                    found = (found is not False) and inner
    return found


def _unconditional(ctx: Ctx, fi: FuncInfo, node: ast.AST) -> bool:
    """every normal path through fi evaluates node (and node is not in a short-circuited position of its statement)"""
    cfg = ctx.cfg(fi)
    ns = cfg.nodes_for(node)
    if not ns or cfg.exit in cfg.reach(cut_nodes=ns, follow_exc=False):
        return False
    cur = node
    for a in ancestors(node):
        if isinstance(a, ast.stmt):
            break
        if isinstance(a, (ast.IfExp, ast.Lambda, *_COMPREHENSIONS)) or (isinstance(a, ast.BoolOp) and a.values[0] is not cur):
            return False
        cur = a
    return True


def rule_request_cache(ctx: Ctx) -> None:
    n = 0

    def is_shutdown(f: FuncInfo, x: ast.Call) -> bool:
        return rchain(f, x.func) == "self.request_cache.shutdown"
    for c in overlay_classes(ctx):
        creates = [st for fi in c.methods.values() for st, t in stores(fi, "self.request_cache")
                   if getattr(st, "value", None) is not None and isinstance(resolve(fi, _stored_value(st, t)), ast.Call)
                   and chain(resolve(fi, _stored_value(st, t)).func) == "RequestCache"]
        if not creates:
            continue
        n += 1
        un = c.lookup("unload")
        owner = un.cls if un is not None else None
        # the unload that runs for this class must shut the cache down before delegating upward
        ok = False
        if un is not None and owner is not None and (owner is c or c.is_subclass_of(owner.name)):
            # walk the MRO from c until a class that shuts down the cache
            for k in c.mro():
                u = k.methods.get("unload")
                if u is None:
                    continue
                u = U(ctx, u)
                cfg = ctx.cfg(u)
                sh = _performing_calls(ctx, u, _awaited_step(is_shutdown))
                sup = _performing_calls(ctx, u, lambda f, x: isinstance(x.func, ast.Attribute) and x.func.attr == "unload" and isinstance(x.func.value, ast.Call))
                if sh:
                    shn = [nn for s in sh for nn in cfg.nodes_for(s)]
                    before = _must_precede(ctx, u, lambda f: [x for x in calls(f) if is_shutdown(f, x) and _awaited(x)],
                                           lambda f: [x for x in calls(f) if isinstance(x.func, ast.Attribute) and x.func.attr == "unload" and isinstance(x.func.value, ast.Call)])
                    ok = before is not False and cfg.exit not in cfg.reach(cut_nodes=shn, follow_exc=False)
                    break
                if k.name in ("Community", "Overlay"):
                    break
        ctx.check(ok, "request-cache", c.where + ".unload", creates[0], f"{c.name}: RequestCache created => awaited request_cache.shutdown() before super().unload()",
                  f"{c.name} creates a RequestCache but its unload does not await request_cache.shutdown() before super().unload(): cache timeouts fire after unload")
    ctx.floor("request-cache", n, 4)


def rule_listeners(ctx: Ctx) -> None:
    """Every add_listener / add_prefix_listener(obj, ..) made for an overlay has a remove_listener(obj) reachable from unload."""
    repo = ctx.repo
    n = 0
    ovs = overlay_classes(ctx)
    ov_set = {id(c.node) for c in ovs}
    for fi in repo.all_functions():
        if fi.module.relpath.startswith(("ipv8/REST/", "ipv8/messaging/interfaces/", "ipv8/messaging/anonymization/endpoint.py")):
            continue
        for c in calls(fi):
            if call_name(c) not in ("add_listener", "add_prefix_listener"):
                continue
            if fi.cls is not None and fi.cls.is_subclass_of("Endpoint"):
                continue
            obj = arg(c, 0)
            n += 1
            if chain(obj) != "self" or fi.cls is None:
                ctx.check(False, "listeners", fi, c, "listener object is the registering object itself", "listener registered for a foreign object")
                continue
            owner = fi.cls
            if id(owner.node) in ov_set:
                # overlay registers itself: Overlay.unload removes `self` (checked in super-chain)
                ctx.instance("listeners", fi.where, f"{owner.name} registers itself; removed by Overlay.unload", line=c.lineno)
                continue
            # helper object: find overlays that construct it and check their unload removes it
            users = []
            for oc in ovs:
                for m in oc.methods.values():
                    for k in calls(m):
                        if chain(k.func) == owner.name:
                            st = enclosing_stmt(k)
                            tgt = None
                            for node in ast.walk(st):
                                if isinstance(node, ast.Attribute) and isinstance(node.ctx, ast.Store) and chain(node.value) == "self":
                                    tgt = node.attr
                            if tgt is None and isinstance(st, (ast.Assign, ast.AnnAssign)):
                                # built into a local first: the attribute that later receives that local
                                held = {x.id for t in (st.targets if isinstance(st, ast.Assign) else [st.target]) for x in ast.walk(t) if isinstance(x, ast.Name)}
                                for s2, t2 in stores(m, lambda ch: ch.startswith("self.") and ch.count(".") == 1):
                                    v2 = getattr(s2, "value", None)
                                    if v2 is not None and held & {x.id for x in ast.walk(v2) if isinstance(x, ast.Name)}:
                                        tgt = t2.attr
                            users.append((oc, m, tgt))
            ctx.check(bool(users), "listeners", fi, c, f"helper {owner.name} is constructed by an overlay", f"no overlay constructs {owner.name}")
            for oc, m, attr in users:
                un = oc.lookup("unload")
                removed = False
                if un is not None and attr is not None:
                    removed = bool(_sites_through(ctx, U(ctx, un), lambda f, attr=attr, owner=owner: _listener_removals(U(ctx, f), attr, owner)))
                ctx.check(removed, "listeners", (un or m).where, f"{owner.name} listener of {oc.name}.{attr}",
                          f"{oc.name}: helper listener self.{attr} ({owner.name}) removed in unload",
                          f"{owner.name} registers itself as endpoint listener on behalf of {oc.name} (via self.{attr}) but {oc.name}.unload never removes it: "
                          "datagrams arriving after unload still reach the overlay's handlers")
    ctx.floor("listeners", n, 3)
    # wrapper endpoints: whoever forwards add_listener / add_prefix_listener must forward remove_listener to the same receivers
    ep = repo.cls("Endpoint", "ipv8/messaging/interfaces/endpoint.py")
    for c in ep.all_subclasses():
        adds = [m for m in ("add_listener", "add_prefix_listener") if m in c.methods]
        if not adds:
            continue

        def receivers(meth: str, name: str):
            f = c.methods.get(meth)
            if f is None:
                return None
            out = set()
            for links in _sites_through(ctx, f, lambda g: [k for k in calls(g) if call_name(k) == name and chain(k.func) != f"self.{name}"], depth=1):
                g, k = links[-1]
                out.add(_receiver_key(g, k))
            return out
        want = set()
        for a in adds:
            want |= receivers(a, a) or set()
        got = receivers("remove_listener", "remove_listener")
        ctx.check(got is not None and want <= got, "listeners", c.where + ".remove_listener", f"{c.name} forwards remove_listener",
                  f"{c.name}: add_listener/add_prefix_listener are forwarded to {sorted(want)} and so is remove_listener",
                  f"{c.name} forwards listener registration to {sorted(want)} but " + ("inherits remove_listener (which only edits its own empty lists)" if got is None else f"forwards removal only to {sorted(got)}") +
                  ": an overlay behind this endpoint stays registered after unload and keeps receiving datagrams")


def _receiver_key(g: FuncInfo, k: ast.Call) -> str:
    """what the call k (in g) is made on, independent of local spelling: `self.endpoint`, or `each:self.interfaces.values()` for the variable of an
    enclosing loop / comprehension over a collection"""
    recv = strip_cast(k.func.value)
    if isinstance(recv, ast.Name):
        for a in ancestors(k):
            if isinstance(a, (ast.FunctionDef, ast.AsyncFunctionDef, ast.Lambda)):
                break
            gens = [(a.target, a.iter)] if isinstance(a, (ast.For, ast.AsyncFor)) else [(x.target, x.iter) for x in a.generators] if isinstance(a, _COMPREHENSIONS) else []
            for tgt, it in gens:
                if isinstance(tgt, ast.Name) and tgt.id == recv.id:
                    it = resolve(g, it)
                    while isinstance(it, ast.Call) and isinstance(it.func, ast.Name) and it.func.id in _SNAPSHOT_CTORS and len(it.args) == 1:
                        it = resolve(g, it.args[0])
                    return "each:" + (rchain(g, it) or norm(it))
    return rchain(g, recv) or norm(recv)


def _listener_removals(un: FuncInfo, attr: str, owner: ClassInfo) -> list[ast.Call]:
    """calls in `un` that take the helper object self.<attr> off the endpoint: remove_listener(self.<attr>) or a teardown method of the helper that removes itself"""
    out = []
    for k in calls(un):
        if call_name(k) == "remove_listener":
            a0 = resolve(un, arg(k, 0))
            if chain(a0) == f"self.{attr}" or (isinstance(a0, ast.Call) and chain(a0.func) == "getattr" and len(a0.args) >= 2
                                             and chain(a0.args[0]) == "self" and const_value(a0.args[1]) == attr):
                out.append(k)
        # or a teardown method of the helper that removes itself
        ch = rchain(un, k.func) or ""
        if ch.startswith(f"self.{attr}."):
            t = owner.lookup(call_name(k))
            if t is not None and any(call_name(q) == "remove_listener" and chain(arg(q, 0)) == "self" for q in calls(t)):
                out.append(k)
    return out


def _releases_resource(ctx: Ctx, fi: FuncInfo) -> list[str]:
    def direct(f: FuncInfo) -> list[str]:
        out = []
        for c in calls(f):
            ch = rchain(f, c.func) or chain(c.func) or ""
            if call_name(c) in ("pop", "popitem", "clear") and any(t in ch for t in ("self.circuits", "self.relay_from_to", "self.exit_sockets")):
                out.append(chain(c.func) or ch)
            if call_name(c) in ("close", "shutdown_task_manager") and not ch.startswith("self.logger"):
                out.append(chain(c.func) or ch)
        for st, tg in stores(f, ["self.circuits[]", "self.relay_from_to[]", "self.exit_sockets[]"]):
            if isinstance(st, ast.Delete):
                out.append("del " + (chain(tg) or ""))       # `del self.T[k]` releases the entry like `self.T.pop(k)`
        return out
    out = direct(fi)
    if not out:
        # the releasing statements may have moved into a helper that the @task method runs
        for c in calls(fi):
            for t in _helper_targets(ctx, fi, c):
                out += direct(t)
    return out


def _escapes(fi: FuncInfo, k: ast.Call) -> bool:
    """the value of call k is handed to the caller of fi: returned / yielded, alone or as an element of a returned / yielded collection"""
    _, names, holders = _value_flow(fi, k)
    top = parent(holders[-1])
    if isinstance(top, (ast.Return, ast.Yield, ast.YieldFrom)):
        return True
    if not names:
        return False
    for n in walk_no_nested(fi.node):
        if isinstance(n, (ast.Return, ast.YieldFrom)) and n.value is not None and _carries(n.value, names):
            return True
        if isinstance(n, ast.For) and isinstance(n.target, ast.Name) and _carries(n.iter, names) and \
                any(isinstance(x, ast.Yield) and chain(x.value) == n.target.id for s in n.body for x in walk_no_nested(s)):
            return True
    return False


def _flow_awaited(ctx: Ctx, fi: FuncInfo, k: ast.AST) -> bool:
    """the value of k (a call in fi, or the Await around it) is awaited in fi: directly, in an awaited gather / wait, or through local collections awaited later"""
    cfg = ctx.cfg(fi)
    awaited, names, _ = _value_flow(fi, k)
    if awaited:
        return True
    waits = [gn for g in _awaits_of_collections(fi, names, ctx) for gn in cfg.nodes_for(g)]
    if not waits:
        return False

    def skips_empty(u, v, lab) -> bool:
        # `if removals: await gather(*removals)`: the branch taken when the collection is empty needs no waiting
        if u.kind != "cond" or lab not in (True, False) or u.ast is None:
            return False
        for nm in names:
            if _nonempty_test(u.ast, nm):
                return lab is False
            if _nonempty_test(ast.UnaryOp(op=ast.Not(), operand=u.ast), nm) or _empty_test(u.ast, nm):
                return lab is True
        return False
    # every normal path from the start of the task to the end of the function waits for it
    after = cfg.reach([v for kn in cfg.nodes_for(k) for v, lab in kn.succ if lab != "exc"], cut_nodes=waits, cut_edge=skips_empty, follow_exc=False)
    return cfg.exit not in after


def rule_awaited_release(ctx: Ctx) -> None:
    repo = ctx.repo
    n = 0

    def task_targets(c: ClassInfo, k: ast.Call) -> tuple[list[FuncInfo], list[str]]:
        ch = chain(k.func) or ""
        if not ch.startswith("self.") or ch.count(".") != 1:
            return [], []
        targets = [t for t in repo.dispatch(c, call_name(k)) if "task" in t.decorator_names()]
        return targets, sorted({r for t in targets for r in _releases_resource(ctx, t)})

    for c in overlay_classes(ctx):
        fi = c.methods.get("unload")
        if fi is None:
            continue
        fi = U(ctx, fi)
        for k in _calls_with_lambdas(fi):
            ch = chain(k.func) or ""
            targets, rel = task_targets(c, k)
            started: list[tuple[ast.Call, list[FuncInfo], list[str], bool]] = []
            if targets:
                if rel:
                    started.append((k, targets, rel, _flow_awaited(ctx, fi, k)))
            else:
                # a helper of the overlay (generator, list builder) that starts the @task removals on behalf of unload and hands their futures back
                for h in _starter_helpers(ctx, fi, k):
                    hv = U(ctx, h)
                    for k2 in calls(hv):
                        t2, rel2 = task_targets(c, k2)
                        if not (t2 and rel2):
                            continue
                        top = parent(k) if (h.is_async and _awaited(k)) else k
                        ok = _flow_awaited(ctx, hv, k2) or (_escapes(hv, k2) and _flow_awaited(ctx, fi, top))
                        started.append((k2, t2, rel2, ok))
            for k2, t2, rel2, awaited in started:
                n += 1
                ch2 = chain(k2.func) or ""
                delays = sorted({norm(s.args[0]) for t in t2 for s in calls(t, "sleep") if s.args})
                ctx.check(awaited, "awaited-release", fi, k2, f"{c.name}.unload awaits `{ch2}` (releases {rel2})",
                          f"{c.name}.unload starts the @task `{ch2}` (which releases {rel2}" + (f" after sleeping {delays}" if delays else "") +
                          ") without awaiting it: shutdown_task_manager() cancels it, so the entries and the exit sockets' transports stay open after unload")
    if not (n < 3 and any(f.rule.endswith(".sockets") and "unload" in f.at for f in ctx.findings)):
        # (a table that unload does not empty at all is reported by `sockets`; the removal that is then missing here is not an analysis failure)
        ctx.floor("awaited-release", n, 3)
    # a failing release must not abort the rest of unload (request cache shutdown, listener removal, task shutdown)
    for c in overlay_classes(ctx):
        fi = c.methods.get("unload")
        if fi is None:
            continue
        fi = U(ctx, fi)
        for links in _sites_through(ctx, fi, lambda f: [g for g in calls(f, "gather") if _awaited(g)], depth=1):
            g = links[-1][1]
            if not all(_awaited(c) for _, c in links[:-1] if isinstance(c, ast.Call)):
                continue
            rex = arg(g, None, "return_exceptions")
            shielded = (rex is not None and const_value(rex) is True) or any(isinstance(a, ast.Try) for _, x in links for a in ancestors(x)) or \
                any(isinstance(a, ast.With) and any("suppress" in norm(i.context_expr) for i in a.items) for _, x in links for a in ancestors(x))
            ctx.check(shielded, "awaited-release", fi, g, f"{c.name}.unload: awaited gather cannot abort the unload (return_exceptions=True)",
                      f"{c.name}.unload awaits gather(...) without return_exceptions=True: one failing release raises out of unload and the overlay stays loaded")


def _starter_helpers(ctx: Ctx, fi: FuncInfo, k: ast.Call) -> list[FuncInfo]:
    """methods of the same object that the call k in fi runs (generators run when their result is consumed; coroutines when awaited); not @task methods"""
    f = k.func
    if not (isinstance(f, ast.Attribute) and chain(f.value) in ("self", "cls")) and not isinstance(f, ast.Name):
        return []
    try:
        ts = ctx.repo.resolve_call(fi, k)
    except Exception:  # noqa: BLE001
        return []
    out = []
    for t in ts:
        if t.node is fi.node or t.cls is None:
            continue
        if [d for d in t.decorator_names() if d not in ("staticmethod", "classmethod")]:
            t = _decorated_view(ctx, t)         # a pass-through decorator: wrapper + body
            if t is None:
                continue
        if t.is_async and not _awaited(k):
            continue
        out.append(t)
    return out


def _every_key_sites(ctx: Ctx, fi: FuncInfo, method: str, table: str, keyname: str) -> list[tuple[ast.AST, FuncInfo, ast.Call]]:
    """
    Where `self.<method>(key, ..)` is called once for EVERY key of the mapping `table` whenever fi runs: (node in fi, function holding the call, the call).
    The call stands in fi itself (loop, comprehension, map(lambda ..) / map(self.<method>, ..) over a snapshot of the table), or in a helper of the
    same object that fi always runs to its end (a generator helper must be consumed where it is called).
    """
    out: list[tuple[ast.AST, FuncInfo, ast.Call]] = []
    for k in _calls_with_lambdas(fi, f"self.{method}"):
        if _called_for_every_key(fi, k, arg(k, 0, keyname), table):
            out.append((k, fi, k))
    for m in calls(fi, "map"):
        if _mapped_over_every_key(fi, m, method, table):
            out.append((m, fi, m))
    for c in calls(fi):
        for h in _starter_helpers(ctx, fi, c):
            hv = U(ctx, h)
            is_gen = any(isinstance(x, (ast.Yield, ast.YieldFrom)) for x in walk_no_nested(hv.node))
            consumed = not is_gen or _consumed_unconditionally(c) \
                or (isinstance(parent(c), ast.For) and parent(c).iter is c and not any(isinstance(x, _LOOP_ESCAPES) for s in parent(c).body for x in walk_no_nested(s)))
            if not consumed or not _unconditional(ctx, fi, c):
                continue
            for k in _calls_with_lambdas(hv, f"self.{method}"):
                if _called_for_every_key(hv, k, arg(k, 0, keyname), table) and _unconditional(ctx, hv, enclosing_loop_or_self(k)):
                    out.append((c, hv, k))
    return out


def _removes_every_key(ctx: Ctx, un: FuncInfo, remover: str, table: str) -> bool:
    """`self.<remover>(key, ..)` is started for every key of the mapping `table` whenever un runs: in un itself or in a helper that un always runs"""
    t = ctx.repo.dispatch(un.cls, remover)
    pname = t[0].params()[1] if t and len(t[0].params()) > 1 else "circuit_id"
    return bool(_every_key_sites(ctx, un, remover, table, pname))


def enclosing_loop_or_self(k: ast.AST) -> ast.AST:
    """the outermost loop statement around k inside its function (the whole enumeration must run on every path), or k's own statement"""
    out = enclosing_stmt(k)
    for a in ancestors(k):
        if isinstance(a, (ast.FunctionDef, ast.AsyncFunctionDef, ast.Lambda)):
            break
        if isinstance(a, (ast.For, ast.While)):
            out = a
    return out


def rule_sockets(ctx: Ctx) -> None:
    repo = ctx.repo
    # TunnelExitSocket transports: close() reachable from TunnelCommunity.unload via remove_exit_socket
    tc = repo.cls("TunnelCommunity")
    un = U(ctx, tc.methods["unload"])
    ok = _removes_every_key(ctx, un, "remove_exit_socket", "self.exit_sockets")
    ctx.check(ok, "sockets", un, un.node, "TunnelCommunity.unload removes every exit socket", "exit sockets are not torn down on unload")
    for t, rem in (("self.circuits", "remove_circuit"), ("self.relay_from_to", "remove_relay")):
        ok = _removes_every_key(ctx, un, rem, t)
        ctx.check(ok, "sockets", un, un.node, f"TunnelCommunity.unload removes every entry of {t}", f"{t} is not emptied on unload")
    au = U(ctx, repo.method("AttestationCommunity", "unload"))
    cfg = ctx.cfg(au)
    dbc = [links[0][1] for links in _sites_through(ctx, au, lambda f: [k for k in calls(f) if rchain(f, k.func) == "self.database.close"], depth=1)]
    sup = _performing_calls(ctx, au, lambda f, x: isinstance(x.func, ast.Attribute) and x.func.attr == "unload" and isinstance(x.func.value, ast.Call))
    ok = bool(dbc) and bool(sup) and \
        _must_precede(ctx, au, lambda f: [x for x in calls(f) if isinstance(x.func, ast.Attribute) and x.func.attr == "unload" and isinstance(x.func.value, ast.Call) and _awaited(x)],
                      lambda f: [k for k in calls(f) if rchain(f, k.func) == "self.database.close"]) is True
    ctx.check(ok, "sockets", au, au.node, "AttestationCommunity closes its database after super().unload()", "attestation database is not closed (or closed while handlers may still run)")
    # every create_datagram_endpoint result is stored and has a close in its owner class
    n = 0
    for m, fi, c in repo.callers_of_name("create_datagram_endpoint"):
        if fi is None:
            continue
        n += 1
        owner = fi.cls
        closes = []
        k = owner
        if k is not None:
            closes = [x for mm in k.methods.values() for x in calls(mm) if call_name(x) == "close"]
        ctx.check(bool(closes) or (owner is not None and owner.name == "TunnelProtocol"), "sockets", fi, c,
                  f"{owner.name if owner else '?'} opens a datagram endpoint and has a close()", "an opened datagram endpoint has no close in its owner")
    ctx.floor("sockets", n, 3)


def _table_read(fi: FuncInfo, e: ast.AST, _depth: int = 0, ctx: Ctx | None = None) -> str | None:
    """`self.T` when e evaluates to an entry read out of the mapping self.T (`self.T.pop(k..)`, `self.T.get(k..)`, `self.T[k]`, a local holding only such,
    or - when ctx is given - the result of a helper of the same object all of whose returns are such reads of one table)."""
    e = strip_cast(e)
    if isinstance(e, ast.Await):
        e = strip_cast(e.value)
    if ctx is not None and isinstance(e, ast.Call) and _depth < 3 and not (isinstance(e.func, ast.Attribute) and e.func.attr in ("pop", "get")):
        found: set = set()
        for t in _helper_targets(ctx, fi, e):
            rets = [r for r in walk_no_nested(t.node) if isinstance(r, ast.Return)]
            found |= {_table_read(t, r.value, _depth + 1, ctx) if r.value is not None else None for r in rets} or {None}
        return next(iter(found)) if len(found) == 1 else None
    if isinstance(e, ast.Call) and isinstance(e.func, ast.Attribute) and e.func.attr in ("pop", "get") and e.args:
        t = rchain(fi, e.func.value)
        return t if t and t.startswith("self.") and t.count(".") == 1 else None
    if isinstance(e, ast.Subscript):
        t = rchain(fi, e.value)
        return t if t and t.startswith("self.") and t.count(".") == 1 else None
    if isinstance(e, ast.Name) and _depth < 3 and e.id not in fi.params():
        ts = {_table_read(fi, v, _depth + 1, ctx) if v is not None and i is None else None for _, v, i in local_defs(fi, e.id)}
        return next(iter(ts)) if len(ts) == 1 else None
    return None


def _element_classes(ctx: Ctx, c: ClassInfo, table: str) -> list[ClassInfo]:
    """Classes of the objects stored into the mapping `self.T` (from `self.T[k] = Ctor(...)`, also `self.T[k] = x = Ctor(...)`) anywhere in c's MRO."""
    memo = getattr(ctx, "_c11_elem", None)
    if memo is None:
        memo = ctx._c11_elem = {}        # noqa: SLF001
    if (id(c.node), table) in memo:
        return memo[(id(c.node), table)]
    out: list[ClassInfo] = memo.setdefault((id(c.node), table), [])
    for k in c.mro():
        for m in k.methods.values():
            for st, _ in stores(m, table + "[]"):
                v = strip_cast(getattr(st, "value", None)) if getattr(st, "value", None) is not None else None
                v = resolve(m, v) if v is not None else None
                if isinstance(v, ast.Call):
                    e = ctx.repo.resolve_class_expr(k.module, v.func)
                    if e is not None and e not in out:
                        out.append(e)
    return out


_RELEASE_METHODS = ("close", "shutdown_task_manager")


def _param_released(ctx: Ctx, t: FuncInfo, p: str, _depth: int = 0) -> bool:
    """the helper t releases the object it receives as parameter p (calls p.close() / p.shutdown_task_manager(), possibly through another helper)"""
    for k in calls(t):
        if isinstance(k.func, ast.Attribute) and k.func.attr in _RELEASE_METHODS and rchain(t, k.func.value) == p:
            return True
        if _depth < 1:
            for t2 in _helper_targets(ctx, t, k):
                b = _simple_binding(t2, k)
                if any(chain(a) == p and _param_released(ctx, t2, q, _depth + 1) for q, a in b.items()):
                    return True
    return False


def _simple_binding(t: FuncInfo, call: ast.Call) -> dict[str, ast.AST]:
    """parameter name -> argument expression for positional / keyword arguments of a call to the method or function t"""
    a = t.node.args
    pos = [p.arg for p in a.posonlyargs + a.args]
    if t.cls is not None and "staticmethod" not in t.decorator_names() and isinstance(call.func, ast.Attribute):
        pos = pos[1:]
    out: dict[str, ast.AST] = {}
    for p, x in zip(pos, call.args):
        if isinstance(x, ast.Starred):
            break
        out[p] = x
    for k in call.keywords:
        if k.arg:
            out[k.arg] = k.value
    return out


def _release_calls(ctx: Ctx, fi: FuncInfo) -> list[tuple[ast.Call, str | None]]:
    """(call, table) for every call in fi that releases an object: x.close() / x.shutdown_task_manager(), or a helper of the same object that does that to
    the argument it is given; table = the mapping self.T the object was read out of (None when it is not a table entry)"""
    out = []
    for k in calls(fi):
        if isinstance(k.func, ast.Attribute) and k.func.attr in _RELEASE_METHODS:
            out.append((k, _table_read(fi, k.func.value, ctx=ctx)))
            continue
        for t in _helper_targets(ctx, fi, k):
            for p, a in _simple_binding(t, k).items():
                tab = _table_read(fi, a, ctx=ctx)
                if tab and _param_released(ctx, t, p):
                    out.append((k, tab))
    return out


def _removal_sites(ctx: Ctx, fi: FuncInfo, t: str) -> list[ast.AST]:
    """statements / calls in fi that take an entry out of the mapping t: pop / popitem / clear / del, directly or in a helper of the same object"""
    def direct(f: FuncInfo) -> list[ast.AST]:
        out: list[ast.AST] = [k for k in calls(f) if isinstance(k.func, ast.Attribute) and k.func.attr in ("pop", "popitem", "clear") and rchain(f, k.func.value) == t]
        out += [st for st, _ in stores(f, f"{t}[]") if isinstance(st, ast.Delete)]
        return out
    return [links[0][1] for links in _sites_through(ctx, fi, direct, depth=1)]


def rule_release_window(ctx: Ctx) -> None:
    """
    An entry that a removal takes out of a table of open resources is closed without suspending in between.
    unload finds what it has to close by enumerating these tables (checked in `sockets`) and waits only for the removals it started itself; every
    other task is cancelled by shutdown_task_manager().  A removal that has already popped the entry and then suspends (e.g. sleeps
    remove_tunnel_delay) holds the only reference to a still-open socket: unload cannot see it, cancels the suspended removal, and the
    socket stays open - and keeps receiving - after unload.
    """
    n = 0
    for c in overlay_classes(ctx):
        for fi in c.methods.values():
            fi = U(ctx, fi)
            rel = _release_calls(ctx, fi)
            tables = sorted({t for _, t in rel if t})
            if not tables:
                continue
            cfg = ctx.cfg(fi)
            for t in tables:
                # only tables whose entries own tasks / sockets (TaskManager objects such as TunnelExitSocket); a Circuit.close() is bookkeeping
                elem = _element_classes(ctx, c, t)
                if elem and not any(e.is_subclass_of("TaskManager") for e in elem):
                    continue
                releases = [k for k, tt in rel if tt == t]
                rel_nodes = {nn for k in releases for nn in cfg.nodes_for(k)}
                removals = _removal_sites(ctx, fi, t)
                if not removals:
                    continue
                suspensions = [a for a in walk_no_nested(fi.node) if isinstance(a, (ast.Await, ast.AsyncWith, ast.AsyncFor))
                               and not (isinstance(a, ast.Await) and any(a.value is k for k in releases))]
                n += 1
                bad = None
                for r in removals:
                    after = cfg.reach([v for rn in cfg.nodes_for(r) for v, lab in rn.succ])
                    for a in suspensions:
                        if any(x is r for x in ast.walk(a)):
                            continue          # `await self._take(..)`: the await of the removing helper itself completes before the entry is in hand
                        an = [x for x in cfg.nodes_for(a) if x in after and x not in rel_nodes]
                        if an and rel_nodes & cfg.reach([v for x in an for v, lab in x.succ]):
                            bad = (r, a)
                            break
                    if bad:
                        break
                ctx.check(bad is None, "release-window", fi, (bad[0] if bad else removals[0]),
                          f"{fi.qualname}: an entry taken out of {t} is closed without suspending in between",
                          f"{fi.qualname} takes the entry out of {t} (`{norm(bad[0])[:50]}`) and then suspends in `{norm(bad[1])[:60]}` before closing it: while the removal "
                          f"sleeps the open socket is in no table, so {c.name}.unload (which enumerates {t}) neither closes it nor waits for this removal; "
                          "shutdown_task_manager() cancels the sleeping removal and the socket stays open after unload" if bad else "")
    ctx.floor("release-window", n, 1)


def _is_own_shutdown(f: FuncInfo, x: ast.Call) -> bool:
    return rchain(f, x.func) == "self.shutdown_task_manager" and _awaited(x)


def _shuts_task_manager_down(ctx: Ctx, fi: FuncInfo, k: ast.Call, elem: list[ClassInfo]) -> bool:
    """
    Completing the awaited call k (in fi) has shut down the task manager of the table entry it is applied to: `await x.shutdown_task_manager()`,
    `await x.m()` where m of every element class awaits self.shutdown_task_manager() on every normal path (TunnelExitSocket.close), or a helper of
    the overlay that does one of these to the entry it is given on every normal path.
    """
    def shuts(attr: str) -> bool:
        if attr == "shutdown_task_manager":
            return True
        ms = [e.lookup(attr) for e in elem]
        return bool(ms) and all(m is not None and m.is_async and _always_performs(ctx, m, _is_own_shutdown, 4) for m in ms)
    if call_name(k) in ("register_task", "register_anonymous_task", "replace_task") and chain(k.func) in (f"self.{call_name(k)}",):
        # the release is handed to the overlay's own task manager as the callable of a task that starts right away
        delayed = any(kw.arg in ("delay", "interval") for kw in k.keywords)
        return not delayed and any(isinstance(a, ast.Attribute) and _table_read(fi, a.value, ctx=ctx) and shuts(a.attr) for a in k.args[1:])
    if not _awaited(k):
        return False
    if isinstance(k.func, ast.Attribute) and _table_read(fi, k.func.value, ctx=ctx):
        return shuts(k.func.attr)
    for t in _helper_targets(ctx, fi, k):
        for p, a in _simple_binding(t, k).items():
            if _table_read(fi, a, ctx=ctx):
                tv = U(ctx, t)
                inner = [x for x in calls(tv) if isinstance(x.func, ast.Attribute) and rchain(tv, x.func.value) == p and _awaited(x) and
                         (x.func.attr == "shutdown_task_manager" or (elem and all(e.lookup(x.func.attr) is not None and
                                                                                   _always_performs(ctx, e.lookup(x.func.attr), _is_own_shutdown) for e in elem)))]
                cfg = ctx.cfg(tv)

                def there(f, p=p):
                    # the helper is judged for the case that it is given an entry (its own `if sock is None: return` guard is no way out)
                    if f.op == "truthy" and chain(strip_cast(f.left)) == p:
                        return True
                    if f.op == "is" and const_value(f.right) is None and chain(strip_cast(f.left)) == p:
                        return False
                    return None
                if inner and not local_defs(tv, p) and \
                        cfg.exit not in _Feas(ctx, tv, there).explore(cut_nodes=[n for x in inner for n in cfg.nodes_for(x)], follow_exc=False):
                    return True
    return False


def _applies_to_entry_of(ctx: Ctx, fi: FuncInfo, k: ast.Call, t: str) -> bool:
    """the call k is made on / is given an entry of the table t (receiver, a bound method of it, or an argument)"""
    if isinstance(k.func, ast.Attribute) and _table_read(fi, k.func.value, ctx=ctx) == t:
        return True
    for a in [*k.args, *[kw.value for kw in k.keywords]]:
        if _table_read(fi, a, ctx=ctx) == t or (isinstance(a, ast.Attribute) and _table_read(fi, a.value, ctx=ctx) == t):
            return True
    return False


def _hands_entry_to_callers(ctx: Ctx, c: ClassInfo, fi: FuncInfo, t: str) -> bool:
    """fi is a private helper that returns the entry it took out of t, and it is only called by methods of this class hierarchy (which are checked)"""
    if not fi.name.startswith("_") or fi.name.startswith("__"):
        return False
    rets = [r for r in walk_no_nested(fi.node) if isinstance(r, ast.Return)]
    if not rets or not all(r.value is not None and _table_read(fi, r.value, ctx=ctx) == t for r in rets):
        return False
    family = {id(k.node) for k in [*c.mro(), *c.all_subclasses()]}
    callers = [f for _, f, _ in ctx.repo.callers_of_name(fi.name)]
    return bool(callers) and all(f is not None and f.cls is not None and id(f.cls.node) in family for f in callers)


def _entry_origins(fi: FuncInfo, e: ast.AST, t: str, _depth: int = 0) -> list[tuple[ast.stmt, ast.AST]]:
    """(statement, read expression) for every place where the object that e denotes was read out of the mapping t: `x = self.T.get(k)` / `self.T[k]` /
    `self.T.pop(k)`, followed through local aliases"""
    e = strip_cast(e)
    if isinstance(e, ast.Await):
        e = strip_cast(e.value)
    if isinstance(e, ast.Name) and _depth < 4 and e.id not in fi.params():
        out = []
        for st, v, i in local_defs(fi, e.id):
            if v is None or i is not None:
                continue
            v = strip_cast(v)
            if isinstance(v, ast.Name):
                out += _entry_origins(fi, v, t, _depth + 1)
            elif _table_read(fi, v) == t:
                out.append((st, v))
        return out
    return []


def _released_entry_is_stale(ctx: Ctx, fi: FuncInfo, k: ast.Call, t: str, removals: list[ast.AST]) -> tuple[ast.AST, ast.AST, ast.AST] | None:
    """
    The release k is applied to an object that was looked up in t, then the function may suspend, then it takes whatever is in t NOW out of the
    table (discarding it): -> (lookup, suspension, removal).  The object released is the one from before the suspension, the one removed may be another.
    """
    cfg = ctx.cfg(fi)
    entries = [k.func.value] if isinstance(k.func, ast.Attribute) else []
    entries += [*k.args, *[kw.value for kw in k.keywords]]
    entries += [a.value for a in [*k.args, *[kw.value for kw in k.keywords]] if isinstance(a, ast.Attribute)]
    k_nodes = set(cfg.nodes_for(k))
    suspensions = [a for a in walk_no_nested(fi.node) if isinstance(a, (ast.Await, ast.AsyncWith, ast.AsyncFor))]
    for e in entries:
        for d, read in _entry_origins(fi, e, t):
            d_nodes = cfg.nodes_for(d)
            for r in removals:
                if any(x is r for x in ast.walk(d)) or any(x is read for x in ast.walk(r)):
                    continue              # the object released IS what the removal returned
                r_nodes = set(cfg.nodes_for(r))
                if not (k_nodes & cfg.reach([v for n in r_nodes for v, lab in n.succ if lab != "exc"])):
                    continue
                after_d = cfg.reach([v for n in d_nodes for v, lab in n.succ if lab != "exc"], cut_nodes=d_nodes)
                for a in suspensions:
                    if any(x is r for x in ast.walk(a)) or any(x is read for x in ast.walk(a)):
                        continue
                    an = [x for x in cfg.nodes_for(a) if x in after_d]
                    if an and r_nodes & cfg.reach([v for x in an for v, lab in x.succ if lab != "exc"], cut_nodes=d_nodes):
                        return read, a, r
    return None


def rule_released_on_removal(ctx: Ctx) -> None:
    """
    An entry that is taken out of a table of TaskManager objects (TunnelCommunity.exit_sockets) has its task manager shut down by whoever took it out,
    on every normal path on which there was an entry.  After the removal nothing else can reach the object: unload enumerates the table, and the
    object's own periodic tasks (TunnelExitSocket registers `_check_tasks` on construction, whether or not the socket was ever enabled) are only
    cancelled by its shutdown_task_manager().  A path that drops the entry without that leaves a task running after unload has completed.
    """
    n = 0
    for c in overlay_classes(ctx):
        for fi in c.methods.values():
            fi = U(ctx, fi)
            tables = sorted({t for k in calls(fi) if isinstance(k.func, ast.Attribute) and k.func.attr in ("pop", "popitem") for t in [rchain(fi, k.func.value)]
                             if t and t.startswith("self.") and t.count(".") == 1} |
                            {t for st, tg in stores(fi, lambda ch: ch.startswith("self.") and ch.endswith("[]") and ch.count(".") == 1) if isinstance(st, ast.Delete)
                             for t in [rchain(fi, tg.value)] if t and t.startswith("self.") and t.count(".") == 1})
            for t in tables:
                elem = _element_classes(ctx, c, t)
                if not elem or not all(e.is_subclass_of("TaskManager") for e in elem):
                    continue
                removals = [r for r in _removal_sites(ctx, fi, t) if isinstance(r, (ast.Call, ast.Delete))]      # pop / popitem / clear / a helper doing that / del
                if not removals:
                    continue
                if _hands_entry_to_callers(ctx, c, fi, t):
                    continue          # a private `take` helper: the entry is judged where the helper is called (the call is a removal site there)
                n += 1
                cfg = ctx.cfg(fi)
                shut = [k for k in calls(fi) if _applies_to_entry_of(ctx, fi, k, t) and _shuts_task_manager_down(ctx, fi, k, elem)]
                shut_nodes = {nn for k in shut for nn in cfg.nodes_for(k)}

                def present(f, t=t):
                    # there IS an entry: every read of the table (`self.T.pop(k, None)`, `.get(k)`, `self.T[k]`) yields a (truthy) object
                    if f.op == "truthy" and _table_read(fi, f.left, ctx=ctx) == t and not isinstance(strip_cast(f.left), ast.Name):
                        return True
                    if f.op == "is" and const_value(f.right) is None and _table_read(fi, f.left, ctx=ctx) == t and not isinstance(strip_cast(f.left), ast.Name):
                        return False
                    return None
                fe = _Feas(ctx, fi, present)
                seen = fe.explore()
                bad = None
                for r in removals:
                    starts = []
                    for rn in cfg.nodes_for(r):
                        for env in seen.get(rn, {}).values():
                            starts += fe._step(rn, env, False)      # noqa: SLF001
                    after = fe.explore(starts, cut_nodes=shut_nodes, follow_exc=False) if starts else {}
                    if cfg.exit in after:
                        bad = r
                        break
                # ... and what is shut down is the entry that was taken out, not one that was looked up before a suspension
                stale = next((x for x in (_released_entry_is_stale(ctx, fi, k, t, removals) for k in shut) if x is not None), None)
                ctx.check(stale is None, "released-on-removal", fi, stale[2] if stale else removals[0],
                          f"{fi.qualname}: the entry that is shut down is the one that was taken out of {t}",
                          f"{fi.qualname} looks an entry of {t} up (`{norm(stale[0])[:50]}`), may then suspend in `{norm(stale[1])[:50]}`, and afterwards removes whatever is "
                          f"registered under the key NOW (`{norm(stale[2])[:50]}`, result discarded) but shuts down the object it looked up BEFORE suspending: when the key was "
                          f"re-used in between, the new {', '.join(e.name for e in elem)} leaves the table without being shut down - {c.name}.unload enumerates {t} and cannot find "
                          "it any more, so its sockets and tasks outlive unload" if stale else "")
                ctx.check(bad is None, "released-on-removal", fi, bad or removals[0],
                          f"{fi.qualname}: an entry taken out of {t} has its task manager shut down on every normal path",
                          f"{fi.qualname} takes an entry out of {t} (`{norm(bad)[:50]}`) and can return without awaiting its shutdown_task_manager() "
                          f"(directly or through a method that always does, such as close()): {', '.join(e.name for e in elem)} objects register periodic tasks on "
                          f"construction, the removed entry is in no table that {c.name}.unload enumerates, so its tasks keep running after unload has completed" if bad else "")
    ctx.floor("released-on-removal", n, 1)


def rule_tracked(ctx: Ctx) -> None:
    repo = ctx.repo
    tm = repo.cls("TaskManager", "ipv8/taskmanager.py")
    n = 0
    reg = ("register_task", "register_anonymous_task", "replace_task")
    for c in tm.all_subclasses():
        for fi in [U(ctx, f) for f in repo.all_functions() if f.cls is c]:
            for k in calls(fi, ["ensure_future", "create_task", "asyncio.ensure_future", "asyncio.create_task"]):
                n += 1
                p = parent(k)
                ok = isinstance(p, ast.Call) and call_name(p) in reg
                if not ok:
                    st = enclosing_stmt(k)
                    if isinstance(st, ast.Assign) and isinstance(st.targets[0], ast.Name):
                        v = st.targets[0].id
                        top = fi.node
                        for x in ast.walk(top):
                            if isinstance(x, ast.Call) and call_name(x) in ("register_task", "register_anonymous_task") and any(chain(a) == v for a in x.args):
                                ok = True
                            if isinstance(x, ast.Await) and chain(x.value) == v:
                                ok = True
                    if isinstance(p, ast.Await):
                        ok = True
                if not ok:
                    # the future flows (through local collections) into an await / awaited gather, or into a registration
                    awaited, names, _ = _value_flow(fi, k)
                    ok = awaited or bool(_awaits_of_collections(fi, names)) or \
                        any(call_name(x) in reg and any(_carries(a, names) for a in x.args) for x in calls(fi)) if names or awaited else False
                ctx.check(ok, "tracked-background-work", fi, k, f"{fi.qualname}: ensure_future result is registered with the task manager or awaited",
                          "a background future is neither registered nor awaited: it survives shutdown_task_manager()")
    ctx.floor("tracked-background-work", n, 2)
    # the low-level runners await the scheduled step ITSELF: cancelling the registered runner task (cancel_pending_task, shutdown, unload)
    # is the only way a periodic / delayed step is stopped, and cancellation only travels through a direct await.  shield(), ensure_future(),
    # create_task() or gather() around the step hand it to a separate, unregistered future that keeps running (and sending) after unload.
    TM = "ipv8/taskmanager.py"
    for rn in ("interval_runner", "delay_runner"):
        fi = U(ctx, repo.func(TM, rn))
        steps = []
        for links in _sites_through(ctx, fi, lambda f: [k for k in calls(f) if isinstance(k.func, ast.Name) and k.func.id in f.params()], depth=1):
            if len(links) == 1:
                steps.append(links[-1])
            else:
                # the step is called in a helper: it is the scheduled callable only if the runner passes its own parameter on
                h, k = links[-1]
                b = _simple_binding(h, links[0][1])
                if k.func.id in b and chain(b[k.func.id]) in fi.params() and _awaited(links[0][1]):
                    steps.append(links[-1])
        ctx.anchor(steps, f"call of the scheduled callable in {rn}")
        for h, k in steps:
            awaited, names, holders = _value_flow(h, k)
            ok = (awaited and len(holders) == 1) or any(isinstance(a, ast.Await) for a in _awaits_of_collections(h, names) if len(holders) == 1)
            ctx.check(ok, "tracked-background-work", h, k, f"{rn} awaits the scheduled step directly (cancelling the runner cancels the step)",
                      f"{rn} does not await `{norm(k)}` directly (it is wrapped in `{norm(parent(k))[:60]}`): cancelling the registered runner task no longer "
                      "cancels a step that is in flight, so the step finishes - and sends packets - after unload has completed")
    # ... and nowhere in task-manager code is work shielded from cancellation
    scanned = 0
    for fi in repo.all_functions():
        if not (fi.module.relpath == TM or (fi.cls is not None and (fi.cls is tm or fi.cls.is_subclass_of("TaskManager")))):
            continue
        scanned += 1
        for k in calls(fi, ["shield", "asyncio.shield"], nested=False):
            ctx.check(False, "tracked-background-work", fi, k, "no asyncio.shield in task-manager code",
                      f"{fi.qualname} shields `{norm(k)[:60]}` from cancellation: shield() runs its argument as a separate future that survives the cancellation "
                      "of the registered task, i.e. it keeps running after shutdown_task_manager() / unload")
    ctx.instance("tracked-background-work", TM, f"no asyncio.shield() in {scanned} functions of TaskManager and its subclasses")


def _active_means_registered_and_running(ia: FuncInfo, ctx: Ctx | None = None) -> bool:
    """
    Decision table of is_pending_task_active over the two facts it may depend on: the name maps to a task (`_pending_tasks.get(name)` is
    truthy / is not None) and that task is done().  The result must be true exactly for (registered, not done), whatever mix of conditional
    expression, if/return, and/or and early return computes it.
    """
    from ..boolfn import TableEvaluator
    name = ia.params()[1]

    def getter_is_lookup() -> bool:
        # `self.get_task(name)` is the same lookup when get_task still just returns `self._pending_tasks.get(<its parameter>[, None])`
        gt = ia.cls.lookup("get_task") if ia.cls is not None else None
        if gt is None or len(gt.params()) != 2:
            return False
        rets = [r for r in walk_no_nested(gt.node) if isinstance(r, ast.Return)]
        v = strip_cast(rets[0].value) if len(rets) == 1 and rets[0].value is not None else None
        return isinstance(v, ast.Call) and chain(v.func) == "self._pending_tasks.get" and v.args and chain(v.args[0]) == gt.params()[1] \
            and (len(v.args) == 1 or const_value(v.args[1]) is None) and not v.keywords

    def is_lookup(e: ast.AST) -> bool:
        e = strip_cast(e)
        if isinstance(e, ast.Subscript) and chain(e.value) == "self._pending_tasks" and chain(e.slice) == name:
            return True
        if isinstance(e, ast.Call) and chain(e.func) == "self.get_task" and len(e.args) == 1 and not e.keywords and chain(e.args[0]) == name:
            return getter_is_lookup()
        return isinstance(e, ast.Call) and chain(e.func) == "self._pending_tasks.get" and not e.keywords and 1 <= len(e.args) <= 2 \
            and chain(e.args[0]) == name and (len(e.args) == 1 or const_value(e.args[1]) is None)

    def holds_lookup(e: ast.AST) -> bool:
        if is_lookup(e):
            return True
        if isinstance(e, ast.Name) and e.id != name:
            ds = local_defs(ia, e.id)
            return bool(ds) and all(v is not None and i is None and is_lookup(v) for _, v, i in ds)
        return False

    def atom_of(e: ast.AST) -> str | None:
        if is_lookup(e):
            return "registered"
        if isinstance(e, ast.Call) and isinstance(e.func, ast.Attribute) and e.func.attr == "done" and not e.args and holds_lookup(e.func.value):
            return "done"
        if isinstance(e, ast.Compare) and len(e.ops) == 1 and const_value(e.comparators[0]) is None and holds_lookup(e.left):
            if isinstance(e.ops[0], ast.IsNot):
                return "registered"
            if isinstance(e.ops[0], ast.Is):
                return "unregistered"
        if isinstance(e, ast.Compare) and len(e.ops) == 1 and chain(e.left) == name and chain(e.comparators[0]) == "self._pending_tasks":
            if isinstance(e.ops[0], ast.In):
                return "registered"
            if isinstance(e.ops[0], ast.NotIn):
                return "unregistered"
        return None

    def on_effect(s: ast.stmt, env: dict, ev: TableEvaluator) -> None:
        if isinstance(s, ast.With) and any(isinstance(i.context_expr, ast.Call) and "suppress" in (chain(i.context_expr.func) or "") for i in s.items):
            raise AnalysisError("undecided: suppress() in is_pending_task_active; not a plain decision table")
        if isinstance(s, ast.With):
            ev._block(s.body, env)      # noqa: SLF001  the lock does not change the result
        elif isinstance(s, ast.Try) and not s.finalbody and not s.orelse and len(s.handlers) == 1 and chain(s.handlers[0].type) in ("KeyError", "LookupError") \
                and any(isinstance(x, ast.Subscript) and is_lookup(x) for b in s.body for x in ast.walk(b)) \
                and not any(isinstance(x, ast.Subscript) and not is_lookup(x) for b in s.body for x in ast.walk(b)):
            # `try: .. self._pending_tasks[name] .. except KeyError: ..`: the handler runs exactly when the name is not registered
            ev._block(s.body if env["__atoms__"]["registered"] else s.handlers[0].body, env)      # noqa: SLF001
        elif not isinstance(s, ast.Assert):
            raise AnalysisError(f"undecided: is_pending_task_active contains `{norm(s)[:60]}`; cannot tabulate its result")

    ev = TableEvaluator(ia, atom_of, on_effect=on_effect)
    for registered in (False, True):
        for done in (False, True):
            try:
                res = ev.run({"registered": registered, "unregistered": not registered, "done": done})
                got = ev.truth(res)
            except AnalysisError as e:
                # not a plain decision function (e.g. the decision moved into a helper): evaluate it path-sensitively under the same two assumptions
                got = _active_by_paths(ctx, ia, name, is_lookup, registered, done) if ctx is not None else None
                if got is None:
                    raise AnalysisError(f"undecided: result of is_pending_task_active for registered={registered} done={done}: {e}") from e
            if got != (registered and not done):
                return False
    return True


def _active_by_paths(ctx: Ctx, ia: FuncInfo, name: str, is_lookup, registered: bool, done: bool) -> bool | None:
    """truthiness of what is_pending_task_active returns when the name is / is not registered and its task is / is not done; None when the paths disagree"""
    def assume(f):
        if f.op == "truthy" and is_lookup(f.left):
            return registered
        if f.op == "is" and const_value(f.right) is None and is_lookup(f.left):
            return not registered
        if f.op == "in" and chain(f.left) == name and chain(f.right) == "self._pending_tasks":
            return registered
        if f.op == "truthy" and isinstance(f.left, ast.Call) and isinstance(f.left.func, ast.Attribute) and f.left.func.attr == "done" and not f.left.args \
                and is_lookup(f.left.func.value):
            return done
        return None
    fe = _Feas(ctx, U(ctx, ia), assume)
    fe.explore(follow_exc=False)
    outs = {_is_true(x) for x in fe.returns}
    return next(iter(outs)) if len(outs) == 1 else None


def _in_caller_terms(links: list[tuple[FuncInfo, ast.AST]], e: ast.AST | None) -> ast.AST | None:
    """the expression e of the last function of a call chain, written in the terms of the first: parameters replaced by the arguments they are bound to"""
    for i in range(len(links) - 1, 0, -1):
        if e is None or not isinstance(links[i - 1][1], ast.Call):
            return e
        e = strip_cast(e)
        if isinstance(e, ast.Name):
            b = _simple_binding(links[i][0], links[i - 1][1])
            if e.id in b:
                e = b[e.id]
    return e


def _stored_value(st: ast.stmt, target: ast.AST) -> ast.AST | None:
    """the expression a (possibly tuple) assignment statement stores into `target`"""
    v = getattr(st, "value", None)
    for t in (st.targets if isinstance(st, ast.Assign) else [getattr(st, "target", None)]):
        if t is target:
            return v
        if isinstance(t, (ast.Tuple, ast.List)) and isinstance(v, (ast.Tuple, ast.List)) and len(t.elts) == len(v.elts):
            for a, b in zip(t.elts, v.elts):
                if a is target:
                    return b
    return v


def _locked(links: list[tuple[FuncInfo, ast.AST]], lock: str = "self._task_lock") -> bool:
    """some link of the call chain sits inside `with <lock>:` (the helper runs while its caller holds the lock)"""
    return any(isinstance(a, ast.With) and any(rchain(f, i.context_expr) == lock for i in a.items) for f, node in links for a in ancestors(node))


def _truthy_assumption(pred, value: bool):
    """assume: every atom e with pred(e) is truthy (value=True) / falsy (value=False)"""
    return lambda f: (value if f.op == "truthy" and pred(f.left) else None)


def _name_state_assumption(name: str, *, registered: bool, done: bool):
    """
    assume: the task name `name` (an expression text in the terms of the analysed function) is / is not registered in self._pending_tasks and its
    task is / is not done - whichever way the code asks: is_pending_task_active(name) (= registered and not done, checked by its own rule),
    `self._pending_tasks.get(name)` / `self._pending_tasks[name]` / `self.get_task(name)` tested for truth or against None, `name in
    self._pending_tasks`, `<that lookup>.done()`.
    """
    def is_name(e) -> bool:
        return e is not None and norm(strip_cast(e)) == name

    def lookup(e) -> bool:
        e = strip_cast(e)
        if isinstance(e, ast.Subscript):
            return chain(e.value) == "self._pending_tasks" and is_name(e.slice)
        return isinstance(e, ast.Call) and chain(e.func) in ("self._pending_tasks.get", "self.get_task") and bool(e.args) and is_name(e.args[0]) \
            and (len(e.args) == 1 or const_value(e.args[1]) is None) and not e.keywords

    def assume(f):
        l = strip_cast(f.left)
        if f.op == "truthy":
            if isinstance(l, ast.Call) and chain(l.func) == "self.is_pending_task_active" and l.args and is_name(l.args[0]):
                return registered and not done
            if lookup(l):
                return registered
            if isinstance(l, ast.Call) and isinstance(l.func, ast.Attribute) and l.func.attr == "done" and not l.args and lookup(l.func.value):
                return done
        elif f.op == "is" and const_value(f.right) is None and lookup(l):
            return not registered
        elif f.op == "in" and is_name(l) and chain(f.right) in ("self._pending_tasks", "self._pending_tasks.keys()"):
            return registered
        return None
    return assume


def _is_pending_lookup(e: ast.AST) -> bool:
    e = strip_cast(e)
    if isinstance(e, ast.Call) and chain(e.func) == "self._pending_tasks.get" and e.args:
        return True
    return isinstance(e, ast.Subscript) and chain(e.value) == "self._pending_tasks"


def rule_taskmanager(ctx: Ctx) -> None:  # noqa: C901, PLR0912, PLR0915
    repo = ctx.repo
    TM = "ipv8/taskmanager.py"
    rt = U(ctx, repo.method("TaskManager", "register_task", TM))
    cfg = ctx.cfg(rt)
    name = rt.params()[1]
    shut = _truthy_assumption(lambda e: chain(e) == "self._shutdown", True)
    not_shutdown = _truthy_assumption(lambda e: chain(e) == "self._shutdown", False)
    # "the name is still active" = registered and its task not done, however the code asks (is_pending_task_active itself is checked below)
    active = _name_state_assumption(name, registered=True, done=False)
    name_states = (active, _name_state_assumption(name, registered=True, done=True), _name_state_assumption(name, registered=False, done=False))
    sts = _sites_through(ctx, rt, lambda f: [s for s, t in stores(f, "self._pending_tasks[]") if not isinstance(s, ast.Delete)])
    starts = _sites_through(ctx, rt, lambda f: calls(f, ["ensure_future", "create_task"]))
    ctx.anchor(sts, "_pending_tasks[name] = task")
    for links in [*sts, *starts]:
        f, s = links[-1]
        # (when a test mixes the two questions - `case (False, True):` - each is decided by splitting the other into its complete set of cases)
        not_shut = _chain_unreachable(ctx, links, shut) or all(_chain_unreachable(ctx, links, _assume_any(shut, st)) for st in name_states)
        not_active = _chain_unreachable(ctx, links, active) or all(_chain_unreachable(ctx, links, _assume_any(active, st)) for st in (shut, not_shutdown))
        locked = _locked(links)
        fs = facts_at(ctx.cfg(f), s)
        ctx.check(not_shut and not_active and locked, "taskmanager-gates", f, s, f"`{norm(s)[:50]}` only when not shut down and the name is not active (under the lock)",
                  f"a task can be started/registered after shutdown or under a name that is still active (not_shutdown={not_shut} name_free={not_active} locked={locked})",
                  [str(x) for x in fs])
    # the active-name branch raises: while the name is active (and the manager is not shut down) register_task has no normal exit
    fe = _Feas(ctx, rt, _assume_any(not_shutdown, active))
    seen = fe.explore()
    tests = [c for c in calls(rt, "self.is_pending_task_active")] or [rt.node]
    ctx.check(cfg.exit not in seen, "taskmanager-gates", rt, tests[0], "registering an active name raises", "registering under an active name is not refused")
    # the done-callback may only unregister its own future (a newer task may have taken the name)
    dcb: list[tuple[FuncInfo, str | None]] = []
    for links in _sites_through(ctx, rt, lambda f: [c for c in calls(f) if call_name(c) == "add_done_callback" and c.args]):
        f, c = links[-1]
        for g, p in _callback_targets(ctx, f, c.args[0]):
            if not any(g.node is x.node for x, _ in dcb):
                dcb.append((g, p))
    ctx.anchor(dcb, "done_cb in register_task")
    for g, fut in dcb:
        def own(f, fut=fut):
            # `self._pending_tasks.get(name) is future` / `self._pending_tasks[name] is future` (also ==: futures compare by identity) is assumed FALSE
            if f.op in ("is", "eq") and fut is not None:
                for a, b in ((f.left, f.right), (f.right, f.left)):
                    if _is_pending_lookup(a) and norm(b) == fut:
                        return False
            return None
        pops = _sites_through(ctx, U(ctx, g), lambda h: [c for c in calls(h, "self._pending_tasks.pop")] +
                              [s for s, _ in stores(h, "self._pending_tasks[]") if isinstance(s, ast.Delete)])
        for links in pops:
            h, c = links[-1]
            # (add_done_callback hands the callback the finished Future itself: an object, never None - so on a path where the looked-up entry is
            # None because the name is no longer registered, `entry is future` is false)
            ok = fut is not None and _chain_unreachable(ctx, links, own, {fut: frozenset({"T"})} if fut in g.params() else None)
            ctx.check(ok, "taskmanager-gates", h, c, "a finished task unregisters its name only if the name still maps to itself",
                      "the done-callback pops the task name unconditionally: when a name is cancelled and re-registered before the old task finishes, the old task's "
                      "callback unregisters the NEW task, which then survives shutdown_task_manager() (e.g. a request-cache timeout firing after unload) and can be duplicated",
                      [str(x) for x in facts_at(ctx.cfg(h), c)])
    # after shutdown a passed-in future is cancelled
    cancels = _sites_through(ctx, rt, lambda f: [c for c in calls(f) if call_name(c) == "cancel"])
    ok = any(_chain_unreachable(ctx, links, not_shutdown) for links in cancels)
    ctx.check(ok, "taskmanager-gates", rt, rt.node, "a future handed in after shutdown is cancelled", "futures handed to register_task after shutdown keep running")
    ia = repo.method("TaskManager", "is_pending_task_active", TM)
    ok = _active_means_registered_and_running(ia, ctx)
    ctx.check(ok, "taskmanager-gates", ia, ia.node, "is_pending_task_active = registered and not done", "is_pending_task_active no longer means 'registered and not done'")
    # replace_task
    rp = U(ctx, repo.method("TaskManager", "replace_task", TM))
    pname = rp.params()[1]
    # (1) nothing that replace_task runs itself registers the new task (also not by calling the callback directly)
    direct = _sites_through(ctx, rp, lambda f: calls(f, "self.register_task"))
    # (2) exactly one done-callback, attached to the task that cancel_pending_task(name) returned, and it registers the new task under the same name
    cbs = [c for c in calls(rp) if call_name(c) == "add_done_callback" and c.args]
    ok = not direct and len(cbs) == 1
    if ok:
        old = resolve(rp, cbs[0].func.value)
        ok = isinstance(old, ast.Call) and chain(old.func) == "self.cancel_pending_task" and norm(arg(old, 0)) == pname
        targets = _callback_targets(ctx, rp, cbs[0].args[0])
        regs = [(g, links) for g, _ in targets for links in _sites_through(ctx, U(ctx, g), lambda f: calls(f, "self.register_task"))]
        ok = ok and bool(targets) and len(regs) == len(targets) == 1
        if ok:
            g, links = regs[0]
            a0 = _in_caller_terms(links, arg(links[-1][1], 0))
            nested_here = g.qualname.startswith(rp.qualname + ".") or getattr(g, "_c11_obj", None) is not None      # (written in replace_task's own terms)
            ok = a0 is not None and (norm(a0) == pname or (not nested_here and isinstance(strip_cast(a0), ast.Name)))
    ctx.check(ok, "taskmanager-gates", rp, rp.node, "replace_task registers the new task only in the done-callback of the cancelled old task",
              "replace_task starts the new task before the old one has finished")
    # shutdown_task_manager
    sh = U(ctx, repo.method("TaskManager", "shutdown_task_manager", TM))
    cfgs = ctx.cfg(sh)
    # (the flag store and the cancellation may stand in shutdown_task_manager itself or in helpers it runs - also both in the same helper; the order
    # is judged in the function where the two meet)
    ca = [links[0][1] for links in _sites_through(ctx, sh, lambda f: calls(f, "self.cancel_all_pending_tasks"), depth=2)]
    ok = _must_precede(ctx, sh, lambda f: [s for s, t in stores(f, "self._shutdown") if const_value(_stored_value(s, t)) is True],
                       lambda f: calls(f, "self.cancel_all_pending_tasks")) is True
    g = [links for links in _sites_through(ctx, sh, lambda f: [c for c in calls(f, ["gather", "wait"]) if _awaited(c)], depth=1)
         if all(_awaited(c) for _, c in links[:-1])]
    waited = bool(g) or any(_flow_awaited(ctx, sh, c) for c in ca if isinstance(c, ast.Call))
    ctx.check(ok and waited, "taskmanager-gates", sh, sh.node, "shutdown: flag set before all tasks are cancelled, cancellation awaited",
              "shutdown cancels tasks before refusing new ones (a cancelled task's callback can register a new task) or does not wait for cancellation")
    cp = U(ctx, repo.method("TaskManager", "cancel_pending_task", TM))
    ok = bool(_sites_through(ctx, cp, lambda f: [c for c in calls(f) if call_name(c) == "cancel"], depth=1)) and \
        bool(_sites_through(ctx, cp, lambda f: [c for c in calls(f) if rchain(f, c.func) == "self._pending_tasks.pop"] +
                            [s for s, _ in stores(f, "self._pending_tasks[]") if isinstance(s, ast.Delete)], depth=1))
    ctx.check(ok, "taskmanager-gates", cp, cp.node, "cancel_pending_task cancels and unregisters the named task", "cancel_pending_task does not cancel")
    call_all = U(ctx, repo.method("TaskManager", "cancel_all_pending_tasks", TM))
    ok = False
    for top, holder, k in _every_key_sites(ctx, call_all, "cancel_pending_task", "self._pending_tasks", "name"):
        # ... and the cancelled futures are what the caller (shutdown_task_manager) gets back to wait for
        if holder is not call_all and not _escapes(holder, k):
            continue
        _, names, holders = _value_flow(call_all, top)
        rets = [r for r in walk_no_nested(call_all.node) if isinstance(r, ast.Return)]
        # (when the cancelling loop stands in a helper that hands all its futures back, the helper call itself is the whole collection)
        whole = holders[1:] if holder is call_all else holders
        ok = ok or (bool(rets) and all(r.value is not None and (any(strip_cast(r.value) is h for h in whole) or _carries(r.value, names)) for r in rets))
    ctx.check(ok, "taskmanager-gates", call_all, call_all.node, "cancel_all_pending_tasks cancels every registered name", "not every registered task is cancelled at shutdown")
    # delivery re-check
    dl = U(ctx, repo.method("Endpoint", "_deliver_later", "ipv8/messaging/interfaces/endpoint.py"))
    closed = _truthy_assumption(lambda e: isinstance(e, ast.Call) and chain(e.func) == "self.is_open", False)

    def is_registration_test(f) -> str | None:
        """'prefix' / 'generic' when the fact tests whether the listener is still registered for the packet's prefix / as a generic listener"""
        if f.op == "in" and rc(f.right) == "self._listeners" and norm(f.left) == lst[0]:
            return "generic"
        if f.op == "in" and rc(f.right) == "self._prefix_map":
            return "prefix"
        if f.op == "truthy" and isinstance(f.left, ast.Call) and rc(f.left.func) == "self._prefix_map.get":
            return "prefix"
        return None

    def rc(e: ast.AST, g: FuncInfo | None = None) -> str | None:
        """
        the member that e reads, also through a local of the (synchronous) delivering function that was bound once to it: nothing is suspended
        between that binding and the test, so the table tested is the one that is current when the packet is delivered
        """
        g = g or cur[0]
        return chain(e) if g.is_async or isinstance(g.node, ast.Lambda) else rchain(g, e)
    cur = [dl]

    def unregistered(f):
        return False if is_registration_test(f) else None
    deliveries = _sites_through(ctx, dl, lambda f: [c for c in calls(f) if call_name(c) == "on_packet"], depth=1)
    ctx.anchor(deliveries, "on_packet in _deliver_later")
    lst = [""]
    for links in deliveries:
        h, c = links[-1]
        # the listener is whatever on_packet is called on, named in the terms of _deliver_later
        recv = rchain(h, c.func.value)
        if len(links) > 1 and isinstance(links[0][1], ast.Call):
            b = _simple_binding(h, links[0][1])
            recv = rchain(dl, b[recv]) if recv in b else None
        lst[0] = recv or ""
        cur[0] = h
        open_ok = _chain_unreachable(ctx, links, closed)
        # (prefix in map or listener in _listeners): not a single dominating atom; no feasible path to the delivery with both false
        rechecked = _chain_unreachable(ctx, links, unregistered)
        scope = [dl, *[f for f, _ in links], *[t for k in calls(dl) for t in _helper_targets(ctx, dl, k)]]
        has = any(fact_of(x, True).op == "in" and rc(fact_of(x, True).right, f) == "self._listeners" and isinstance(strip_cast(fact_of(x, True).left), ast.Name)
                  for f in scope for x in ast.walk(f.node) if isinstance(x, ast.Compare))
        ctx.check(open_ok and has and rechecked, "taskmanager-gates", h, c, "_deliver_later delivers only to a still-registered listener on an open endpoint",
                  "a packet can be delivered to a listener that was removed in the meantime")
    rl = U(ctx, repo.method("Endpoint", "remove_listener", "ipv8/messaging/interfaces/endpoint.py"))

    def edits(attr: str) -> bool:
        # rebinding (also as one target of a tuple assignment), or an in-place edit of the collection
        return bool(_sites_through(ctx, rl, lambda f: [s for s, _ in stores(f, [f"self.{attr}", f"self.{attr}[]"])] +
                                   [k for k in calls(f) if isinstance(k.func, ast.Attribute) and k.func.attr in ("remove", "pop", "discard", "clear", "popitem")
                                    and rchain(f, k.func.value) == f"self.{attr}"], depth=1))
    ok = edits("_listeners") and edits("_prefix_map")
    ctx.check(ok, "taskmanager-gates", rl, rl.node, "remove_listener drops the listener from the generic list and the prefix map", "remove_listener leaves the listener registered")


def run(ctx: Ctx) -> None:
    rule_super_chain(ctx)
    rule_request_cache(ctx)
    rule_listeners(ctx)
    rule_sockets(ctx)
    rule_awaited_release(ctx)
    rule_release_window(ctx)
    rule_released_on_removal(ctx)
    from .c09 import rule_transports_stored
    rule_transports_stored(ctx, "sockets")
    from .c10 import rule_shutdown        # "runs no cache timeout after unload" rests on RequestCache.shutdown's ordering
    rule_shutdown(ctx)
    rule_tracked(ctx)
    rule_taskmanager(ctx)
    ctx.assume("asyncio: a cancelled task does not run further; cancelling a task that awaits another future cancels that future")
    ctx.assume("unload 'at whatever moment' is covered only through these orderings, not through schedule exploration")


TC = "ipv8/messaging/anonymization/community.py"
WITNESSES = [
    {"name": "pre-fix: done_cb pops the name unconditionally", "file": "ipv8/taskmanager.py", "rule": "taskmanager-gates",
     "old": "                if self._pending_tasks.get(name, None) is future:\n                    self._pending_tasks.pop(name, None)\n",
     "new": "                self._pending_tasks.pop(name, None)\n"},
    {"name": "pre-fix: TunnelEndpoint inherits remove_listener", "file": "ipv8/messaging/anonymization/endpoint.py", "rule": "listeners",
     "old": "    def remove_listener(self, listener: EndpointListener) -> None:\n        \"\"\"\n        Forward directly to the underlying endpoint.\n        \"\"\"\n        self.endpoint.remove_listener(listener)\n\n",
     "new": ""},
    {"name": "pre-fix: removals not awaited", "file": TC, "rule": "awaited-release",
     "old": "        await gather(*removals, return_exceptions=True)\n", "new": ""},
    {"name": "gather can abort unload", "file": TC, "rule": "awaited-release",
     "old": "        await gather(*removals, return_exceptions=True)\n", "new": "        await gather(*removals)\n"},
    {"name": "exit sockets removal fire-and-forget only", "file": TC, "rule": "awaited-release",
     "old": "            removals.append(self.remove_exit_socket(circuit_id, \"unload\", remove_now=True,\n                                                    destroy=DESTROY_REASON_SHUTDOWN))",
     "new": "            self.remove_exit_socket(circuit_id, \"unload\", remove_now=True, destroy=DESTROY_REASON_SHUTDOWN)"},
    {"name": "pre-fix: crypto endpoint listener stays", "file": TC, "rule": "listeners",
     "old": "        crypto_endpoint = getattr(self, \"crypto_endpoint\", None)\n        if isinstance(crypto_endpoint, PythonCryptoEndpoint):\n            self.endpoint.remove_listener(crypto_endpoint)\n",
     "new": ""},
    {"name": "dht unload skips request cache", "file": "ipv8/dht/community.py", "rule": "request-cache",
     "old": "        await self.request_cache.shutdown()\n        await super().unload()", "new": "        await super().unload()"},
    {"name": "request cache shutdown not awaited", "file": "ipv8/peerdiscovery/community.py", "rule": "request-cache",
     "old": "        await self.request_cache.shutdown()\n        await super().unload()", "new": "        self.request_cache.shutdown()\n        await super().unload()"},
    {"name": "unload returns early without super", "file": "ipv8/attestation/wallet/community.py", "rule": "super-chain",
     "old": "        await self.request_cache.shutdown()\n\n        await super().unload()",
     "new": "        await self.request_cache.shutdown()\n        if not self.database:\n            return\n\n        await super().unload()"},
    {"name": "overlay shuts tasks before removing listener", "file": "ipv8/overlay.py", "rule": "super-chain",
     "old": "        self.endpoint.remove_listener(self)\n        await self.shutdown_task_manager()",
     "new": "        await self.shutdown_task_manager()\n        self.endpoint.remove_listener(self)"},
    {"name": "untracked background future", "file": "ipv8/community.py", "rule": "tracked-background-work",
     "old": "        task = ensure_future(bootstrapper.initialize(self))\n", "new": "        ensure_future(bootstrapper.initialize(self))\n        task = succeed(None)\n"},
    {"name": "register_task after shutdown", "file": "ipv8/taskmanager.py", "rule": "taskmanager-gates",
     "old": "                # We need to return an awaitable in case the caller awaits the output of register_task.\n                return succeed(None)\n",
     "new": "                # We need to return an awaitable in case the caller awaits the output of register_task.\n"},
    {"name": "duplicate active name allowed", "file": "ipv8/taskmanager.py", "rule": "taskmanager-gates",
     "old": "                msg = f\"Task already exists: '{name}'\"\n                raise RuntimeError(msg)",
     "new": "                self._logger.warning(\"Task already exists: '%s'\", name)"},
    {"name": "replace_task registers immediately", "file": "ipv8/taskmanager.py", "rule": "taskmanager-gates",
     "old": "        old_task = self.cancel_pending_task(name)\n        old_task.add_done_callback(cancel_cb)\n        return new_task",
     "new": "        old_task = self.cancel_pending_task(name)\n        cancel_cb(old_task)\n        return new_task"},
    {"name": "shutdown flag after cancellation", "file": "ipv8/taskmanager.py", "rule": "taskmanager-gates",
     "old": "            self._shutdown = True\n            tasks = self.cancel_all_pending_tasks()\n\n        if tasks:",
     "new": "            tasks = self.cancel_all_pending_tasks()\n            self._shutdown = True\n\n        if tasks:"},
    {"name": "deliver_later without re-check", "file": "ipv8/messaging/interfaces/endpoint.py", "rule": "taskmanager-gates",
     "old": "        if self.is_open() and (packet[1][:self.prefixlen] in self._prefix_map or listener in self._listeners):\n            listener.on_packet(packet)",
     "new": "        if self.is_open():\n            listener.on_packet(packet)"},
    {"name": "exit socket leaves its table before the removal delay", "rule": "release-window", "edits": [
        {"file": TC, "old": "        exit_socket_to_destroy = self.exit_sockets.get(circuit_id, None)\n",
         "new": "        exit_socket_to_destroy = self.exit_sockets.pop(circuit_id, None)\n"},
        {"file": TC, "old": "        exit_socket = self.exit_sockets.pop(circuit_id, None)\n", "new": "        exit_socket = exit_socket_to_destroy\n"}]},
    {"name": "periodic step detached from its runner", "file": "ipv8/taskmanager.py", "rule": "tracked-background-work",
     "old": "        await interval_task(*args)\n", "new": "        ensure_future(interval_task(*args))\n"},
    {"name": "delayed step started as its own future", "file": "ipv8/taskmanager.py", "rule": "tracked-background-work",
     "old": "    await delayed_task(*args)\n", "new": "    await ensure_future(delayed_task(*args))\n"},
    {"name": "is_pending_task_active ignores done()", "file": "ipv8/taskmanager.py", "rule": "taskmanager-gates",
     "old": "            return not pending_task.done() if pending_task else False\n", "new": "            return pending_task is not None\n"},
    {"name": "cancel_all_pending_tasks skips a name", "file": "ipv8/taskmanager.py", "rule": "taskmanager-gates",
     "old": "for name in list(self._pending_tasks.keys())]", "new": "for name in list(self._pending_tasks.keys()) if name != \"_check_tasks\"]"},
    {"name": "only one bootstrapper unloaded", "file": "ipv8/community.py", "rule": "super-chain",
     "old": "        while self.bootstrappers:\n            bootstrapper = self.bootstrappers.pop()", "new": "        if self.bootstrappers:\n            bootstrapper = self.bootstrappers.pop()"},
    {"name": "exit sockets removed only when enabled", "file": TC, "rule": "sockets",
     "old": "        for circuit_id in list(self.exit_sockets.keys()):\n            removals.append(",
     "new": "        for circuit_id in list(self.exit_sockets.keys()):\n            if self.exit_sockets[circuit_id].enabled:\n                removals.append("},
    {"name": "exit socket that was never enabled keeps its task manager", "file": TC, "rule": "released-on-removal",
     "old": "        if exit_socket:\n            # Close socket\n            if exit_socket.enabled:\n                await exit_socket.close()\n            await exit_socket.shutdown_task_manager()\n",
     "new": "        if exit_socket and exit_socket.enabled:\n            await exit_socket.close()\n"},
    {"name": "exit socket looked up before the removal delay is the one that gets closed", "rule": "released-on-removal", "edits": [
        {"file": TC, "old": "        exit_socket = self.exit_sockets.pop(circuit_id, None)\n        if exit_socket:\n",
         "new": "        self.exit_sockets.pop(circuit_id, None)\n        exit_socket = exit_socket_to_destroy\n        if exit_socket:\n"}]},
    {"name": "pex community dropped without unloading it", "file": "ipv8/messaging/anonymization/hidden_services.py", "rule": "released-on-removal",
     "old": "                        self.register_anonymous_task(\"unload_pex\", pex.unload)\n", "new": ""},
    {"name": "attestation db closed before super", "file": "ipv8/attestation/wallet/community.py", "rule": "sockets",
     "old": "        await super().unload()\n        # Close the database after we stop accepting requests.\n        self.database.close()",
     "new": "        self.database.close()\n        await super().unload()"},
    # broken twins of refactored shapes (helpers, decision variables, dispatch tables, generators): the shape-independent readings must still fire
    {'name': 'refusal placeholder is None on both branches (decision variable)', 'rule': 'taskmanager-gates', 'edits': [{'file': 'ipv8/taskmanager.py', 'old': '        with self._task_lock:\n            if self._shutdown:\n                self._logger.warning("Not adding task %s due to shutdown!", str(user_task))\n                if isinstance(user_task, (Task, Future)) and not user_task.done():\n                    user_task.cancel()\n                # We need to return an awaitable in case the caller awaits the output of register_task.\n                return succeed(None)\n\n            if self.is_pending_task_active(name):\n                msg = f"Task already exists: \'{name}\'"\n                raise RuntimeError(msg)\n', 'new': '        with self._task_lock:\n            refusal = None\n            if self._shutdown:\n                self._logger.warning("Not adding task %s due to shutdown!", str(user_task))\n                if isinstance(user_task, (Task, Future)) and not user_task.done():\n                    user_task.cancel()\n                refusal = None\n            if refusal is not None:\n                return refusal\n\n            if self.is_pending_task_active(name):\n                msg = f"Task already exists: \'{name}\'"\n                raise RuntimeError(msg)\n'}]},
    {'name': 'done-callback built by a factory pops the name unconditionally', 'rule': 'taskmanager-gates', 'edits': [{'file': 'ipv8/taskmanager.py', 'old': '            def done_cb(future: Future) -> None:\n                # Only unregister ourselves: the name may have been taken by a newer task in the meantime.\n                if self._pending_tasks.get(name, None) is future:\n                    self._pending_tasks.pop(name, None)\n                try:\n                    future.result()\n                except CancelledError:\n                    pass\n                except ignore as e:  # type: ignore[misc]\n                    self._logger.exception("Task resulted in error: %s\\n%s", e, "".join(traceback.format_exc()))\n\n            self._pending_tasks[name] = user_task\n            user_task.add_done_callback(done_cb)\n            return user_task\n', 'new': '            self._pending_tasks[name] = user_task\n            user_task.add_done_callback(self._make_done_callback(name, ignore))\n            return user_task\n\n    def _make_done_callback(self, name: Hashable, ignore: tuple) -> Callable:\n        def done_cb(future: Future) -> None:\n            if name in self._pending_tasks:\n                self._pending_tasks.pop(name, None)\n            try:\n                future.result()\n            except CancelledError:\n                pass\n            except ignore as e:  # type: ignore[misc]\n                self._logger.exception("Task resulted in error: %s", e)\n\n        return done_cb\n'}]},
    {'name': 'admission decided in a helper that admits after shutdown', 'rule': 'taskmanager-gates', 'edits': [{'file': 'ipv8/taskmanager.py', 'old': '        with self._task_lock:\n            if self._shutdown:\n                self._logger.warning("Not adding task %s due to shutdown!", str(user_task))\n                if isinstance(user_task, (Task, Future)) and not user_task.done():\n                    user_task.cancel()\n                # We need to return an awaitable in case the caller awaits the output of register_task.\n                return succeed(None)\n\n            if self.is_pending_task_active(name):\n                msg = f"Task already exists: \'{name}\'"\n                raise RuntimeError(msg)\n', 'new': '        with self._task_lock:\n            admitted, placeholder = self._admit(name, user_task)\n            if not admitted:\n                return placeholder\n'}, {'file': 'ipv8/taskmanager.py', 'old': '    def register_anonymous_task(', 'new': '    def _admit(self, name: Hashable, user_task: Any) -> tuple:\n        try:\n            if self._shutdown:\n                self._logger.warning("Not adding task %s due to shutdown!", str(user_task))\n                return True, succeed(None)\n        finally:\n            pass\n        if self.is_pending_task_active(name):\n            msg = f"Task already exists: \'{name}\'"\n            raise RuntimeError(msg)\n        return True, None\n\n    def register_anonymous_task('}]},
    {'name': 're-check helper of _deliver_later only looks at is_open', 'rule': 'taskmanager-gates', 'edits': [{'file': 'ipv8/messaging/interfaces/endpoint.py', 'old': '        if self.is_open() and (packet[1][:self.prefixlen] in self._prefix_map or listener in self._listeners):\n            listener.on_packet(packet)\n', 'new': '        if self._still_wanted(packet, listener):\n            listener.on_packet(packet)\n\n    def _still_wanted(self, packet: tuple[Address, bytes], who: EndpointListener) -> bool:\n        try:\n            if not self.is_open():\n                return False\n            return True\n        finally:\n            pass\n'}]},
    {'name': 'dispatch over kinds leaves the exit sockets out', 'rule': 'sockets', 'edits': [{'file': 'ipv8/messaging/anonymization/community.py', 'old': '        removals = []\n        for circuit_id in list(self.circuits.keys()):\n            removals.append(self.remove_circuit(circuit_id, "unload", remove_now=True, destroy=DESTROY_REASON_SHUTDOWN))\n        for circuit_id in list(self.relay_from_to.keys()):\n            removals.append(self.remove_relay(circuit_id, "unload", remove_now=True, destroy=DESTROY_REASON_SHUTDOWN))\n        for circuit_id in list(self.exit_sockets.keys()):\n            removals.append(self.remove_exit_socket(circuit_id, "unload", remove_now=True,\n                                                    destroy=DESTROY_REASON_SHUTDOWN))\n        # Wait for the removals to finish: shutting down the task manager would cancel them and leave sockets open.\n        # A removal that fails (e.g., its destroy message cannot be sent) must not keep us from unloading.\n        await gather(*removals, return_exceptions=True)\n', 'new': '        removals = []\n        for kind in ("circuit", "relay"):\n            table = {"circuit": self.circuits, "relay": self.relay_from_to, "exit_socket": self.exit_sockets}[kind]\n            remover = getattr(self, f"remove_{kind}")\n            removals += [remover(circuit_id, "unload", remove_now=True, destroy=DESTROY_REASON_SHUTDOWN) for circuit_id in tuple(table)]\n        await gather(*removals, return_exceptions=True)\n'}]},
    {'name': 'generator of removals is run but its futures are dropped', 'rule': 'awaited-release', 'edits': [{'file': 'ipv8/messaging/anonymization/community.py', 'old': '        removals = []\n        for circuit_id in list(self.circuits.keys()):\n            removals.append(self.remove_circuit(circuit_id, "unload", remove_now=True, destroy=DESTROY_REASON_SHUTDOWN))\n        for circuit_id in list(self.relay_from_to.keys()):\n            removals.append(self.remove_relay(circuit_id, "unload", remove_now=True, destroy=DESTROY_REASON_SHUTDOWN))\n        for circuit_id in list(self.exit_sockets.keys()):\n            removals.append(self.remove_exit_socket(circuit_id, "unload", remove_now=True,\n                                                    destroy=DESTROY_REASON_SHUTDOWN))\n        # Wait for the removals to finish: shutting down the task manager would cancel them and leave sockets open.\n        # A removal that fails (e.g., its destroy message cannot be sent) must not keep us from unloading.\n        await gather(*removals, return_exceptions=True)\n', 'new': '        for _ in self._start_removals():\n            pass\n'}, {'file': 'ipv8/messaging/anonymization/community.py', 'old': '    def get_serializer(self) -> Serializer:', 'new': '    def _start_removals(self):  # noqa: ANN202\n        for circuit_id in list(self.circuits):\n            yield self.remove_circuit(circuit_id, "unload", remove_now=True, destroy=DESTROY_REASON_SHUTDOWN)\n        for circuit_id in list(self.relay_from_to):\n            yield self.remove_relay(circuit_id, "unload", remove_now=True, destroy=DESTROY_REASON_SHUTDOWN)\n        for circuit_id in list(self.exit_sockets):\n            yield self.remove_exit_socket(circuit_id, "unload", remove_now=True, destroy=DESTROY_REASON_SHUTDOWN)\n\n    def get_serializer(self) -> Serializer:'}]},
    {'name': 'work list of (remover, key) pairs never awaited', 'rule': 'awaited-release', 'edits': [{'file': 'ipv8/messaging/anonymization/community.py', 'old': '        removals = []\n        for circuit_id in list(self.circuits.keys()):\n            removals.append(self.remove_circuit(circuit_id, "unload", remove_now=True, destroy=DESTROY_REASON_SHUTDOWN))\n        for circuit_id in list(self.relay_from_to.keys()):\n            removals.append(self.remove_relay(circuit_id, "unload", remove_now=True, destroy=DESTROY_REASON_SHUTDOWN))\n        for circuit_id in list(self.exit_sockets.keys()):\n            removals.append(self.remove_exit_socket(circuit_id, "unload", remove_now=True,\n                                                    destroy=DESTROY_REASON_SHUTDOWN))\n        # Wait for the removals to finish: shutting down the task manager would cancel them and leave sockets open.\n        # A removal that fails (e.g., its destroy message cannot be sent) must not keep us from unloading.\n        await gather(*removals, return_exceptions=True)\n', 'new': '        pending = [(self.remove_circuit, cid) for cid in list(self.circuits)]\n        pending += [(self.remove_relay, cid) for cid in list(self.relay_from_to)]\n        pending += [(self.remove_exit_socket, cid) for cid in list(self.exit_sockets)]\n        removals = [remover(cid, "unload", remove_now=True, destroy=DESTROY_REASON_SHUTDOWN) for remover, cid in pending]\n        await self.request_cache.shutdown()\n'}]},
    {'name': 'super().unload() behind a condition in a helper', 'rule': 'super-chain', 'edits': [{'file': 'ipv8/dht/community.py', 'old': '        await self.request_cache.shutdown()\n        await super().unload()', 'new': '        await self.request_cache.shutdown()\n        await self._unload_base()\n\n    async def _unload_base(self) -> None:\n        if self.request_cache is None:\n            await super().unload()'}]},
    {'name': 'release helper closes only enabled sockets', 'rule': 'released-on-removal', 'edits': [{'file': 'ipv8/messaging/anonymization/community.py', 'old': '        exit_socket = self.exit_sockets.pop(circuit_id, None)\n        if exit_socket:\n            # Close socket\n            if exit_socket.enabled:\n                await exit_socket.close()\n            await exit_socket.shutdown_task_manager()\n        return exit_socket\n', 'new': '        exit_socket = self.exit_sockets.pop(circuit_id, None)\n        if exit_socket:\n            await self._release_exit_socket(exit_socket)\n        return exit_socket\n\n    async def _release_exit_socket(self, exit_socket: TunnelExitSocket, *unused: Any) -> None:\n        # Close socket\n        if exit_socket.enabled:\n            await exit_socket.close()\n'}]},
    {'name': 'generator helper cancels only some names', 'rule': 'taskmanager-gates', 'edits': [{'file': 'ipv8/taskmanager.py', 'old': '            return [self.cancel_pending_task(name) for name in list(self._pending_tasks.keys())]\n', 'new': '            return list(self._cancel_each())\n\n    def _cancel_each(self):  # noqa: ANN202\n        for name in list(self._pending_tasks.keys()):\n            if isinstance(name, str):\n                yield self.cancel_pending_task(name)\n'}]},
    # broken twins of round-3 shapes (result objects, callable classes, functional pipelines, try/except KeyError, suppress, helper objects)
    {'name': "result object (NamedTuple) of the admission helper says 'not refused' after shutdown", 'rule': 'taskmanager-gates', 'edits': [{'file': 'ipv8/taskmanager.py', 'old': '            if self._shutdown:\n                self._logger.warning("Not adding task %s due to shutdown!", str(user_task))\n                if isinstance(user_task, (Task, Future)) and not user_task.done():\n                    user_task.cancel()\n                # We need to return an awaitable in case the caller awaits the output of register_task.\n                return succeed(None)\n\n            if self.is_pending_task_active(name):\n                msg = f"Task already exists: \'{name}\'"\n                raise RuntimeError(msg)\n', 'new': '            verdict = self._admission(name)\n            if verdict.refused:\n                self._logger.warning("Not adding task %s due to shutdown!", str(user_task))\n                if isinstance(user_task, (Task, Future)) and not user_task.done():\n                    user_task.cancel()\n                # We need to return an awaitable in case the caller awaits the output of register_task.\n                return succeed(None)\n            if verdict.duplicate:\n                msg = f"Task already exists: \'{name}\'"\n                raise RuntimeError(msg)\n'}, {'file': 'ipv8/taskmanager.py', 'old': '    def register_anonymous_task(', 'new': '    def _admission(self, name: Hashable) -> _Verdict:\n        if self._shutdown:\n            return _Verdict(refused=False, duplicate=False)\n        return _Verdict(False, self.is_pending_task_active(name))\n\n    def register_anonymous_task('}, {'file': 'ipv8/taskmanager.py', 'old': 'class TaskManager:', 'new': 'class _Verdict(NamedTuple):\n    refused: bool\n    duplicate: bool\n\n\nclass TaskManager:'}, {'file': 'ipv8/taskmanager.py', 'old': 'from typing import TYPE_CHECKING, Any', 'new': 'from typing import TYPE_CHECKING, Any, NamedTuple'}]},
    {'name': 'admission helper returning sentinel objects treats a running task as free (try/except KeyError lookup)', 'rule': 'taskmanager-gates', 'edits': [{'file': 'ipv8/taskmanager.py', 'old': '            if self._shutdown:\n                self._logger.warning("Not adding task %s due to shutdown!", str(user_task))\n                if isinstance(user_task, (Task, Future)) and not user_task.done():\n                    user_task.cancel()\n                # We need to return an awaitable in case the caller awaits the output of register_task.\n                return succeed(None)\n\n            if self.is_pending_task_active(name):\n                msg = f"Task already exists: \'{name}\'"\n                raise RuntimeError(msg)\n', 'new': '            outcome = self._admission(name)\n            if outcome is _CLOSED:\n                self._logger.warning("Not adding task %s due to shutdown!", str(user_task))\n                if isinstance(user_task, (Task, Future)) and not user_task.done():\n                    user_task.cancel()\n                # We need to return an awaitable in case the caller awaits the output of register_task.\n                return succeed(None)\n            if outcome is _TAKEN:\n                msg = f"Task already exists: \'{name}\'"\n                raise RuntimeError(msg)\n'}, {'file': 'ipv8/taskmanager.py', 'old': '    def register_anonymous_task(', 'new': '    def _admission(self, name: Hashable) -> object:\n        if self._shutdown:\n            return _CLOSED\n        try:\n            return _TAKEN if self._pending_tasks[name].done() else _FREE\n        except KeyError:\n            return _FREE\n\n    def register_anonymous_task('}, {'file': 'ipv8/taskmanager.py', 'old': 'class TaskManager:', 'new': '_CLOSED = object()\n_TAKEN = object()\n_FREE = object()\n\n\nclass TaskManager:'}]},
    {'name': 'admission helper returning dataclass results, acted on with match, forgets the duplicate-name result', 'rule': 'taskmanager-gates', 'edits': [{'file': 'ipv8/taskmanager.py', 'old': '            if self._shutdown:\n                self._logger.warning("Not adding task %s due to shutdown!", str(user_task))\n                if isinstance(user_task, (Task, Future)) and not user_task.done():\n                    user_task.cancel()\n                # We need to return an awaitable in case the caller awaits the output of register_task.\n                return succeed(None)\n\n            if self.is_pending_task_active(name):\n                msg = f"Task already exists: \'{name}\'"\n                raise RuntimeError(msg)\n', 'new': '            match self._admission(name, user_task):\n                case _Refused(placeholder=placeholder):\n                    return placeholder\n                case _Duplicate(message=msg):\n                    raise RuntimeError(msg)\n'}, {'file': 'ipv8/taskmanager.py', 'old': '    def register_anonymous_task(', 'new': '    def _admission(self, name: Hashable, user_task: Any) -> _Refused | _Duplicate | None:  # noqa: ANN401\n        if self._shutdown:\n            self._logger.warning("Not adding task %s due to shutdown!", str(user_task))\n            if isinstance(user_task, (Task, Future)) and not user_task.done():\n                user_task.cancel()\n            # We need to return an awaitable in case the caller awaits the output of register_task.\n            return _Refused(succeed(None))\n        if self.is_pending_task_active(name):\n            return None\n        return None\n\n    def register_anonymous_task('}, {'file': 'ipv8/taskmanager.py', 'old': 'class TaskManager:', 'new': '@dataclass(frozen=True)\nclass _Refused:\n    placeholder: Future\n\n\n@dataclass(frozen=True)\nclass _Duplicate:\n    message: str\n\n\nclass TaskManager:'}, {'file': 'ipv8/taskmanager.py', 'old': 'from contextlib import suppress', 'new': 'from contextlib import suppress\nfrom dataclasses import dataclass'}]},
    {'name': 'done-callback as a small callable class deletes the name unconditionally', 'rule': 'taskmanager-gates', 'edits': [{'file': 'ipv8/taskmanager.py', 'old': '            def done_cb(future: Future) -> None:\n                # Only unregister ourselves: the name may have been taken by a newer task in the meantime.\n                if self._pending_tasks.get(name, None) is future:\n                    self._pending_tasks.pop(name, None)\n                try:\n                    future.result()\n                except CancelledError:\n                    pass\n                except ignore as e:  # type: ignore[misc]\n                    self._logger.exception("Task resulted in error: %s\\n%s", e, "".join(traceback.format_exc()))\n\n            self._pending_tasks[name] = user_task\n            user_task.add_done_callback(done_cb)\n', 'new': '            self._pending_tasks[name] = user_task\n            user_task.add_done_callback(_Finished(self, name, ignore))\n'}, {'file': 'ipv8/taskmanager.py', 'old': 'class TaskManager:', 'new': 'class _Finished:\n    """\n    Done-callback of a registered task.\n    """\n\n    def __init__(self, owner: TaskManager, name: Hashable, ignore: tuple) -> None:\n        self.owner = owner\n        self.name = name\n        self.ignore = ignore\n\n    def __call__(self, future: Future) -> None:\n        # Only unregister ourselves: the name may have been taken by a newer task in the meantime.\n        self._forget(future)\n        try:\n            future.result()\n        except CancelledError:\n            pass\n        except self.ignore as e:\n            self.owner._logger.exception("Task resulted in error: %s\\n%s", e, "".join(traceback.format_exc()))  # noqa: SLF001\n\n    def _forget(self, future: Future) -> None:\n        with suppress(KeyError):\n            del self.owner._pending_tasks[self.name]  # noqa: SLF001\n\n\nclass TaskManager:'}]},
    {'name': 'replace_task calls its handover object directly instead of attaching it to the old task', 'rule': 'taskmanager-gates', 'edits': [{'file': 'ipv8/taskmanager.py', 'old': '        new_task: Future = Future()\n\n        def cancel_cb(_: Any) -> None:  # noqa: ANN401\n            try:\n                new_task.set_result(self.register_task(name, *args, **kwargs))\n            except Exception as e:\n                new_task.set_exception(e)\n\n        old_task = self.cancel_pending_task(name)\n        old_task.add_done_callback(cancel_cb)\n        return new_task\n', 'new': '        handover = _Handover(self, name, args, kwargs)\n        handover(self.cancel_pending_task(name))\n        return handover.outcome\n'}, {'file': 'ipv8/taskmanager.py', 'old': 'class TaskManager:', 'new': 'class _Handover:\n    def __init__(self, manager: TaskManager, name: Hashable, args: tuple, kwargs: dict) -> None:\n        self.manager = manager\n        self.name = name\n        self.args = args\n        self.kwargs = kwargs\n        self.outcome: Future = Future()\n\n    def __call__(self, _: Any) -> None:  # noqa: ANN401\n        try:\n            self.outcome.set_result(self.manager.register_task(self.name, *self.args, **self.kwargs))\n        except Exception as e:\n            self.outcome.set_exception(e)\n\n\nclass TaskManager:'}]},
    {'name': 'handover object registers the replacement under another name', 'rule': 'taskmanager-gates', 'edits': [{'file': 'ipv8/taskmanager.py', 'old': '        new_task: Future = Future()\n\n        def cancel_cb(_: Any) -> None:  # noqa: ANN401\n            try:\n                new_task.set_result(self.register_task(name, *args, **kwargs))\n            except Exception as e:\n                new_task.set_exception(e)\n\n        old_task = self.cancel_pending_task(name)\n        old_task.add_done_callback(cancel_cb)\n        return new_task\n', 'new': '        handover = _Handover(self, name, args, kwargs)\n        self.cancel_pending_task(name).add_done_callback(handover)\n        return handover.outcome\n'}, {'file': 'ipv8/taskmanager.py', 'old': 'class TaskManager:', 'new': 'class _Handover:\n    def __init__(self, manager: TaskManager, name: Hashable, args: tuple, kwargs: dict) -> None:\n        self.manager = manager\n        self.name = name\n        self.args = args\n        self.kwargs = kwargs\n        self.outcome: Future = Future()\n\n    def __call__(self, _: Any) -> None:  # noqa: ANN401\n        try:\n            self.outcome.set_result(self.manager.register_task(self.kwargs, *self.args, **self.kwargs))\n        except Exception as e:\n            self.outcome.set_exception(e)\n\n\nclass TaskManager:'}]},
    {'name': 'shutdown helper cancels before it sets the flag', 'rule': 'taskmanager-gates', 'edits': [{'file': 'ipv8/taskmanager.py', 'old': '        if self._shutdown:\n            return\n\n        with self._task_lock:\n            self._shutdown = True\n            tasks = self.cancel_all_pending_tasks()\n\n        if tasks:\n            with suppress(CancelledError):\n                await gather(*tasks)\n', 'new': '        tasks = self._close()\n        if tasks is None:\n            return\n        await self._settle(tasks)\n'}, {'file': 'ipv8/taskmanager.py', 'old': '__all__ =', 'new': '__all__ ='}, {'file': 'ipv8/taskmanager.py', 'old': '    async def shutdown_task_manager(self) -> None:', 'new': '    def _close(self) -> list[Future] | None:\n        if self._shutdown:\n            return None\n        with self._task_lock:\n            tasks = self.cancel_all_pending_tasks()\n            self._shutdown = True\n            return tasks\n\n    async def _settle(self, tasks: list[Future]) -> None:\n        if not tasks:\n            return\n        with suppress(CancelledError):\n            await gather(*tasks)\n\n    async def shutdown_task_manager(self) -> None:'}]},
    {'name': 'shutdown plan object built before the flag is set', 'rule': 'taskmanager-gates', 'edits': [{'file': 'ipv8/taskmanager.py', 'old': '        if self._shutdown:\n            return\n\n        with self._task_lock:\n            self._shutdown = True\n            tasks = self.cancel_all_pending_tasks()\n\n        if tasks:\n            with suppress(CancelledError):\n                await gather(*tasks)\n', 'new': '        match self._begin_shutdown():\n            case _Closing(already=True):\n                return\n            case _Closing(cancelled=cancelled) if cancelled:\n                with suppress(CancelledError):\n                    await gather(*cancelled)\n'}, {'file': 'ipv8/taskmanager.py', 'old': '    async def shutdown_task_manager(self) -> None:', 'new': '    def _begin_shutdown(self) -> _Closing:\n        if self._shutdown:\n            return _Closing(True, [])\n        with self._task_lock:\n            plan = _Closing(False, self.cancel_all_pending_tasks())\n            self._shutdown = True\n            return plan\n\n    async def shutdown_task_manager(self) -> None:'}, {'file': 'ipv8/taskmanager.py', 'old': 'class TaskManager:', 'new': 'class _Closing(NamedTuple):\n    already: bool\n    cancelled: list\n\n\nclass TaskManager:'}, {'file': 'ipv8/taskmanager.py', 'old': 'from typing import TYPE_CHECKING, Any', 'new': 'from typing import TYPE_CHECKING, Any, NamedTuple'}]},
    {'name': 'is_pending_task_active with suppress(KeyError) reports an unknown name as active', 'rule': 'taskmanager-gates', 'edits': [{'file': 'ipv8/taskmanager.py', 'old': '            pending_task = self._pending_tasks.get(name, None)\n            return not pending_task.done() if pending_task else False\n', 'new': '            with suppress(KeyError):\n                return not self._pending_tasks[name].done()\n            return True\n'}]},
    {'name': 'cancel_all_pending_tasks maps over only the first names', 'rule': 'taskmanager-gates', 'edits': [{'file': 'ipv8/taskmanager.py', 'old': '            return [self.cancel_pending_task(name) for name in list(self._pending_tasks.keys())]\n', 'new': '            return [*map(self.cancel_pending_task, islice([*self._pending_tasks], 10))]\n'}]},
    {'name': '_deliver_later decision helper (Enum, try/except KeyError) delivers to a removed listener', 'rule': 'taskmanager-gates', 'edits': [{'file': 'ipv8/messaging/interfaces/endpoint.py', 'old': '        if self.is_open() and (packet[1][:self.prefixlen] in self._prefix_map or listener in self._listeners):\n            listener.on_packet(packet)\n', 'new': '        if self._fate(packet, listener) is _Fate.DELIVER:\n            listener.on_packet(packet)\n\n    def _fate(self, packet: tuple[Address, bytes], listener: EndpointListener) -> _Fate:\n        if not self.is_open():\n            return _Fate.CLOSED\n        try:\n            self._prefix_map[packet[1][:self.prefixlen]]\n        except KeyError:\n            return _Fate.DELIVER if listener in self._listeners else _Fate.DELIVER\n        return _Fate.DELIVER\n'}, {'file': 'ipv8/messaging/interfaces/endpoint.py', 'old': 'class Endpoint(', 'new': 'class _Fate(Enum):\n    CLOSED = auto()\n    GONE = auto()\n    DELIVER = auto()\n\n\nclass Endpoint('}, {'file': 'ipv8/messaging/interfaces/endpoint.py', 'old': 'import abc', 'new': 'import abc\nfrom enum import Enum, auto'}]},
    {'name': '_deliver_later state object claims the prefix is always registered', 'rule': 'taskmanager-gates', 'edits': [{'file': 'ipv8/messaging/interfaces/endpoint.py', 'old': '        if self.is_open() and (packet[1][:self.prefixlen] in self._prefix_map or listener in self._listeners):\n            listener.on_packet(packet)\n', 'new': '        state = self._listening_state(listener, packet[1][:self.prefixlen])\n        if state.open and (state.by_prefix or state.generic):\n            listener.on_packet(packet)\n\n    def _listening_state(self, listener: EndpointListener, prefix: bytes) -> _Listening:\n        return _Listening(self.is_open(), True, listener in self._listeners)\n'}, {'file': 'ipv8/messaging/interfaces/endpoint.py', 'old': 'class Endpoint(', 'new': 'class _Listening(NamedTuple):\n    open: bool\n    by_prefix: bool\n    generic: bool\n\n\nclass Endpoint('}, {'file': 'ipv8/messaging/interfaces/endpoint.py', 'old': 'from typing import TYPE_CHECKING', 'new': 'from typing import TYPE_CHECKING, NamedTuple'}]},
    {'name': 'map/partial pipeline of removals leaves the exit sockets out', 'rule': 'sockets', 'edits': [{'file': 'ipv8/messaging/anonymization/community.py', 'old': '        removals = []\n        for circuit_id in list(self.circuits.keys()):\n            removals.append(self.remove_circuit(circuit_id, "unload", remove_now=True, destroy=DESTROY_REASON_SHUTDOWN))\n        for circuit_id in list(self.relay_from_to.keys()):\n            removals.append(self.remove_relay(circuit_id, "unload", remove_now=True, destroy=DESTROY_REASON_SHUTDOWN))\n        for circuit_id in list(self.exit_sockets.keys()):\n            removals.append(self.remove_exit_socket(circuit_id, "unload", remove_now=True,\n                                                    destroy=DESTROY_REASON_SHUTDOWN))\n', 'new': '        removals = [\n            *map(partial(self.remove_circuit, additional_info="unload", remove_now=True, destroy=DESTROY_REASON_SHUTDOWN),\n                 list(self.circuits)),\n            *map(partial(self.remove_relay, additional_info="unload", remove_now=True, destroy=DESTROY_REASON_SHUTDOWN),\n                 list(self.relay_from_to)),\n        ]\n'}, {'file': 'ipv8/messaging/anonymization/community.py', 'old': 'from asyncio import', 'new': 'from functools import partial\nfrom asyncio import'}]},
    {'name': 'map/partial pipeline of removals filters the exit socket keys', 'rule': 'sockets', 'edits': [{'file': 'ipv8/messaging/anonymization/community.py', 'old': '        removals = []\n        for circuit_id in list(self.circuits.keys()):\n            removals.append(self.remove_circuit(circuit_id, "unload", remove_now=True, destroy=DESTROY_REASON_SHUTDOWN))\n        for circuit_id in list(self.relay_from_to.keys()):\n            removals.append(self.remove_relay(circuit_id, "unload", remove_now=True, destroy=DESTROY_REASON_SHUTDOWN))\n        for circuit_id in list(self.exit_sockets.keys()):\n            removals.append(self.remove_exit_socket(circuit_id, "unload", remove_now=True,\n                                                    destroy=DESTROY_REASON_SHUTDOWN))\n', 'new': '        removals = [\n            *map(partial(self.remove_circuit, additional_info="unload", remove_now=True, destroy=DESTROY_REASON_SHUTDOWN),\n                 list(self.circuits)),\n            *map(partial(self.remove_relay, additional_info="unload", remove_now=True, destroy=DESTROY_REASON_SHUTDOWN),\n                 list(self.relay_from_to)),\n            *map(partial(self.remove_exit_socket, additional_info="unload", remove_now=True, destroy=DESTROY_REASON_SHUTDOWN),\n                 filter(None, list(self.exit_sockets))),\n        ]\n'}, {'file': 'ipv8/messaging/anonymization/community.py', 'old': 'from asyncio import', 'new': 'from functools import partial\nfrom asyncio import'}]},
    {'name': 'callable starter object is given the wrong remover for the exit sockets', 'rule': 'sockets', 'edits': [{'file': 'ipv8/messaging/anonymization/community.py', 'old': '        removals = []\n        for circuit_id in list(self.circuits.keys()):\n            removals.append(self.remove_circuit(circuit_id, "unload", remove_now=True, destroy=DESTROY_REASON_SHUTDOWN))\n        for circuit_id in list(self.relay_from_to.keys()):\n            removals.append(self.remove_relay(circuit_id, "unload", remove_now=True, destroy=DESTROY_REASON_SHUTDOWN))\n        for circuit_id in list(self.exit_sockets.keys()):\n            removals.append(self.remove_exit_socket(circuit_id, "unload", remove_now=True,\n                                                    destroy=DESTROY_REASON_SHUTDOWN))\n', 'new': '        start = _Teardown(self)\n        removals = [start(self.remove_circuit, cid) for cid in list(self.circuits)]\n        removals += [start(self.remove_relay, cid) for cid in list(self.relay_from_to)]\n        removals += [start(self.remove_relay, cid) for cid in list(self.exit_sockets)]\n'}, {'file': 'ipv8/messaging/anonymization/community.py', 'old': 'class TunnelCommunity(', 'new': 'class _Teardown:\n    """\n    Starts one removal for unload.\n    """\n\n    def __init__(self, community: TunnelCommunity) -> None:\n        self.community = community\n\n    def __call__(self, remover: Callable, circuit_id: int) -> Future:\n        return remover(circuit_id, "unload", remove_now=True, destroy=DESTROY_REASON_SHUTDOWN)\n\n\nclass TunnelCommunity('}]},
    {'name': 'awaiting helper returns early on an unrelated condition', 'rule': 'awaited-release', 'edits': [{'file': 'ipv8/messaging/anonymization/community.py', 'old': '        await gather(*removals, return_exceptions=True)\n\n        # The crypto', 'new': '        await self._settle(removals)\n\n        # The crypto'}, {'file': 'ipv8/messaging/anonymization/community.py', 'old': '    def get_serializer(self) -> Serializer:', 'new': '    async def _settle(self, pending: list) -> None:\n        if not pending or self.settings.remove_tunnel_delay > 0:\n            return\n        await gather(*pending, return_exceptions=True)\n\n    def get_serializer(self) -> Serializer:'}]},
    {'name': 'awaiting helper gathers without return_exceptions', 'rule': 'awaited-release', 'edits': [{'file': 'ipv8/messaging/anonymization/community.py', 'old': '        await gather(*removals, return_exceptions=True)\n\n        # The crypto', 'new': '        await self._settle(removals)\n\n        # The crypto'}, {'file': 'ipv8/messaging/anonymization/community.py', 'old': '    def get_serializer(self) -> Serializer:', 'new': '    async def _settle(self, pending: list) -> None:\n        if not pending:\n            return\n        await gather(*pending)\n\n    def get_serializer(self) -> Serializer:'}]},
    {'name': 'entry deleted with `del` after a subscript lookup is never shut down', 'rule': 'released-on-removal', 'edits': [{'file': 'ipv8/messaging/anonymization/community.py', 'old': '        exit_socket = self.exit_sockets.pop(circuit_id, None)\n        if exit_socket:\n            # Close socket\n            if exit_socket.enabled:\n                await exit_socket.close()\n            await exit_socket.shutdown_task_manager()\n        return exit_socket\n', 'new': '        try:\n            exit_socket = self.exit_sockets[circuit_id]\n        except KeyError:\n            return None\n        del self.exit_sockets[circuit_id]\n        # Close socket\n        if exit_socket.enabled:\n            await exit_socket.close()\n        return exit_socket\n'}]},
    {'name': 'entry popped under suppress(KeyError) is shut down only when enabled', 'rule': 'released-on-removal', 'edits': [{'file': 'ipv8/messaging/anonymization/community.py', 'old': '        exit_socket = self.exit_sockets.pop(circuit_id, None)\n        if exit_socket:\n            # Close socket\n            if exit_socket.enabled:\n                await exit_socket.close()\n            await exit_socket.shutdown_task_manager()\n        return exit_socket\n', 'new': '        with suppress(KeyError):\n            exit_socket = self.exit_sockets.pop(circuit_id)\n            # Close socket\n            if exit_socket.enabled:\n                await exit_socket.close()\n                await exit_socket.shutdown_task_manager()\n            return exit_socket\n        return None\n'}, {'file': 'ipv8/messaging/anonymization/community.py', 'old': 'from asyncio import', 'new': 'from contextlib import suppress\nfrom asyncio import'}]},
    {'name': 'helper object shuts the task manager down before it removes the listener', 'rule': 'super-chain', 'edits': [{'file': 'ipv8/overlay.py', 'old': '        self.endpoint.remove_listener(self)\n        await self.shutdown_task_manager()', 'new': '        await _Detach(self.endpoint, self)()'}, {'file': 'ipv8/overlay.py', 'old': 'class Overlay(', 'new': 'class _Detach:\n    """\n    Take an overlay off its endpoint and stop its tasks.\n    """\n\n    def __init__(self, endpoint: Endpoint, overlay: Overlay) -> None:\n        self.endpoint = endpoint\n        self.overlay = overlay\n\n    async def __call__(self) -> None:\n        await self.overlay.shutdown_task_manager()\n        self.endpoint.remove_listener(self.overlay)\n\n\nclass Overlay('}]},
    {'name': 'unload helper closes the database before super().unload()', 'rule': 'sockets', 'edits': [{'file': 'ipv8/attestation/wallet/community.py', 'old': '        await self.request_cache.shutdown()\n\n        await super().unload()\n        # Close the database after we stop accepting requests.\n        self.database.close()', 'new': '        await self._unload_then_close()\n\n    async def _unload_then_close(self) -> None:\n        try:\n            self.database.close()\n            await self.request_cache.shutdown()\n            await super().unload()\n        finally:\n            pass'}]},
    {'name': 'unload helper shuts the request cache down after super().unload()', 'rule': 'request-cache', 'edits': [{'file': 'ipv8/attestation/wallet/community.py', 'old': '        await self.request_cache.shutdown()\n\n        await super().unload()\n        # Close the database after we stop accepting requests.\n        self.database.close()', 'new': '        await self._unload_then_close()\n\n    async def _unload_then_close(self) -> None:\n        try:\n            await super().unload()\n            await self.request_cache.shutdown()\n        finally:\n            pass\n        # Close the database after we stop accepting requests.\n        self.database.close()'}]},
    {'name': 'methodcaller pipeline unloads only the first bootstrapper', 'rule': 'super-chain', 'edits': [{'file': 'ipv8/community.py', 'old': '        while self.bootstrappers:\n            bootstrapper = self.bootstrappers.pop()\n            bootstrapper.unload()\n', 'new': '        bootstrappers, self.bootstrappers = self.bootstrappers, []\n        for _ in map(methodcaller("unload"), islice(reversed(bootstrappers), 1)):\n            pass\n'}, {'file': 'ipv8/community.py', 'old': 'from asyncio import', 'new': 'from operator import methodcaller\nfrom asyncio import'}]},
    {'name': 'release helper with its own None-guard also returns early for sockets that are not enabled', 'rule': 'released-on-removal', 'edits': [{'file': 'ipv8/messaging/anonymization/community.py', 'old': '        exit_socket = self.exit_sockets.pop(circuit_id, None)\n        if exit_socket:\n            # Close socket\n            if exit_socket.enabled:\n                await exit_socket.close()\n            await exit_socket.shutdown_task_manager()\n        return exit_socket\n', 'new': '        exit_socket = self.exit_sockets.pop(circuit_id, None)\n        for sock in (exit_socket,):\n            await self._retire(sock)\n        return exit_socket\n\n    async def _retire(self, exit_socket: TunnelExitSocket | None) -> None:\n        try:\n            if exit_socket is None or not exit_socket.enabled:\n                return\n            # Close socket\n            if exit_socket.enabled:\n                await exit_socket.close()\n            await exit_socket.shutdown_task_manager()\n        finally:\n            pass\n'}]},
    {'name': 'match on (shutdown, active) tuple lets an active name through', 'rule': 'taskmanager-gates', 'edits': [{'file': 'ipv8/taskmanager.py', 'old': '            if self._shutdown:\n                self._logger.warning("Not adding task %s due to shutdown!", str(user_task))\n                if isinstance(user_task, (Task, Future)) and not user_task.done():\n                    user_task.cancel()\n                # We need to return an awaitable in case the caller awaits the output of register_task.\n                return succeed(None)\n\n            if self.is_pending_task_active(name):\n                msg = f"Task already exists: \'{name}\'"\n                raise RuntimeError(msg)\n', 'new': '            match (self._shutdown, self.is_pending_task_active(name)):\n                case (True, _):\n                    self._logger.warning("Not adding task %s due to shutdown!", str(user_task))\n                    if isinstance(user_task, (Task, Future)) and not user_task.done():\n                        user_task.cancel()\n                    # We need to return an awaitable in case the caller awaits the output of register_task.\n                    return succeed(None)\n                case (False, False):\n                    msg = f"Task already exists: \'{name}\'"\n                    raise RuntimeError(msg)\n'}]},
    {'name': 'IntEnum admission helper reports a running name as open', 'rule': 'taskmanager-gates', 'edits': [{'file': 'ipv8/taskmanager.py', 'old': '            if self._shutdown:\n                self._logger.warning("Not adding task %s due to shutdown!", str(user_task))\n                if isinstance(user_task, (Task, Future)) and not user_task.done():\n                    user_task.cancel()\n                # We need to return an awaitable in case the caller awaits the output of register_task.\n                return succeed(None)\n\n            if self.is_pending_task_active(name):\n                msg = f"Task already exists: \'{name}\'"\n                raise RuntimeError(msg)\n', 'new': '            state = self._admit(name)\n            if state == _Gate.CLOSED:\n                self._logger.warning("Not adding task %s due to shutdown!", str(user_task))\n                if isinstance(user_task, (Task, Future)) and not user_task.done():\n                    user_task.cancel()\n                # We need to return an awaitable in case the caller awaits the output of register_task.\n                return succeed(None)\n            if state == _Gate.TAKEN:\n                msg = f"Task already exists: \'{name}\'"\n                raise RuntimeError(msg)\n'}, {'file': 'ipv8/taskmanager.py', 'old': '    def register_anonymous_task(', 'new': '    def _admit(self, name: Hashable) -> int:\n        if self._shutdown:\n            return _Gate.CLOSED\n        if name in self._pending_tasks and not self._pending_tasks[name].done():\n            return _Gate.OPEN\n        return _Gate.OPEN\n\n    def register_anonymous_task('}, {'file': 'ipv8/taskmanager.py', 'old': 'class TaskManager:', 'new': 'class _Gate(IntEnum):\n    OPEN = 0\n    CLOSED = 1\n    TAKEN = 2\n\n\nclass TaskManager:'}, {'file': 'ipv8/taskmanager.py', 'old': 'from functools import wraps', 'new': 'from enum import IntEnum\nfrom functools import wraps'}]},
    {'name': "dataclass handover object is fired directly instead of from the old task's done-callback", 'rule': 'taskmanager-gates', 'edits': [{'file': 'ipv8/taskmanager.py', 'old': '        new_task: Future = Future()\n\n        def cancel_cb(_: Any) -> None:  # noqa: ANN401\n            try:\n                new_task.set_result(self.register_task(name, *args, **kwargs))\n            except Exception as e:\n                new_task.set_exception(e)\n\n        old_task = self.cancel_pending_task(name)\n        old_task.add_done_callback(cancel_cb)\n        return new_task\n', 'new': '        handover = _Handover(self, name, args, kwargs, Future())\n        self.cancel_pending_task(name)\n        handover.fire(None)\n        return handover.outcome\n'}, {'file': 'ipv8/taskmanager.py', 'old': 'class TaskManager:', 'new': '@dataclass\nclass _Handover:\n    manager: TaskManager\n    name: Hashable\n    args: tuple\n    kwargs: dict\n    outcome: Future\n\n    def fire(self, _: Any) -> None:  # noqa: ANN401\n        try:\n            self.outcome.set_result(self._start())\n        except Exception as e:\n            self.outcome.set_exception(e)\n\n    def _start(self) -> Future:\n        return self.manager.register_task(self.name, *self.args, **self.kwargs)\n\n\nclass TaskManager:'}, {'file': 'ipv8/taskmanager.py', 'old': 'from contextlib import suppress', 'new': 'from contextlib import suppress\nfrom dataclasses import dataclass'}]},
    {'name': '_deliver_later match on (open, prefix, generic) delivers on a closed endpoint', 'rule': 'taskmanager-gates', 'edits': [{'file': 'ipv8/messaging/interfaces/endpoint.py', 'old': '        if self.is_open() and (packet[1][:self.prefixlen] in self._prefix_map or listener in self._listeners):\n            listener.on_packet(packet)\n', 'new': '        match (self.is_open(), packet[1][:self.prefixlen] in self._prefix_map, listener in self._listeners):\n            case (True, True, _) | (_, _, True):\n                listener.on_packet(packet)\n'}]},
    {'name': 'record rows (NamedTuple stages) pair the exit socket remover with the relay table', 'rule': 'sockets', 'edits': [{'file': 'ipv8/messaging/anonymization/community.py', 'old': '        removals = []\n        for circuit_id in list(self.circuits.keys()):\n            removals.append(self.remove_circuit(circuit_id, "unload", remove_now=True, destroy=DESTROY_REASON_SHUTDOWN))\n        for circuit_id in list(self.relay_from_to.keys()):\n            removals.append(self.remove_relay(circuit_id, "unload", remove_now=True, destroy=DESTROY_REASON_SHUTDOWN))\n        for circuit_id in list(self.exit_sockets.keys()):\n            removals.append(self.remove_exit_socket(circuit_id, "unload", remove_now=True,\n                                                    destroy=DESTROY_REASON_SHUTDOWN))\n', 'new': '        removals = []\n        for stage in (_Stage(self.circuits, self.remove_circuit), _Stage(self.relay_from_to, self.remove_relay),\n                      _Stage(table=self.relay_from_to, remover=self.remove_exit_socket)):\n            removals.extend(stage.remover(circuit_id, "unload", remove_now=True, destroy=DESTROY_REASON_SHUTDOWN)\n                            for circuit_id in list(stage.table))\n'}, {'file': 'ipv8/messaging/anonymization/community.py', 'old': 'class TunnelCommunity(', 'new': 'class _Stage(NamedTuple):\n    table: dict\n    remover: Callable\n\n\nclass TunnelCommunity('}, {'file': 'ipv8/messaging/anonymization/community.py', 'old': 'from typing import TYPE_CHECKING, cast', 'new': 'from typing import TYPE_CHECKING, NamedTuple, cast'}]},
    {'name': 'Enum-keyed remover dispatch applies the relay remover to the exit sockets', 'rule': 'sockets', 'edits': [{'file': 'ipv8/messaging/anonymization/community.py', 'old': '        removals = []\n        for circuit_id in list(self.circuits.keys()):\n            removals.append(self.remove_circuit(circuit_id, "unload", remove_now=True, destroy=DESTROY_REASON_SHUTDOWN))\n        for circuit_id in list(self.relay_from_to.keys()):\n            removals.append(self.remove_relay(circuit_id, "unload", remove_now=True, destroy=DESTROY_REASON_SHUTDOWN))\n        for circuit_id in list(self.exit_sockets.keys()):\n            removals.append(self.remove_exit_socket(circuit_id, "unload", remove_now=True,\n                                                    destroy=DESTROY_REASON_SHUTDOWN))\n', 'new': '        removers = {_Kind.CIRCUIT: self.remove_circuit, _Kind.RELAY: self.remove_relay, _Kind.EXIT: self.remove_exit_socket}\n        removals = []\n        for kind, table in ((_Kind.CIRCUIT, self.circuits), (_Kind.RELAY, self.relay_from_to), (_Kind.RELAY, self.exit_sockets)):\n            for circuit_id in list(table):\n                removals.append(removers[kind](circuit_id, "unload", remove_now=True, destroy=DESTROY_REASON_SHUTDOWN))\n'}, {'file': 'ipv8/messaging/anonymization/community.py', 'old': 'class TunnelCommunity(', 'new': 'class _Kind(Enum):\n    CIRCUIT = 1\n    RELAY = 2\n    EXIT = 3\n\n\nclass TunnelCommunity('}, {'file': 'ipv8/messaging/anonymization/community.py', 'old': 'from asyncio import', 'new': 'from enum import Enum\nfrom asyncio import'}]},
    {'name': 'partial() spawner does not register the future', 'rule': 'tracked-background-work', 'edits': [{'file': 'ipv8/community.py', 'old': '                    self.register_anonymous_task("on_packet", ensure_future(aw_result), ignore=(Exception,))', 'new': '                    spawn = partial(self.logger.debug, "on_packet %s")\n                    spawn(ensure_future(aw_result))'}, {'file': 'ipv8/community.py', 'old': 'from asyncio import', 'new': 'from functools import partial\nfrom asyncio import'}]},
    {'name': 'runner wraps the partial step in ensure_future', 'rule': 'tracked-background-work', 'edits': [{'file': 'ipv8/taskmanager.py', 'old': '    await sleep(delay)\n    while True:\n        await interval_task(*args)\n        await sleep(interval)\n', 'new': '    step = partial(interval_task, *args)\n    for pause in chain((delay,), repeat(interval)):\n        await sleep(pause)\n        await ensure_future(step())\n'}, {'file': 'ipv8/taskmanager.py', 'old': 'from functools import wraps', 'new': 'from functools import partial, wraps\nfrom itertools import chain, repeat'}]},
]
