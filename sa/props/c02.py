"""C02 - Every shipped wire message survives encode/decode unchanged."""
from __future__ import annotations

import ast
import json
import os
import re
import struct

from ..core import Ctx
from ..match import arg
from ..model import NOCONST, AnalysisError, ClassInfo, FuncInfo, chain, const_value, norm, strip_cast, walk_no_nested
from .c02_packers import Mini, MiniRaised, MiniUndecided, Opaque, _Brk, _Cont, _Obj, _Ret, struct_hooks
from ..terms import Const, Field, T, TermEval, Undecided, is_const, simplify, struct_arity

LEVEL = "other"
EXPLANATION = (
    "Decoder = inverse of encoder as terms: for each hand-written Serializable, to_pack_list is evaluated to wire terms "
    "over the instance fields, flattened by packer arity (bits -> 8 values, multi-value structs -> one tuple value), bound "
    "to from_unpack_list's parameters and pushed through the constructor; every field read by the encoder must come back "
    "as itself (rewrites: idempotent % 65536, chunks(join(xs), n) = xs, struct-strided chunks; finite enumeration for bit "
    "selectors and the documented connection-type domain); the format sequence of to_pack_list equals format_list. Where the three methods "
    "are not straight-line code (locals built in loops, result objects, helper decisions, partial application, **fields, itertools pipelines) "
    "they are INTERPRETED over the same terms: control flow and containers are plain Python, only operations on field / wire values build terms, "
    "and anything that would need the value of a term is undecided. Every "
    "VariablePayload definition has names/format arity agreement, raw only last, registered formats, paired hooks. Every "
    "Packer is abstractly run path by path: the bytes read by unpack tile [offset, returned offset) exactly, every returning path delivers "
    "exactly the value(s) the format stands for to the unpack list (one; eight for bits), every mention of the buffer is an accounted use, "
    "small result objects (NamedTuple / dataclass / record class / tuple / slice) are followed part by part, and pack writes the same "
    "layout (same length format and unit; wire values are named by the read they come from, not by the local that holds them; "
    "helpers that receive the buffer are run in a frame of their own, scans of / lookups in constant tables are taken entry by entry, "
    "the bytes pack returns are followed through locals, joins, part lists, with/try blocks and loops); "
    "per address tag - the first wire byte is assumed to be that tag and the conditions on it are evaluated - the decoder reads the "
    "layout and uses the inet_* partner of the pack branch that writes the tag. "
    "ListOf framing that is not the reviewed counting loop is decided by interpreting __init__/pack/unpack with a stand-in item packer for every "
    "count a one-byte prefix can hold. "
    "The Serializer's registration table is what its constructor computes (interpreted), and every pack()/unpack() its coding methods "
    "make takes the packer from that per-instance table only (no module-level / stale copy of resolved packers). "
    "Registered format names agree with the grammar their name spells and with the byte counts of "
    "doc/reference/serialization.rst. Bits.pack/unpack and the cell codec (CellPayload.to_bin/from_bin/unwrap, "
    "TunnelCommunity.send_cell) are decided by evaluating their AST with a small interpreter on the whole finite domain "
    "(256 bytes) / on sample cells covering every flag combination, so only what they compute counts, not its spelling. "
    "Values of struct/inet_* are trusted stdlib semantics."
)

SER = "ipv8/messaging/serialization.py"
TABLES = os.path.join(os.path.dirname(os.path.dirname(__file__)), "tables")


# ------------------------------------------------------------------------------------------ serializer table
class _Made:
    """record of a constructor call evaluated while interpreting Serializer.__init__"""

    def __init__(self, cls: str, args: list, kwargs: dict) -> None:
        self.cls, self.args, self.kwargs = cls, args, kwargs

    def to_ast(self) -> ast.Call:
        def conv(v):
            if isinstance(v, _Made):
                return v.to_ast()
            if isinstance(v, Opaque):
                return ast.Name(id="self" if v.label.startswith("Serializer") else v.label, ctx=ast.Load())
            if isinstance(v, (str, bytes, int, float, bool, type(None))):
                return ast.Constant(value=v)
            if isinstance(v, (tuple, list)):
                return (ast.Tuple if isinstance(v, tuple) else ast.List)(elts=[conv(x) for x in v], ctx=ast.Load())
            raise MiniUndecided(f"constructor argument {v!r}")
        call = ast.Call(func=ast.Name(id=self.cls, ctx=ast.Load()), args=[conv(a) for a in self.args],
                        keywords=[ast.keyword(arg=k, value=conv(v)) for k, v in self.kwargs.items()])
        return ast.fix_missing_locations(call)


def serializer_table(ctx: Ctx) -> dict[str, ast.Call]:
    """
    name -> constructor call of the packer registered under it by Serializer.__init__.  Decided by interpreting __init__ (dict display,
    later .update() / item assignments, comprehensions over constant name tuples, private helper functions): what counts is the table the
    constructor leaves in self._packers, not how it is written.  Falls back to the dict display assigned to self._packers when the
    constructor does something the interpreter does not model.
    """
    cached = getattr(ctx, "_c02_serializer_table", None)
    if cached is not None:
        return cached
    init = ctx.repo.method("Serializer", "__init__", SER)
    me = Opaque("Serializer instance")

    def hooks(name, base, args, kwargs):
        if name == "super":
            return Opaque("super")
        if isinstance(base, Opaque) and base.label == "super":
            return None
        if name is not None and base is None:
            k = ctx.repo.resolve_class_expr(init.module, ast.parse(name, mode="eval").body) if re.fullmatch(r"[A-Za-z_][\w.]*", name) else None
            if k is not None and any(c.name == "Packer" for c in k.mro()):
                return _Made(k.name, list(args), dict(kwargs))
            # (other small classes - a NamedTuple spec of a table the constructor is built from - are constructed by the interpreter itself)
        return NotImplemented
    table = None
    try:
        Mini(ctx.repo, init, hooks)(me)
        made = me.attrs.get("_packers")
        if isinstance(made, dict) and made and all(isinstance(k, str) and isinstance(v, _Made) for k, v in made.items()):
            table = {k: v.to_ast() for k, v in made.items()}
    except (MiniUndecided, MiniRaised):
        table = None
    ctx._c02_table_exact = table is not None
    if table is None:
        for s in walk_no_nested(init.node):
            v = getattr(s, "value", None)
            tgt = s.targets[0] if isinstance(s, ast.Assign) else getattr(s, "target", None)
            if isinstance(s, (ast.Assign, ast.AnnAssign)) and isinstance(v, ast.Dict) and tgt is not None and chain(tgt) == "self._packers":
                table = {const_value(k): strip_cast(val) for k, val in zip(v.keys, v.values)}
                break
    if table is None:
        raise AnalysisError("anchor-lost: Serializer._packers table")
    ctx._c02_serializer_table = table       # (rules ask for the table several times)
    return table


def _table_is_interpreted(ctx: Ctx) -> bool:
    """True when serializer_table() is the table Serializer.__init__ computes (interpreted), not just the first dict display found."""
    init = ctx.repo.method("Serializer", "__init__", SER)
    displays = [s for s in walk_no_nested(init.node) if isinstance(s, (ast.Assign, ast.AnnAssign)) and isinstance(getattr(s, "value", None), ast.Dict)
                and chain(s.targets[0] if isinstance(s, ast.Assign) else s.target) == "self._packers"]
    t = serializer_table(ctx)
    return getattr(ctx, "_c02_table_exact", False) and not (len(displays) == 1 and [const_value(k) for k in displays[0].value.keys] == list(t))


def extra_packers(ctx: Ctx) -> dict[str, tuple[str, ast.Call]]:
    from ..match import resolve
    out = {}
    for m, fi, c in ctx.repo.callers_of_name("add_packer"):
        if fi is None or fi.qualname == "Serializer.add_packer":
            continue
        ne, pe = arg(c, 0, "name"), arg(c, 1, "packer")
        if ne is None or pe is None:
            continue
        ne = resolve(fi, ne)                      # a local alias of the name / a module-level or class-level constant
        name = const_value(ne)
        if not isinstance(name, str):
            name = ctx.repo.resolve_const(fi.module, ne, fi.cls)
        packer = strip_cast(resolve(fi, pe))
        if isinstance(name, str):
            out[name] = (fi.cls.name if fi.cls else "?", packer)
        else:
            # registered under a computed name (a loop over a table of packers): which names exist is then not known from this call -
            # recorded as "any name", so that no format is reported as unregistered on the strength of an incomplete list
            out["*"] = (fi.cls.name if fi.cls else "?", packer)
    return out


def packer_arity(table: dict[str, ast.Call], fmt: str) -> int | str:
    """Number of python values one format consumes in to_pack_list / yields in from_unpack_list."""
    c = table.get(fmt)
    if not isinstance(c, ast.Call):
        return 1
    if chain(c.func) == "Bits":
        return 8
    return 1


def struct_values(table: dict[str, ast.Call], fmt: str) -> int:
    c = table.get(fmt)
    if c is not None and chain(c.func) == "DefaultStruct":
        f = const_value(c.args[0])
        if isinstance(f, str):
            return struct_arity(f)
    return 1


# ------------------------------------------------------------------------------------------ TERM rule
class _TermEval(TermEval):
    """TermEval + element-wise struct decoding of a joined byte string: list(iter_unpack(F, X)) = chunks of calcsize(F) decoded field by field."""

    def ev(self, e: ast.AST) -> T:
        e0 = strip_cast(e)
        if isinstance(e0, ast.Call) and chain(e0.func) in ("list", "tuple") and len(e0.args) == 1 and not e0.keywords:
            inner = strip_cast(e0.args[0])
            if isinstance(inner, ast.Call) and chain(inner.func) in ("iter_unpack", "struct.iter_unpack") and len(inner.args) == 2 and chain(e0.func) == "list":
                fmt = const_value(inner.args[0])
                if isinstance(fmt, str):
                    try:
                        lay = _struct_field_layout(fmt)
                        size = struct.calcsize(fmt)
                    except struct.error as ex:
                        raise Undecided(f"struct format {fmt!r}") from ex
                    prefix = fmt[0] if fmt[0] in "<>!=@" else ""
                    pieces = tuple((off, off + sz, "bytes" if code == "s" else f"unpack:{prefix}{code}") for off, sz, code in lay)
                    # every element is the tuple of all fields (iter_unpack yields tuples)
                    return simplify(T("chunks", (self.ev(inner.args[1]), Const(size), Const(pieces))))
        if isinstance(e0, (ast.Tuple, ast.List)) and any(isinstance(x, ast.Starred) for x in e0.elts):
            elts: list[T] = []
            for x in e0.elts:
                if isinstance(x, ast.Starred):
                    seq = self.ev(x.value)             # (a, *rest): the elements of a tuple / list term, in place
                    if seq.op not in ("tuple", "list"):
                        raise Undecided(f"starred element `{norm(x)[:40]}`")
                    elts.extend(seq.args)
                else:
                    elts.append(self.ev(x))
            return T("tuple" if isinstance(e0, ast.Tuple) else "list", tuple(elts))
        if isinstance(e0, ast.UnaryOp) and isinstance(e0.op, ast.Not):
            return T("not", (self.ev(e0.operand),))
        if isinstance(e0, ast.BinOp) and isinstance(e0.op, ast.BitAnd):
            for x, m in ((e0.left, e0.right), (e0.right, e0.left)):
                mask = self.repo.resolve_const(self.fi.module, m, self.fi.cls)
                if isinstance(mask, int) and not isinstance(mask, bool) and mask > 0 and (mask & (mask + 1)) == 0:
                    return simplify(T("mod", (self.ev(x), Const(mask + 1))))        # x & (2**k - 1) == x % 2**k for every int x
        if isinstance(e0, ast.Call) and chain(e0.func) in ("list", "tuple") and len(e0.args) == 1 and not e0.keywords:
            inner = strip_cast(e0.args[0])
            # list(<generator expression>) = the list comprehension;  list(map(lambda x: E, Y)) = [E for x in Y]
            comp = _as_listcomp(inner)
            if comp is not None and chain(e0.func) == "list":
                return self.ev(comp)
            # list(<list-valued term>) = the same elements (a call that was followed into a generator / list helper, a comprehension)
            if chain(e0.func) == "list":
                t = self.ev(inner)
                if t.op in ("chunks", "map", "list"):
                    return t
                return T("call", ("list", t))
        if isinstance(e0, ast.GeneratorExp) or (isinstance(e0, ast.Call) and chain(e0.func) == "map"):
            comp = _as_listcomp(e0)
            if comp is not None:
                return self.ev(comp)         # consumed element by element, in order: as a term the same sequence
        if isinstance(e0, ast.Call):
            followed = self._follow(e0)
            if followed is not None:
                return followed
            fname = chain(e0.func)
            if fname is not None and fname not in ("pack", "struct.pack") and any(isinstance(a, ast.Starred) for a in e0.args) and not e0.keywords:
                args: list[T] = []
                for a in e0.args:
                    if isinstance(a, ast.Starred):
                        seq = self.ev(a.value)         # f(*pair): the elements of a tuple / list term as separate arguments
                        if seq.op not in ("tuple", "list"):
                            raise Undecided(f"starred argument `{norm(a)[:40]}`")
                        args.extend(seq.args)
                    else:
                        args.append(self.ev(a))
                return T("call", (fname, *args))
        return super().ev(e)

    # ---- helper calls: a pure helper applied to argument terms denotes the term of its body
    _KEEP_AS_CALL = ("encode_connection_type", "decode_connection_type")     # decided by enumeration over the documented domain

    def _follow(self, call: ast.Call) -> T | None:
        f = call.func
        if any(isinstance(a, ast.Starred) for a in call.args) or any(k.arg is None for k in call.keywords) or getattr(self, "_depth", 0) > 3:
            return None
        target, recv = None, None
        if isinstance(f, ast.Name) and f.id not in self.env and f.id not in self._KEEP_AS_CALL:
            r = self.repo.resolve_name(self.fi.module, f.id)
            if isinstance(r, FuncInfo) and r.cls is None:
                target = r
        elif isinstance(f, ast.Attribute) and isinstance(f.value, ast.Name) and self.fi.cls is not None and f.attr not in self._KEEP_AS_CALL:
            params = self.fi.params()
            first = params[0] if params else None
            k = None
            if f.value.id in ("self", "cls") and f.value.id == first:
                k = self.fi.cls
            elif f.value.id not in self.env:
                k = self.repo.resolve_class_expr(self.fi.module, f.value)
            m = k.lookup(f.attr) if k is not None else None
            if m is not None and m.name not in ("to_pack_list", "from_unpack_list", "__init__"):
                decs = {d.split(".")[-1] for d in m.decorator_names()}
                if "staticmethod" in decs:
                    target = m
                elif "classmethod" in decs:
                    target, recv = m, T("cls", ())
                elif f.value.id == "self" and first == "self" and not decs:
                    target, recv = m, "self"
        if target is None or target.is_async or target is self.fi:
            return None
        try:
            argterms = [self.ev(a) for a in call.args]
            kwterms = {k.arg: self.ev(k.value) for k in call.keywords}
            return _eval_helper(self, target, recv, argterms, kwterms)
        except Undecided:
            return None

    def _listcomp(self, e: ast.ListComp, g: ast.comprehension) -> T:
        # [x for x in Y] = list(Y)
        if isinstance(g.target, ast.Name) and isinstance(e.elt, ast.Name) and e.elt.id == g.target.id:
            fake = ast.Call(func=ast.Name(id="list", ctx=ast.Load()), args=[g.iter], keywords=[])
            return self.ev(ast.copy_location(fake, e))
        if isinstance(g.target, (ast.Tuple, ast.List)):
            # [E(a, b) for a, b in Y]: a, b are the components of the element
            inner = _TermEval(self.repo, self.fi, dict(self.env), self.self_fields)
            inner._depth = getattr(self, "_depth", 0)
            _bind_target(inner, g.target, T("elem", ()))
            return _compose_map(T("map", (inner.ev(e.elt), self.ev(g.iter))))
        if isinstance(g.target, ast.Name):
            it = g.iter
            if isinstance(it, ast.Call) and chain(it.func) == "range" and len(it.args) == 3:
                try:
                    t = super()._listcomp(e, g)           # the reviewed spelling [X[i:i+n] .. for i in range(0, len(X), n)]
                    if t.op == "chunks":
                        return t
                except Undecided:
                    pass
            # the element function is evaluated by this class (not the base evaluator) so that helper calls / masks inside it are understood
            inner = _TermEval(self.repo, self.fi, {**self.env, g.target.id: T("elem", ())}, self.self_fields)
            inner._depth = getattr(self, "_depth", 0)
            return _compose_map(T("map", (inner.ev(e.elt), self.ev(it))))
        return _compose_map(super()._listcomp(e, g))


def _as_listcomp(e: ast.AST) -> ast.ListComp | None:
    """The list comprehension that yields the same elements in the same order as a generator expression / map(lambda x: E, Y)."""
    e = strip_cast(e)
    if isinstance(e, ast.GeneratorExp):
        return ast.copy_location(ast.ListComp(elt=e.elt, generators=e.generators), e)
    if isinstance(e, ast.Call) and chain(e.func) == "map" and len(e.args) == 2 and not e.keywords and isinstance(e.args[0], ast.Lambda):
        lam = e.args[0]
        a = lam.args
        if len(a.args) == 1 and not (a.posonlyargs or a.kwonlyargs or a.vararg or a.kwarg or a.defaults):
            tgt = ast.Name(id=a.args[0].arg, ctx=ast.Store())
            comp = ast.comprehension(target=tgt, iter=e.args[1], ifs=[], is_async=0)
            return ast.fix_missing_locations(ast.copy_location(ast.ListComp(elt=lam.body, generators=[comp]), e))
    return None


def _compose_map(t: T) -> T:
    """
    map(f, chunks(X, n, whole)) where f takes constant slices of its element (optionally struct-decoded) = chunks(X, n, those slices):
    entry[a:b] of entry = X[i:i+n] is X[i+a:i+min(b, n)] for every X (also for a short last chunk).
    """
    if t.op == "map" and t.args[1].op == "call" and t.args[1].args[0] == "range" and len(t.args[1].args) == 4:
        # [f(X[i+a:i+b] ..) for i in range(0, len(X), n)]: the element function takes slices of X at constant distances from the running index
        f, (_, start, stop, step) = t.args[0], t.args[1].args
        if start == Const(0) and stop.op == "len" and is_const(step) and isinstance(step.args[0], int) and not isinstance(step.args[0], bool) and step.args[0] > 0:
            src = stop.args[0]

            def dist(x: T):
                if x.op == "elem":
                    return 0
                if x.op == "add" and len(x.args) == 2:
                    for a, b in (x.args, x.args[::-1]):
                        if a.op == "elem" and is_const(b) and isinstance(b.args[0], int) and not isinstance(b.args[0], bool) and b.args[0] >= 0:
                            return b.args[0]
                return None

            def rpiece(x: T):
                dec = "bytes"
                if x.op == "index" and x.args[1] == Const(0) and x.args[0].op == "unpack" and len(x.args[0].args) == 2 and is_const(x.args[0].args[0]) \
                        and isinstance(x.args[0].args[0].args[0], str):
                    dec = "unpack:" + x.args[0].args[0].args[0]
                    x = x.args[0].args[1]
                if x.op == "slice" and x.args[0] == src:
                    lo, hi = dist(x.args[1]), dist(x.args[2])
                    if lo is not None and hi is not None:
                        return (lo, hi, dec)
                return None
            if f.op == "tuple":
                ps = [rpiece(x) for x in f.args]
                ps = ps if len(ps) >= 2 and all(p is not None for p in ps) else None
            else:
                p = rpiece(f)
                ps = [p] if p is not None else None
            if ps is not None:
                return simplify(T("chunks", (src, step, Const(tuple(ps)))))
        return t
    if t.op != "map" or t.args[1].op != "chunks":
        return t
    f, (src, stride, pieces) = t.args[0], t.args[1].args
    n = stride.args[0]
    if not isinstance(n, int) or isinstance(n, bool) or n <= 0 or pieces.args[0] != ((0, n, "bytes"),):
        return t

    def piece(x: T):
        dec = "bytes"
        if x.op == "index" and x.args[1] == Const(0) and x.args[0].op == "unpack" and len(x.args[0].args) == 2 and is_const(x.args[0].args[0]) \
                and isinstance(x.args[0].args[0].args[0], str):
            dec = "unpack:" + x.args[0].args[0].args[0]
            x = x.args[0].args[1]
        if x.op == "elem":
            return (0, n, dec)
        if x.op == "slice" and x.args[0].op == "elem" and is_const(x.args[1]) and is_const(x.args[2]):
            lo, hi = x.args[1].args[0], x.args[2].args[0]
            lo = 0 if lo is None else lo
            hi = n if hi is None else hi
            if all(isinstance(v, int) and not isinstance(v, bool) for v in (lo, hi)) and 0 <= lo <= hi:
                return (min(lo, n), min(hi, n), dec)
        return None
    if f.op == "tuple":
        ps = [piece(x) for x in f.args]
        if len(ps) < 2 or any(p is None for p in ps):
            return t
    else:
        p = piece(f)
        if p is None:
            return t
        ps = [p]
    return simplify(T("chunks", (src, stride, Const(tuple(ps)))))


def _bind_helper(ev: "_TermEval", target: FuncInfo, recv, argterms: list[T], kwterms: dict[str, T]) -> "_TermEval":
    """Evaluator for the body of `target` with its parameters bound to the caller's argument terms (recv: None | "self" | term of cls)."""
    a = target.node.args
    if a.kwarg or a.posonlyargs or a.kwonlyargs:
        raise Undecided(f"helper {target.qualname}: signature")
    params = [p.arg for p in a.args]
    env: dict[str, T] = {}
    if recv is not None:
        if not params or (recv == "self" and params[0] != "self"):
            raise Undecided(f"helper {target.qualname}: receiver parameter")
        if recv != "self":
            env[params[0]] = recv
        params = params[1:]
    defaults = dict(zip(params[len(params) - len(a.defaults):], a.defaults)) if a.defaults else {}
    rest = argterms[len(params):]
    argterms = argterms[:len(params)]
    if (rest and a.vararg is None) or set(kwterms) - set(params[len(argterms):]):
        raise Undecided(f"helper {target.qualname}: arguments do not fit the signature")
    if a.vararg is not None:
        env[a.vararg.arg] = T("tuple", tuple(rest))
    # without an instance `self.x` cannot occur: an empty field table makes any such read Undecided instead of a wrong Field term
    sub = _TermEval(ev.repo, target, env, ev.self_fields if recv == "self" else {})
    sub._depth = getattr(ev, "_depth", 0) + 1
    for i, p in enumerate(params):
        if i < len(argterms):
            sub.env[p] = argterms[i]
        elif p in kwterms:
            sub.env[p] = kwterms[p]
        elif p in defaults:
            sub.env[p] = _TermEval(ev.repo, target, {}, {}).ev(defaults[p])
        else:
            raise Undecided(f"helper {target.qualname}: missing argument {p}")
    return sub


def _eval_helper(ev: "_TermEval", target: FuncInfo, recv, argterms: list[T], kwterms: dict[str, T]) -> T:
    """
    Term of a call to a small pure helper: parameters bound to the argument terms, straight-line local assignments, then ONE `return E`
    (the term of E), or a generator body `for x in Y: yield E` / `yield from Y` (the element sequence).  Anything else: Undecided.
    """
    sub = _bind_helper(ev, target, recv, argterms, kwterms)
    body = _straight_line(target.node.body)
    for i, st in enumerate(body):
        last = i == len(body) - 1
        if isinstance(st, (ast.Assign, ast.AnnAssign)) and st.value is not None:
            tgts = st.targets if isinstance(st, ast.Assign) else [st.target]
            val = sub.ev(st.value)
            for tg in tgts:
                _bind_target(sub, tg, val)
            continue
        if isinstance(st, ast.Return) and st.value is not None and last:
            return sub.ev(st.value)
        if isinstance(st, ast.Expr) and isinstance(st.value, ast.YieldFrom) and last:
            return sub.ev(ast.copy_location(ast.Call(func=ast.Name(id="list", ctx=ast.Load()), args=[st.value.value], keywords=[]), st))
        if isinstance(st, ast.For) and last and not st.orelse and len(st.body) == 1 and isinstance(st.body[0], ast.Expr) \
                and isinstance(st.body[0].value, ast.Yield) and st.body[0].value.value is not None:
            comp = ast.comprehension(target=st.target, iter=st.iter, ifs=[], is_async=0)
            return sub.ev(ast.fix_missing_locations(ast.copy_location(ast.ListComp(elt=st.body[0].value.value, generators=[comp]), st)))
        raise Undecided(f"helper {target.qualname}: statement `{norm(st)[:50]}`")
    raise Undecided(f"helper {target.qualname}: no return")


def _mentions_name(node: ast.AST, name: str) -> bool:
    return any(isinstance(x, ast.Name) and x.id == name for x in ast.walk(node))


def _straight_line(stmts: list) -> list:
    """
    Statement list without docstrings / pass, where an accumulation loop
        L = []   ...   for x in Y: L.append(E)          (also `L += [E]`, `L.extend([E])`, `L.extend(E for ..)` is not needed)
    is replaced by the comprehension it spells, `L = [E for x in Y]` (nothing between the two statements mentions L; E does not mention L).
    New nodes only: the analysed tree is not modified.
    """
    body = [s for s in stmts if not (isinstance(s, ast.Expr) and isinstance(s.value, ast.Constant)) and not isinstance(s, ast.Pass)]
    out: list = []
    for pos, st in enumerate(body):
        acc = _accumulation(st)
        if acc is not None and any(_read_before_rebound(body[pos + 1:], nm.id) for nm in ast.walk(st.target) if isinstance(nm, ast.Name)):
            acc = None          # the loop variable is used after the loop: a comprehension would not leave it bound
        if acc is not None:
            name, elt = acc
            # the matching `name = []`, with no mention of name in between
            j = len(out) - 1
            while j >= 0 and not _mentions_name(out[j], name):
                j -= 1
            init = out[j] if j >= 0 else None
            tgt = None
            if isinstance(init, ast.Assign) and len(init.targets) == 1:
                tgt = init.targets[0]
            elif isinstance(init, ast.AnnAssign) and init.value is not None:
                tgt = init.target
            v = strip_cast(init.value) if tgt is not None else None
            empty = isinstance(v, ast.List) and not v.elts or (isinstance(v, ast.Call) and chain(v.func) == "list" and not v.args and not v.keywords)
            if isinstance(tgt, ast.Name) and tgt.id == name and empty and not _mentions_name(st.iter, name) and not _mentions_name(st.target, name):
                comp = ast.comprehension(target=st.target, iter=st.iter, ifs=[], is_async=0)
                lc = ast.ListComp(elt=elt, generators=[comp])
                new = ast.Assign(targets=[ast.Name(id=name, ctx=ast.Store())], value=lc)
                ast.copy_location(new, st)
                ast.copy_location(lc, st)
                ast.fix_missing_locations(new)
                out = out[:j] + out[j + 1:] + [new]
                continue
        out.append(st)
    return out


def _read_before_rebound(stmts: list, name: str) -> bool:
    """Is `name` read in the statements before a statement binds it again (plain assignment or loop target)?"""
    for st in stmts:
        if isinstance(st, ast.For) and any(isinstance(n, ast.Name) and n.id == name for n in ast.walk(st.target)):
            return _mentions_name(st.iter, name)
        if isinstance(st, (ast.Assign, ast.AnnAssign)) and st.value is not None:
            tg = st.targets if isinstance(st, ast.Assign) else [st.target]
            if any(isinstance(n, ast.Name) and n.id == name and isinstance(n.ctx, ast.Store) for t in tg for n in ast.walk(t)):
                return _mentions_name(st.value, name)
        if _mentions_name(st, name):
            return True
    return False


def _accumulation(st: ast.AST):
    """(L, E) if st is `for .. in ..: L.append(E)` (or `L += [E]`) with nothing else in the loop and E not mentioning L."""
    if not isinstance(st, ast.For) or st.orelse or len(st.body) != 1:
        return None
    b = st.body[0]
    name, elt = None, None
    if isinstance(b, ast.Expr) and isinstance(b.value, ast.Call) and isinstance(b.value.func, ast.Attribute) and b.value.func.attr == "append" \
            and isinstance(b.value.func.value, ast.Name) and len(b.value.args) == 1 and not b.value.keywords and not isinstance(b.value.args[0], ast.Starred):
        name, elt = b.value.func.value.id, b.value.args[0]
    elif isinstance(b, ast.AugAssign) and isinstance(b.op, ast.Add) and isinstance(b.target, ast.Name) and isinstance(b.value, ast.List) \
            and len(b.value.elts) == 1 and not isinstance(b.value.elts[0], ast.Starred):
        name, elt = b.target.id, b.value.elts[0]
    if name is None or _mentions_name(elt, name):
        return None
    return name, elt


def _decode_ctor(ev: TermEval, fi: FuncInfo, depth: int = 0) -> tuple[ast.Call, list[T], dict[str, T]]:
    """
    from_unpack_list as straight-line code: locals are bound in order; the result is ONE constructor call, returned directly or through a
    local (`p = cls(..); return p`), or built by a private helper the function returns the call of (followed with its parameters bound).
    Gives (call, positional argument terms, keyword argument terms), evaluated where the call stands.
    """
    held: dict[str, tuple] = {}

    def ctor(v: ast.AST):
        v = strip_cast(v)
        if isinstance(v, ast.Name) and v.id in held:
            return held[v.id]
        if isinstance(v, ast.Call) and all(k.arg is not None for k in v.keywords) \
                and (chain(v.func) == "cls" or ev.repo.resolve_class_expr(fi.module, v.func) is not None):
            pos: list[T] = []
            for a in v.args:
                if isinstance(a, ast.Starred):
                    seq = ev.ev(a.value)          # cls(*values): the elements of a tuple / list term, in order
                    if seq.op not in ("tuple", "list"):
                        raise Undecided(f"starred constructor argument `{norm(a)[:40]}`")
                    pos.extend(seq.args)
                else:
                    pos.append(ev.ev(a))
            return v, pos, {k.arg: ev.ev(k.value) for k in v.keywords}
        return None
    for st in _straight_line(fi.node.body):
        if isinstance(st, (ast.Assign, ast.AnnAssign)) and st.value is not None:
            tgts = st.targets if isinstance(st, ast.Assign) else [st.target]
            c = ctor(st.value) if len(tgts) == 1 and isinstance(tgts[0], ast.Name) else None
            if c is not None:
                held[tgts[0].id] = c
                continue
            val = ev.ev(st.value)
            for t in tgts:
                _bind_target(ev, t, val)
                for nm in ast.walk(t):
                    if isinstance(nm, ast.Name):
                        held.pop(nm.id, None)
            continue
        if isinstance(st, ast.Return) and st.value is not None:
            c = ctor(st.value)
            if c is None:
                c = _ctor_through_helper(ev, fi, strip_cast(st.value), depth)
            if c is None:
                raise Undecided("from_unpack_list does not return a constructor call")
            return c
        raise Undecided(f"statement `{norm(st)[:60]}` in from_unpack_list")
    raise Undecided("from_unpack_list has no return")


def _ctor_through_helper(ev: TermEval, fi: FuncInfo, v: ast.AST, depth: int):
    """`return cls._build(a, b)` / `return _build(cls, a, b)`: the constructor call stands in the helper; decode it there, parameters bound."""
    if not isinstance(v, ast.Call) or depth > 2 or any(isinstance(a, ast.Starred) for a in v.args) or any(k.arg is None for k in v.keywords):
        return None
    f = v.func
    target, recv = None, None
    if isinstance(f, ast.Name) and f.id not in ev.env:
        r = ev.repo.resolve_name(fi.module, f.id)
        target = r if isinstance(r, FuncInfo) and r.cls is None else None
    elif isinstance(f, ast.Attribute) and isinstance(f.value, ast.Name) and fi.cls is not None:
        k = fi.cls if f.value.id == "cls" else (ev.repo.resolve_class_expr(fi.module, f.value) if f.value.id not in ev.env else None)
        m = k.lookup(f.attr) if k is not None else None
        if m is not None and m.name != "from_unpack_list":
            decs = {d.split(".")[-1] for d in m.decorator_names()}
            if "classmethod" in decs:
                target, recv = m, (ev.env.get("cls") if f.value.id == "cls" else None) or T("cls", ())
            elif "staticmethod" in decs:
                target = m
    if target is None or target.is_async or target is fi:
        return None
    sub = _bind_helper(ev, target, recv, [ev.ev(a) for a in v.args], {k.arg: ev.ev(k.value) for k in v.keywords})
    call, pos, kw = _decode_ctor(sub, target, depth + 1)
    # `cls(...)` inside a module-level helper is only the payload class if the helper received it as `cls`
    if chain(call.func) == "cls" and sub.env.get("cls") != T("cls", ()):
        raise Undecided(f"helper {target.qualname} constructs through a `cls` that is not the payload class")
    return call, pos, kw


def _bind_target(ev: TermEval, tgt: ast.AST, val: T) -> None:
    """`name = val` / `a, b = val` (element i of a tuple-valued term is index(val, i), simplified when val is a literal tuple)."""
    if isinstance(tgt, ast.Name):
        ev.env[tgt.id] = val
        return
    if isinstance(tgt, (ast.Tuple, ast.List)) and not any(isinstance(e, ast.Starred) for e in tgt.elts):
        if val.op in ("tuple", "list") and len(val.args) != len(tgt.elts):
            raise Undecided(f"unpacking {len(val.args)} values into {len(tgt.elts)} targets")
        for i, e in enumerate(tgt.elts):
            _bind_target(ev, e, simplify(T("index", (val, Const(i)))))
        return
    raise Undecided(f"assignment target `{norm(tgt)[:40]}`")


def _pack_entry(ev: TermEval, e: ast.AST) -> tuple[str, list[T]]:
    """One element of a pack list, written as a tuple literal or held in a local: (format name, value terms)."""
    t = ev.ev(e)
    if t.op != "tuple" or not t.args or not is_const(t.args[0]) or not isinstance(t.args[0].args[0], str):
        raise Undecided(f"pack list element `{norm(e)[:50]}`")
    return t.args[0].args[0], list(t.args[1:])


def eval_to_pack_list(ctx: Ctx, cls: ClassInfo, depth: int = 0) -> list[tuple[str, list[T]]]:
    """[(format, [value terms over Field(..)])] of cls.to_pack_list (following super().to_pack_list())."""
    fi = cls.lookup("to_pack_list")
    if fi is None or depth > 3:
        raise Undecided("no to_pack_list")
    owner = fi.cls
    ev = _TermEval(ctx.repo, fi, {})
    lists: dict[str, list] = {}          # locals that hold a pack list under construction

    def is_super_call(v: ast.AST) -> bool:
        return isinstance(v, ast.Call) and isinstance(v.func, ast.Attribute) and v.func.attr == "to_pack_list" and isinstance(v.func.value, ast.Call) \
            and chain(v.func.value.func) == "super"

    def list_value(v: ast.AST) -> list | None:
        """The pack list an expression denotes (list literal, super().to_pack_list(), a tracked local, a + b), else None."""
        v = strip_cast(v)
        if is_super_call(v):
            base = next((k for k in owner.mro()[1:] if "to_pack_list" in k.methods), None)
            if base is None:
                raise Undecided("super().to_pack_list() without base")
            return eval_to_pack_list(ctx, base, depth + 1)
        if isinstance(v, ast.Name) and v.id in lists:
            return lists[v.id]
        if isinstance(v, ast.List):
            out = []
            for x in v.elts:
                if isinstance(x, ast.Starred):
                    sub = list_value(x.value)
                    if sub is None:
                        raise Undecided("starred pack list element")
                    out.extend(sub)
                else:
                    try:
                        out.append(_pack_entry(ev, x))
                    except Undecided:
                        return None          # some other list, not a pack list
            return out
        if isinstance(v, (ast.ListComp, ast.GeneratorExp)) and len(v.generators) == 1 and not v.generators[0].ifs and not v.generators[0].is_async:
            # [(fmt, x) for x in (a, b, c)]: a pack list with one entry per element of a sequence of known length
            g = v.generators[0]
            try:
                seq = ev.ev(g.iter)
            except Undecided:
                return None
            if seq.op not in ("tuple", "list"):
                return None
            out = []
            saved = dict(ev.env)
            try:
                for x in seq.args:
                    _bind_target(ev, g.target, x)
                    out.append(_pack_entry(ev, v.elt))
            except Undecided:
                return None
            finally:
                ev.env.clear()
                ev.env.update(saved)
            return out
        if isinstance(v, ast.BinOp) and isinstance(v.op, ast.Add):
            l, r = list_value(v.left), list_value(v.right)
            if l is not None and r is not None:
                return list(l) + list(r)
        if isinstance(v, ast.Call) and chain(v.func) == "list" and len(v.args) == 1:
            sub = list_value(v.args[0])
            return list(sub) if sub is not None else None
        return None
    for st in _straight_line(fi.node.body):
        if isinstance(st, (ast.Assign, ast.AnnAssign)) and st.value is not None:
            tgts = st.targets if isinstance(st, ast.Assign) else [st.target]
            if len(tgts) == 1 and isinstance(tgts[0], ast.Name):
                lv = list_value(st.value)
                if lv is not None:
                    # a fresh list object unless it aliases a tracked one (then both names denote the same list)
                    lists[tgts[0].id] = lv if isinstance(strip_cast(st.value), ast.Name) else list(lv)
                    ev.env[tgts[0].id] = T("packlist", ())
                    continue
            val = ev.ev(st.value)
            for t in tgts:
                _bind_target(ev, t, val)
                for nm in ast.walk(t):
                    if isinstance(nm, ast.Name):
                        lists.pop(nm.id, None)
            continue
        if isinstance(st, ast.AugAssign) and isinstance(st.op, ast.Add) and isinstance(st.target, ast.Name) and st.target.id in lists:
            more = list_value(st.value)
            if more is None:
                raise Undecided("`+=` on pack list")
            lists[st.target.id].extend(more)
            continue
        if isinstance(st, ast.Expr) and isinstance(st.value, ast.Call) and isinstance(st.value.func, ast.Attribute) and isinstance(st.value.func.value, ast.Name) \
                and st.value.func.value.id in lists and not st.value.keywords:
            lst, meth, args = lists[st.value.func.value.id], st.value.func.attr, st.value.args
            if meth == "insert" and len(args) == 2:
                pos = const_value(args[0])
                if not isinstance(pos, int) or isinstance(pos, bool):
                    raise Undecided("insert into pack list")
                lst.insert(pos, _pack_entry(ev, args[1]))
                continue
            if meth == "append" and len(args) == 1:
                lst.append(_pack_entry(ev, args[0]))
                continue
            if meth == "extend" and len(args) == 1:
                more = list_value(args[0])
                if more is None:
                    raise Undecided("extend of pack list")
                lst.extend(more)
                continue
        if isinstance(st, ast.Return) and st.value is not None:
            out = list_value(st.value)
            if out is not None:
                return out
        raise Undecided(f"statement `{norm(st)[:60]}` in to_pack_list")
    raise Undecided("no return in to_pack_list")


def init_fields(ctx: Ctx, cls: ClassInfo, args: list[T], kwargs: dict[str, T], depth: int = 0) -> dict[str, T]:
    """self.<attr> terms after cls.__init__(*args, **kwargs)."""
    fi = cls.lookup("__init__")
    if fi is None or fi.cls.name in ("Payload", "Serializable", "object") or depth > 3:
        return {}
    a = fi.node.args
    params = [p.arg for p in a.args][1:]
    defaults = dict(zip(params[len(params) - len(a.defaults):], a.defaults))
    env: dict[str, T] = {}
    tmp = _TermEval(ctx.repo, fi, {})
    for i, p in enumerate(params):
        if i < len(args):
            env[p] = args[i]
        elif p in kwargs:
            env[p] = kwargs[p]
        elif p in defaults:
            env[p] = tmp.ev(defaults[p])
        else:
            raise Undecided(f"missing constructor argument {p}")
    fields: dict[str, T] = {}
    ev = _TermEval(ctx.repo, fi, env, fields)
    for st in _straight_line(fi.node.body):
        if isinstance(st, ast.Expr) and isinstance(st.value, ast.Call):
            c = st.value
            if isinstance(c.func, ast.Attribute) and c.func.attr == "__init__" and isinstance(c.func.value, ast.Call) and chain(c.func.value.func) == "super":
                base = next((k for k in fi.cls.mro()[1:] if "__init__" in k.methods), None)
                if base is not None and base.name not in ("Payload", "Serializable"):
                    fields.update(init_fields(ctx, base, [ev.ev(x) for x in c.args], {k.arg: ev.ev(k.value) for k in c.keywords}, depth + 1))
                continue
            raise Undecided(f"call `{norm(st)[:50]}` in __init__")
        if isinstance(st, ast.Pass):
            continue
        if isinstance(st, (ast.Assign, ast.AnnAssign)) and st.value is not None:
            tgts = st.targets if isinstance(st, ast.Assign) else [st.target]
            val = ev.ev(st.value)
            done = True
            for t in tgts:
                if isinstance(t, ast.Attribute) and isinstance(t.value, ast.Name) and t.value.id == "self":
                    fields[t.attr] = val
                elif isinstance(t, (ast.Name, ast.Tuple, ast.List)) and all(isinstance(x, (ast.Name, ast.Tuple, ast.List)) for x in ast.walk(t) if isinstance(x, ast.expr) and not isinstance(x, ast.expr_context)):
                    _bind_target(ev, t, val)         # a local of the constructor
                else:
                    done = False
            if done:
                continue
        raise Undecided(f"statement `{norm(st)[:50]}` in __init__")
    return fields


def normalise(ctx: Ctx, cls: ClassInfo, t: T, init_of_field) -> T:
    """Rewrites valid under the stated domain assumptions; returns Field(x) when t reconstructs field x."""
    # (x % n) % n == x % n
    while t.op == "mod" and is_const(t.args[1]) and t.args[0].op == "mod" and t.args[0].args[1] == t.args[1] and isinstance(t.args[1].args[0], int) and t.args[1].args[0] > 0:
        t = t.args[0]
    # mod 65536 on a field whose constructor already stores it mod 65536
    if t.op == "mod" and is_const(t.args[1]) and t.args[0].op == "field":
        f = t.args[0].args[0]
        if init_of_field(f) == ("mod", t.args[1].args[0]):
            return t.args[0]
    # chunks(join(field), n, [(0, n, bytes)]) -> field   (n-byte elements)
    if t.op == "chunks":
        src, stride, pieces = t.args
        n = stride.args[0]
        ps = pieces.args[0]
        if src.op == "join" and src.args[0].op == "field" and ps == ((0, n, "bytes"),) and n == ELEMENT_SIZE:
            return src.args[0]
        # join(map(pack(F, *elem), field)) with struct-strided pieces
        if src.op == "join" and src.args[0].op == "map":
            m, over = src.args[0].args
            m = _pack_star(m)
            if m.op == "pack" and is_const(m.args[0]) and len(m.args) == 2 and m.args[1].op == "star" and m.args[1].args[0].op == "elem" and over.op == "field":
                fmt = m.args[0].args[0]
                try:
                    sizes = _struct_field_layout(fmt)
                except struct.error:
                    return t
                if struct.calcsize(fmt) == n and len(sizes) == len(ps):
                    ok = True
                    for (off, size, code), (lo, hi, dec) in zip(sizes, ps):
                        if (lo, hi) != (off, off + size):
                            ok = False
                        if code == "s" and dec != "bytes":
                            ok = False
                        if code != "s" and _canon_dec(dec) != _canon_dec(f"unpack:{fmt[0] if fmt[0] in '<>!=@' else ''}{code}"):
                            ok = False
                    if ok:
                        return over
    return t


def _pack_star(m: T) -> T:
    """pack(F, e[0], e[1], .., e[k-1]) with k = number of values F takes  ==  pack(F, *e)  for every k-tuple e (the legal elements)."""
    if m.op == "pack" and len(m.args) >= 2 and is_const(m.args[0]) and isinstance(m.args[0].args[0], str):
        try:
            k = struct_arity(m.args[0].args[0])
        except struct.error:
            return m
        vals = m.args[1:]
        if len(vals) == k and all(v.op == "index" and v.args[0].op == "elem" and v.args[1] == Const(i) for i, v in enumerate(vals)):
            return T("pack", (m.args[0], T("star", (T("elem", ()),))))
    return m


def _canon_dec(dec: str) -> str:
    """'unpack:<fmt>' with the byte-order prefix made explicit and canonical ('!' = '>', no prefix = '@' native)."""
    if not dec.startswith("unpack:"):
        return dec
    f = dec[len("unpack:"):]
    prefix, body = (f[0], f[1:]) if f[:1] in "<>!=@" else ("@", f)
    return "unpack:" + {"!": ">"}.get(prefix, prefix) + body


def _struct_field_layout(fmt: str):
    """[(offset, size, code)] of a simple struct format like '>20sI' (native formats: offsets include the alignment padding)."""
    prefix = fmt[0] if fmt[0] in "<>!=@" else ""
    body = fmt[len(prefix):]
    out = []
    sofar = ""
    for m in re.finditer(r"(\d*)([a-zA-Z?])", body):
        cnt, code = m.group(1), m.group(2)
        items = [cnt + "s"] if code in "sp" else [code] * int(cnt or 1)
        for it in items:
            if code == "x":
                sofar += it
                continue
            size = struct.calcsize(prefix + it)
            sofar += it
            end = struct.calcsize(prefix + sofar)
            out.append((end - size, size, "s" if code in "sp" else code))
    return out


ELEMENT_SIZE = 20       # community ids / mids in preference lists


def definitely_different(t: T, f: str) -> str | None:
    """Shapes that are recognisably NOT the identity on field f."""
    if t.op == "mod" and t.args[0].op == "add":
        t = t.args[0]
    if t.op == "add" and any(is_const(a) and a.args[0] not in (0, b"", "") for a in t.args) and any(a == Field(f) for a in t.args):
        return f"reconstructed as {t} (a constant is added)"
    if t.op == "chunks":
        src, stride, pieces = t.args
        n, ps = stride.args[0], pieces.args[0]
        if src.op == "join" and src.args[0].op == "field" and ps == ((0, n, "bytes"),) and n != ELEMENT_SIZE:
            return f"the joined {ELEMENT_SIZE}-byte elements are re-split into chunks of {n}"
        if src.op == "join" and src.args[0].op == "field" and len(ps) == 1 and ps[0][:2] != (0, n):
            return f"chunks of stride {n} take bytes {ps[0][0]}..{ps[0][1]} of each element"
        if src.op == "join" and src.args[0].op == "map" and _pack_star(src.args[0].args[0]).op == "pack" and is_const(src.args[0].args[0].args[0]):
            fmt = src.args[0].args[0].args[0].args[0]
            try:
                size = struct.calcsize(fmt)
                lay = [(o, o + s_) for o, s_, _ in _struct_field_layout(fmt)]
            except struct.error:
                return None
            if size != n:
                return f"elements are packed with '{fmt}' ({size} bytes) but decoded with a stride of {n}"
            if [p[:2] for p in ps] != lay:
                return f"elements are packed with '{fmt}' (field byte ranges {lay}) but decoded from ranges {[p[:2] for p in ps]}"
            prefix = fmt[0] if fmt[0] in "<>!=@" else ""
            for (o, s_, code), (lo, hi, dec) in zip(_struct_field_layout(fmt), ps):
                want = "bytes" if code == "s" else f"unpack:{prefix}{code}"
                if dec.startswith("unpack:") and code != "s" and _canon_dec(dec) != _canon_dec(want):
                    return (f"elements are packed with '{fmt}' but bytes {lo}..{hi} of each element are decoded with '{dec[len('unpack:'):]}' "
                            f"(other byte order / native size than '{prefix}{code}'): every value that is not a byte palindrome comes back changed")
                if (dec == "bytes") != (code == "s"):
                    return f"elements are packed with '{fmt}' but bytes {lo}..{hi} of each element are decoded as {dec}"
    return None


def _bit_leaves(t) -> set | None:
    """Fields whose wire bit the term reads, if the term is built from such bits and constants only; else None."""
    if not isinstance(t, T):
        return set()
    if t.op == "const":
        return set()
    if t.op == "bitwire":
        x = t.args[0]
        return {x.args[0]} if x.op == "field" else (set() if x.op == "const" else None)
    if t.op in ("bool", "not", "index", "list", "tuple", "ifexp", "cmp"):
        out: set = set()
        for a in t.args:
            if isinstance(a, str):
                continue
            sub = _bit_leaves(a)
            if sub is None:
                return None
            out |= sub
        return out
    return None


def _eval_bit_term(t, bits: dict):
    if t.op == "const":
        return t.args[0]
    if t.op == "bitwire":
        x = t.args[0]
        return bits[x.args[0]] if x.op == "field" else (1 if x.args[0] else 0)
    if t.op == "bool":
        return bool(_eval_bit_term(t.args[0], bits))
    if t.op == "not":
        return not _eval_bit_term(t.args[0], bits)
    if t.op in ("list", "tuple"):
        vals = [_eval_bit_term(a, bits) for a in t.args]
        return vals if t.op == "list" else tuple(vals)
    if t.op == "ifexp":
        return _eval_bit_term(t.args[1] if _eval_bit_term(t.args[0], bits) else t.args[2], bits)
    try:
        if t.op == "index":
            return _eval_bit_term(t.args[0], bits)[_eval_bit_term(t.args[1], bits)]
        if t.op == "cmp":
            import operator as _o
            ops = {"Eq": _o.eq, "NotEq": _o.ne, "Lt": _o.lt, "LtE": _o.le, "Gt": _o.gt, "GtE": _o.ge, "Is": _o.is_, "IsNot": _o.is_not,
                   "In": lambda a, b: a in b, "NotIn": lambda a, b: a not in b}
            if t.args[0] in ops:
                return ops[t.args[0]](_eval_bit_term(t.args[1], bits), _eval_bit_term(t.args[2], bits))
    except (TypeError, IndexError, KeyError) as e:
        raise Undecided(f"bit expression {t}: {type(e).__name__}") from e
    raise Undecided(f"bit expression {t}")


def enumerate_equal(ctx: Ctx, cls: ClassInfo, t: T, want_field: str, wire_terms: dict[int, T]) -> tuple[bool, str] | None:
    """Finite-domain decisions.  Returns (equal, explanation) or None if not applicable."""
    fi = cls.lookup("from_unpack_list")
    # [A, B][bit]  /  bool(bit)  /  bit   where bit is the wire image of a boolean field
    def bit_source(x: T):
        return x.op == "bitwire" and x.args[0].op == "field"
    if t.op == "index" and t.args[0].op in ("list", "tuple") and bit_source(t.args[1]) and all(is_const(a) for a in t.args[0].args):
        src = t.args[1].args[0].args[0]
        table = [a.args[0] for a in t.args[0].args]
        if len(table) == 2:
            res = {b: table[b] for b in (0, 1)}
            ok = src == want_field and all(bool(res[b]) == bool(b) for b in (0, 1))
            return ok, f"{table}[bit] maps wire bit 0->{res[0]!r}, 1->{res[1]!r}; field `{want_field}` was packed as bit = truthiness of self.{src}"
    if t.op == "bool" and bit_source(t.args[0]):
        return t.args[0].args[0].args[0] == want_field, "bool(bit)"
    if bit_source(t):
        return t.args[0].args[0] == want_field, "bit passed through"
    # any other expression over wire bits only (`bit == 1`, `True if bit else False`, `not not bit`, ...): both values of the bit are tried
    leaves = _bit_leaves(t)
    if leaves:
        if leaves != {want_field}:
            return False, f"computed from the wire bit(s) of {sorted(leaves)}"
        res = {b: _eval_bit_term(t, {want_field: b}) for b in (0, 1)}
        return all(bool(res[b]) == bool(b) for b in (0, 1)), f"wire bit 0->{res[0]!r}, 1->{res[1]!r}; the bit was packed as the truthiness of self.{want_field}"
    # decode_connection_type(index(encode(field), 0), index(encode(field), 1)) over the documented domain
    if t.op == "call" and t.args[0] == "decode_connection_type" and len(t.args) == 3:
        a0, a1 = t.args[1], t.args[2]
        def enc_idx(x: T):
            if x.op == "bitwire":
                x = x.args[0]
            if x.op == "index" and x.args[0].op == "call" and x.args[0].args[0] == "encode_connection_type" and is_const(x.args[1]):
                return x.args[0].args[1], x.args[1].args[0]
            return None
        e0, e1 = enc_idx(a0), enc_idx(a1)
        if e0 and e1 and e0[0] == e1[0] and e0[0].op == "field" and (e0[1], e1[1]) == (0, 1):
            m = ctx.repo.module("ipv8/messaging/payload.py")
            enc, dec = Mini(ctx.repo, m.functions["encode_connection_type"]), Mini(ctx.repo, m.functions["decode_connection_type"])
            domain = ["unknown", "public", "symmetric-NAT"]
            try:
                # the two bits travel through Bits.pack (truthiness) and Bits.unpack (1 / 0)
                bad = [v for v in domain if dec(*[1 if b else 0 for b in enc(v)]) != v]
            except MiniUndecided as e:
                raise Undecided(f"connection type codec: {e}") from e
            except MiniRaised as e:
                return False, f"the connection type codec raises for a documented value: {e}"
            return (not bad and e0[0].args[0] == want_field), f"decode(encode(v)) == v for v in {domain}" + (f" fails for {bad}" if bad else "")
    return None


# ------------------------------------------------------------------------------------------ TERM rule: interpreted fallback
class _Symbolic(MiniUndecided):
    """An operation needs the value of a wire term as a concrete Python object (its length, its elements, its integer value)."""


class _TV:
    """
    A term as a run-time value of the mini interpreter: the payload code is INTERPRETED (control flow, locals, helper calls, result objects,
    tables, itertools pipelines are all just Python), and only the operations applied to field / wire values build terms - the same terms
    the straight-line evaluator builds.  Everything else on a term value is undecided, never guessed.
    """
    __slots__ = ("t",)

    def __init__(self, t: T) -> None:
        self.t = t

    def __repr__(self) -> str:
        return f"<{self.t}>"

    def __bool__(self) -> bool:
        raise MiniUndecided(f"the payload code branches on the value of {self.t}")

    def __iter__(self):
        raise _Symbolic(f"iteration over {self.t}")

    def __len__(self) -> int:
        raise _Symbolic(f"length of {self.t}")

    def __index__(self) -> int:
        raise _Symbolic(f"integer value of {self.t}")

    def __mod__(self, o):
        return _wrap(simplify(T("mod", (self.t, _term(o)))))

    def __add__(self, o):
        return _wrap(simplify(T("add", (self.t, _term(o)))))

    def __radd__(self, o):
        return _wrap(simplify(T("add", (_term(o), self.t))))

    def _mask(self, o):
        if isinstance(o, int) and not isinstance(o, bool) and o > 0 and (o & (o + 1)) == 0:
            return _wrap(simplify(T("mod", (self.t, Const(o + 1)))))          # x & (2**k - 1) == x % 2**k for every int x
        raise MiniUndecided(f"`&` on {self.t}")

    __and__ = __rand__ = _mask

    def __getitem__(self, k):
        if isinstance(k, slice):
            if k.step is not None:
                raise MiniUndecided(f"stepped slice of {self.t}")
            return _wrap(simplify(T("slice", (self.t, _term(k.start), _term(k.stop)))))
        return _wrap(simplify(T("index", (self.t, _term(k)))))

    def _no(self, *_a):
        raise MiniUndecided(f"arithmetic on {self.t}")

    __sub__ = __rsub__ = __mul__ = __rmul__ = __floordiv__ = __rfloordiv__ = __truediv__ = __or__ = __ror__ = __xor__ = __rxor__ = _no
    __lshift__ = __rlshift__ = __rshift__ = __rrshift__ = __rmod__ = __neg__ = __invert__ = __pow__ = __lt__ = __le__ = __gt__ = __ge__ = _no
    __contains__ = __call__ = _no


def _term(v) -> T:
    """the term a run-time value of the interpreter denotes"""
    if isinstance(v, _TV):
        return v.t
    if isinstance(v, (bool, int, str, bytes, float, type(None))):
        return Const(v)
    if isinstance(v, tuple):
        return T("tuple", tuple(_term(x) for x in v))
    if isinstance(v, list):
        return T("list", tuple(_term(x) for x in v))
    raise MiniUndecided(f"value {v!r} has no wire term")


def _wrap(t: T):
    """run-time value for a term: constants and tuple / list terms become the Python objects they denote (so the code can take them apart)"""
    if is_const(t) and isinstance(t.args[0], (bool, int, str, bytes, float, type(None))):
        return t.args[0]
    if t.op == "tuple":
        return tuple(_wrap(a) for a in t.args)
    if t.op == "list":
        return [_wrap(a) for a in t.args]
    return _TV(t)


def _has_tv(v, depth: int = 0) -> bool:
    if isinstance(v, _TV):
        return True
    if depth < 4 and isinstance(v, (tuple, list)):
        return any(_has_tv(x, depth + 1) for x in v)
    if depth < 4 and isinstance(v, dict):
        return any(_has_tv(x, depth + 1) for x in v.values())
    return False


class _Ctor:
    """what from_unpack_list returns: one construction of a payload class"""

    def __init__(self, cls: ClassInfo, via_cls: bool, args: list, kwargs: dict, lineno: int) -> None:
        self.cls, self.via_cls, self.args, self.kwargs, self.lineno = cls, via_cls, args, kwargs, lineno


class _ClsToken(Opaque):
    """a payload class as a value (the `cls` a classmethod receives, or the class named in the code): calling it constructs that class"""

    def __init__(self, cls: ClassInfo, via_cls: bool = True) -> None:
        super().__init__(f"class {cls.name}")
        self.cls, self.via_cls = cls, via_cls

    def __call__(self, *a, **k):
        return _Ctor(self.cls, self.via_cls, list(a), dict(k), 0)


_CONNECTION_TYPES = ("unknown", "public", "symmetric-NAT")        # the documented domain of connection_type


def _encoder_arity(repo) -> int | None:
    """n when encode_connection_type returns an n-tuple for every documented connection type (evaluated, nothing of /repo is run)"""
    cached = repo.__dict__.get("_c02_encoder_arity", NOCONST)
    if cached is not NOCONST:
        return cached
    n = None
    try:
        enc = Mini(repo, repo.module(_MP).functions["encode_connection_type"])
        outs = [enc(v) for v in _CONNECTION_TYPES]
        if all(isinstance(o, tuple) for o in outs) and len({len(o) for o in outs}) == 1:
            n = len(outs[0])
    except (MiniUndecided, MiniRaised, KeyError):
        n = None
    repo.__dict__["_c02_encoder_arity"] = n
    return n


def _stored_by_init(k: ClassInfo, attr: str) -> bool:
    """some constructor in the MRO stores self.<attr>: it is an instance field, whatever the class body says about the name"""
    for c in k.mro():
        i = c.methods.get("__init__")
        if i is not None and any(isinstance(n, ast.Attribute) and isinstance(n.ctx, ast.Store) and n.attr == attr and isinstance(n.value, ast.Name)
                                 and n.value.id == "self" for n in walk_no_nested(i.node)):
            return True
    return False


class _TermMini(Mini):
    """
    Mini interpreter over term values.  mode "encode": `self.x` of the instance token is Field(x);  mode "init": `self` is a fresh object
    whose attribute stores are collected;  mode "decode": parameters are wire terms, constructing a Serializable class yields a _Ctor.
    Sub-expressions whose meaning depends on a term's length / elements (chunking comprehensions, joins, struct element maps) are handed to
    the straight-line term evaluator with the current locals as its environment.
    """
    mode = "decode"
    token = None            # the instance token (`self`) of encode / init mode
    judged: ClassInfo | None = None   # the payload class under analysis (what `cls` stands for)

    def _sub(self, fi: FuncInfo) -> "Mini":
        sub = super()._sub(fi)
        sub.mode, sub.token, sub.judged = self.mode, self.token, self.judged
        return sub

    def _plain(self, v, where) -> None:
        if not isinstance(v, _TV):
            super()._plain(v, where)

    def _py(self, f, *a, **k):
        try:
            return f(*a, **k)
        except (MiniUndecided, MiniRaised):
            raise
        except (_Ret, _Brk, _Cont):
            raise
        except Exception as e:  # noqa: BLE001
            if _has_tv(list(a)) or _has_tv(k):
                raise MiniUndecided(f"{getattr(f, '__name__', f)!s} applied to a wire term: {type(e).__name__}: {e}") from e
            raise MiniRaised(f"{type(e).__name__}: {e}", kind=type(e).__name__) from e

    def _elements(self, v: "_TV"):
        """the elements of a term of known length: the pair the connection type encoder returns for every documented connection type"""
        t = v.t
        if t.op == "call" and t.args and t.args[0] == "encode_connection_type" and len(t.args) == 2:
            n = _encoder_arity(self.repo)
            if n is not None:
                return [_wrap(simplify(T("index", (t, Const(i))))) for i in range(n)]
        return None

    def _iter(self, v, where):
        if isinstance(v, _TV):
            el = self._elements(v)
            if el is not None:
                return el
            raise _Symbolic(f"iteration over {v.t}")
        return super()._iter(v, where)

    def _lazy_iter(self, v, where):
        if isinstance(v, _TV):
            el = self._elements(v)
            if el is not None:
                return iter(el)
            raise _Symbolic(f"iteration over {v.t}")
        return super()._lazy_iter(v, where)

    def _store(self, t, v, env) -> None:
        if isinstance(t, (ast.Tuple, ast.List)) and isinstance(v, _TV) and not any(isinstance(x, ast.Starred) for x in t.elts):
            # a, b = <term>: element i of a tuple-valued term (a struct value, the result of the connection type encoder)
            for i, x in enumerate(t.elts):
                self._store(x, _wrap(simplify(T("index", (v.t, Const(i))))), env)
            return
        super()._store(t, v, env)

    def _getattr(self, base, attr: str, where):
        if base is self.token and self.mode == "encode" and attr not in base.attrs and _stored_by_init(base.cls, attr):
            return _TV(Field(attr))
        try:
            return super()._getattr(base, attr, where)
        except MiniUndecided:
            if base is self.token and self.mode == "encode" and not attr.startswith("__"):
                return _TV(Field(attr))
            raise

    def _call_value(self, f, args: list, kwargs: dict, where):
        if isinstance(f, _ClsToken):
            return f(*args, **kwargs)
        return super()._call_value(f, args, kwargs, where)

    # ---- delegation to the straight-line term evaluator
    def _delegate(self, e: ast.AST, env: dict):
        tenv: dict[str, T] = {}
        for k, v in env.items():
            if isinstance(k, str) and not k.startswith("\0") and k not in ("self",):
                try:
                    tenv[k] = _term(v)
                except MiniUndecided:
                    continue
        fields = None
        me = env.get("self")
        if self.mode != "encode" or me is not self.token:
            fields = {}
            if isinstance(me, Opaque):
                for a, v in me.attrs.items():
                    try:
                        fields[a] = _term(v)
                    except MiniUndecided:
                        continue
        fi = self.fi if self.fi.node is not None else None
        if fi is None:
            raise MiniUndecided(f"symbolic sub-expression `{norm(e)[:50]}` in a constant initialiser")
        ev = _TermEval(self.repo, fi, tenv, fields)
        ev._depth = getattr(self, "_call_depth", 0)
        try:
            return _wrap(ev.ev(e))
        except Undecided as u:
            raise MiniUndecided(str(u)) from u

    def _ev(self, e, env):  # noqa: C901, PLR0911, PLR0912
        e0 = strip_cast(e)
        try:
            return self._ev1(e0, env)
        except _Symbolic:
            if isinstance(e0, (ast.Call, ast.ListComp, ast.GeneratorExp, ast.Subscript, ast.BinOp, ast.Tuple, ast.List)):
                return self._delegate(e0, env)
            raise

    def _ev1(self, e, env):  # noqa: C901, PLR0911, PLR0912
        if isinstance(e, ast.Name) and e.id not in env and self.fi.node is not None:
            k = self.repo.resolve_class_expr(self.fi.module, e)
            if k is not None and any(c.name == "Serializable" for c in k.mro()):
                return _ClsToken(k, via_cls=False)
        if isinstance(e, ast.Attribute) and isinstance(e.value, ast.Name) and e.value.id == "self" and env.get("self") is self.token and self.token is not None:
            if self.mode == "encode" or e.attr in self.token.attrs:
                return self._getattr(self.token, e.attr, e)
        if isinstance(e, ast.UnaryOp) and isinstance(e.op, ast.Not):
            v = self._ev(e.operand, env)
            if isinstance(v, _TV):
                return _TV(T("not", (v.t,)))
            return not self._truth(v)
        if isinstance(e, ast.IfExp):
            c = self._ev(e.test, env)
            if isinstance(c, _TV):
                return _TV(T("ifexp", (c.t, _term(self._ev(e.body, env)), _term(self._ev(e.orelse, env)))))
            return self._ev(e.body if self._truth(c) else e.orelse, env)
        if isinstance(e, ast.Compare) and len(e.ops) == 1:
            l, r = self._ev(e.left, env), self._ev(e.comparators[0], env)
            if isinstance(l, _TV) or isinstance(r, _TV):
                return _TV(T("cmp", (type(e.ops[0]).__name__, _term(l), _term(r))))
            if _has_tv(l) or _has_tv(r):
                raise MiniUndecided(f"comparison `{norm(e)[:50]}` of values holding wire terms")
        if isinstance(e, ast.Subscript) and not isinstance(e.slice, ast.Slice):
            base, idx = self._ev(e.value, env), self._ev(e.slice, env)
            if isinstance(idx, _TV) and isinstance(base, (list, tuple)):
                return _TV(T("index", (_term(base), idx.t)))              # [A, B][bit]
            if isinstance(base, _TV):
                return base[idx]
            if isinstance(idx, _TV):
                raise MiniUndecided(f"subscript `{norm(e)[:50]}` with a wire term")
        if isinstance(e, ast.JoinedStr) or (isinstance(e, ast.BoolOp)):
            return super()._ev(e, env)
        return super()._ev(e, env)

    def _call(self, e: ast.Call, env):
        f = strip_cast(e.func)
        name = chain(f)
        # super().__init__(..) / super().to_pack_list(): the next class in the instance's MRO that defines the method, on the same object
        if isinstance(f, ast.Attribute) and isinstance(f.value, ast.Call) and chain(f.value.func) == "super" and not f.value.args and self.fi.cls is not None:
            me = env.get(self.fi.params()[0]) if self.fi.params() else None
            inst = me.cls if isinstance(me, _Obj) else self.fi.cls
            mro = inst.mro()
            after = mro[mro.index(self.fi.cls) + 1:] if self.fi.cls in mro else self.fi.cls.mro()[1:]
            base = next((k for k in after if f.attr in k.methods), None)
            args, kwargs = self._args(e, env)
            if base is None or (f.attr == "__init__" and base.name in ("Payload", "Serializable", "object")):
                if f.attr == "__init__":
                    return None
                raise MiniUndecided(f"super().{f.attr}() without a base in /repo")
            return self._run(base.methods[f.attr], me, *args, **kwargs)
        if isinstance(f, ast.Name) and isinstance(env.get(f.id), _ClsToken):
            args, kwargs = self._args(e, env)
            return env[f.id](*args, **kwargs)
        if name in _TermEval._KEEP_AS_CALL or (isinstance(f, ast.Attribute) and f.attr in _TermEval._KEEP_AS_CALL):
            args, kwargs = self._args(e, env)
            if kwargs:
                raise MiniUndecided(f"keyword arguments in `{norm(e)[:50]}`")
            return _TV(T("call", ((name or "").split(".")[-1], *[_term(a) for a in args])))
        if name in ("bool", "len", "list", "tuple", "pack", "struct.pack", "unpack", "struct.unpack") and not (isinstance(f, ast.Name) and f.id in env):
            args, kwargs = self._args(e, env)
            if not kwargs and _has_tv(args):
                if name == "bool" and len(args) == 1 and isinstance(args[0], _TV):
                    return _TV(simplify(T("bool", (args[0].t,))))
                if name in ("pack", "struct.pack", "unpack", "struct.unpack"):
                    return _TV(T(name.split(".")[-1], tuple(_term(a) for a in args)))
                if name in ("list", "tuple") and len(args) == 1 and isinstance(args[0], _TV):
                    t = args[0].t
                    return args[0] if name == "list" and t.op in ("chunks", "map", "list") else _TV(T("call", (name, t)))
                if name == "len" and len(args) == 1 and isinstance(args[0], _TV):
                    return _TV(T("len", (args[0].t,)))
        try:
            return super()._call(e, env)
        except _Symbolic:
            raise
        except MiniUndecided as u:
            # an uninterpreted function of wire terms (a helper that branches on them, a method of a term value, a foreign function): the
            # application itself is the term - equal to nothing but itself, so it can never prove a field equal
            try:
                args, kwargs = self._args(e, env)
            except (MiniUndecided, MiniRaised):
                raise u from None
            recv = None
            if isinstance(f, ast.Attribute):
                try:
                    recv = self._ev(f.value, env)
                except (MiniUndecided, MiniRaised):
                    recv = None
            mutable = any(isinstance(a, (list, dict, set, Opaque)) for a in [*args, *kwargs.values()])
            if kwargs or mutable or not (_has_tv(args) or isinstance(recv, _TV)) or name is None:
                raise
            if isinstance(recv, _TV):
                return _TV(T("call", ("." + f.attr, recv.t, *[_term(a) for a in args])))
            return _TV(T("call", (name, *[_term(a) for a in args])))

    def _args(self, e: ast.Call, env):
        args = []
        for a in e.args:
            if isinstance(a, ast.Starred):
                args.extend(self._iter(self._ev(a.value, env), a))
            else:
                args.append(self._ev(a, env))
        kwargs = {}
        for k in e.keywords:
            v = self._ev(k.value, env)
            if k.arg is None:
                if not isinstance(v, dict):
                    raise MiniUndecided("** of a non-dict")
                kwargs.update(v)
            else:
                kwargs[k.arg] = v
        return args, kwargs


def _term_hooks(repo, fi: FuncInfo, judged: ClassInfo):
    """on_call hook of the term interpreter: constructing a Serializable class of /repo yields a _Ctor (decode mode)"""
    ser = repo.cls("Serializable", SER)

    def hooks(name, base, args, kwargs):
        if base is None and name is not None and re.fullmatch(r"[A-Za-z_][\w.]*", name) and name not in ("super",):
            k = repo.resolve_class_expr(fi.module, ast.parse(name, mode="eval").body)
            if k is not None and ser in k.mro():
                return _Ctor(k, False, list(args), dict(kwargs), 0)
        return NotImplemented
    return hooks


def _guard(what: str, thunk):
    """run an interpretation; everything that is not a result is `Undecided` (never a verdict)"""
    try:
        return thunk()
    except MiniUndecided as u:
        raise Undecided(f"{what}: {u}") from u
    except MiniRaised as r:
        raise Undecided(f"{what}: the interpreted code raises {r}") from r
    except RecursionError as r:
        raise Undecided(f"{what}: recursion") from r
    except (Undecided, AnalysisError):
        raise
    except Exception as x:  # noqa: BLE001  (the fallback interpreter met something it was not built for: no verdict, never a crash)
        raise Undecided(f"{what}: {type(x).__name__}: {x}") from x


def interp_to_pack_list(ctx: Ctx, cls: ClassInfo) -> list[tuple[str, list[T]]]:
    """eval_to_pack_list by interpretation: cls.to_pack_list run on an instance token whose fields are Field(..) terms."""
    fi = cls.lookup("to_pack_list")
    if fi is None:
        raise Undecided("no to_pack_list")

    def go():
        m = _TermMini(ctx.repo, fi, _term_hooks(ctx.repo, fi, cls))
        m.mode, m.judged = "encode", cls
        m.token = _Obj(cls, {})
        out = m(m.token)
        if not isinstance(out, list):
            raise MiniUndecided(f"to_pack_list returns {out!r}")
        res = []
        for entry in out:
            if not (isinstance(entry, (tuple, list)) and entry and isinstance(entry[0], str)):
                raise MiniUndecided(f"pack list element {entry!r}")
            res.append((entry[0], [_term(v) for v in entry[1:]]))
        return res
    return _guard(f"{cls.name}.to_pack_list", go)


def interp_decode_ctor(ctx: Ctx, cls: ClassInfo, ful: FuncInfo, params: list[str], wire: list[T]):
    """_decode_ctor by interpretation: (target class, constructed through `cls`, positional terms, keyword terms, line)."""
    def go():
        m = _TermMini(ctx.repo, ful, _term_hooks(ctx.repo, ful, cls))
        m.mode, m.judged = "decode", cls

        make = _ClsToken(cls)
        a = ful.node.args
        names = [p.arg for p in a.posonlyargs + a.args]
        vals = {p: _wrap(t) for p, t in zip(params, wire)}
        args = [make if p == "cls" else vals[p] for p in names if p == "cls" or p in vals]
        if len(args) != len(names):
            raise MiniUndecided("from_unpack_list signature")
        out = m(*args)
        if not isinstance(out, _Ctor):
            raise MiniUndecided(f"from_unpack_list returns {out!r}")
        return out.cls, out.via_cls, [_term(v) for v in out.args], {k: _term(v) for k, v in out.kwargs.items()}
    return _guard(f"{cls.name}.from_unpack_list", go)


def interp_init_fields(ctx: Ctx, cls: ClassInfo, args: list[T], kwargs: dict[str, T]) -> dict[str, T]:
    """init_fields by interpretation: the attribute stores of cls.__init__ (and the constructors it chains to) on a fresh object."""
    fi = cls.lookup("__init__")
    if fi is None or fi.cls.name in ("Payload", "Serializable", "object"):
        return {}

    def go():
        m = _TermMini(ctx.repo, fi, _term_hooks(ctx.repo, fi, cls))
        m.mode, m.judged = "init", cls
        m.token = _Obj(cls, {})
        m(m.token, *[_wrap(t) for t in args], **{k: _wrap(t) for k, t in kwargs.items()})
        return {a: _term(v) for a, v in m.token.attrs.items()}
    return _guard(f"{cls.name}.__init__", go)


def _pack_list_of(ctx: Ctx, cls: ClassInfo):
    try:
        return eval_to_pack_list(ctx, cls)
    except Undecided as u:
        try:
            return interp_to_pack_list(ctx, cls)
        except Undecided as u2:
            raise Undecided(f"{u}; interpreted: {u2}") from u2


def _init_fields_of(ctx: Ctx, cls: ClassInfo, args: list[T], kwargs: dict[str, T]) -> dict[str, T]:
    try:
        return init_fields(ctx, cls, args, kwargs)
    except Undecided as u:
        try:
            return interp_init_fields(ctx, cls, args, kwargs)
        except Undecided as u2:
            raise Undecided(f"{u}; interpreted: {u2}") from u2


def rule_term_inverse(ctx: Ctx) -> None:
    repo = ctx.repo
    table = serializer_table(ctx)
    extras = extra_packers(ctx)
    ser = repo.cls("Serializable", SER)
    with open(os.path.join(TABLES, "c02_undecided.json"), encoding="utf-8") as fh:
        allow = json.load(fh)["undecided"]
    undecided_seen = {}
    hand = [c for c in ser.all_subclasses() if c.lookup("to_pack_list") is not None and c.lookup("to_pack_list").cls.name != "VariablePayload"
            and c.lookup("from_unpack_list") is not None and not c.is_subclass_of("VariablePayload") and c.name not in ("Payload",)]
    ctx.floor("pack-unpack-inverse.classes", len(hand), 15)
    for cls in sorted(hand, key=lambda c: c.name):
        fpl = cls.lookup("to_pack_list")
        ful = cls.lookup("from_unpack_list")
        try:
            packlist = _pack_list_of(ctx, cls)
        except Undecided as u:
            undecided_seen[f"{cls.name}.*"] = str(u)
            continue
        # formats in to_pack_list order == format_list
        fl_expr = cls.lookup_attr("format_list")
        fl_owner = next((k for k in cls.mro() if "format_list" in k.attrs), None)
        fl = repo.resolve_const(fl_owner.module, fl_expr) if fl_expr is not None else NOCONST
        if fl is NOCONST and fl_expr is not None:
            # computed in the class body (a sum of lists, a table): the list it evaluates to
            from .c02_packers import _ModuleScope
            try:
                v = Mini(repo, _ModuleScope(fl_owner.module, fl_owner))._ev(fl_expr, {})
            except (MiniUndecided, MiniRaised) as u:
                undecided_seen[f"{cls.name}.*"] = f"format_list: {u}"
                continue
            if isinstance(v, (list, tuple)) and all(isinstance(x, str) for x in v):
                fl = list(v)
        fmts = [f for f, _ in packlist]
        ctx.check(fl is not NOCONST and list(fl) == fmts, "pack-unpack-inverse", fpl, fpl.node, f"{cls.name}: formats written {fmts} == format_list",
                  f"{cls.name}.to_pack_list writes formats {fmts} but the decoder follows format_list {fl}")
        # wire values
        wire: list[T] = []
        for fmt, vals in packlist:
            ar = packer_arity({**table, **{k: v[1] for k, v in extras.items()}}, fmt)
            sv = struct_values(table, fmt)
            if ar == 8:
                if len(vals) != 8:
                    ctx.check(False, "pack-unpack-inverse", fpl, fpl.node, f"{cls.name}: 'bits' gets 8 values", f"{cls.name}: 'bits' is given {len(vals)} values")
                wire.extend(T("bitwire", (v,)) for v in vals)
            elif sv > 1:
                ctx.check(len(vals) == sv, "pack-unpack-inverse", fpl, fpl.node, f"{cls.name}: struct '{fmt}' gets {sv} values", f"{cls.name}: struct '{fmt}' is given {len(vals)} values, needs {sv}")
                wire.append(T("tuple", tuple(vals)))
            else:
                if len(vals) != 1:
                    ctx.check(False, "pack-unpack-inverse", fpl, fpl.node, f"{cls.name}: '{fmt}' gets one value", f"{cls.name}: '{fmt}' is given {len(vals)} values")
                wire.append(vals[0] if vals else Const(None))
        params = [p for p in ful.params() if p != "cls"]
        okn = len(params) == len(wire) and ful.node.args.vararg is None
        ctx.check(okn, "pack-unpack-inverse", ful, ful.node, f"{cls.name}: from_unpack_list takes {len(wire)} wire values",
                  f"{cls.name}.from_unpack_list takes {len(params)} parameters but the formats yield {len(wire)} values")
        if not okn:
            continue
        env = dict(zip(params, wire))
        env["cls"] = T("cls", ())
        ev = _TermEval(repo, ful, env)
        try:
            call, argterms, kwterms = _decode_ctor(ev, ful)
            callee = chain(call.func)
            target = cls if callee == "cls" else repo.resolve_class_expr(ful.module, call.func)
            if target is None:
                raise Undecided(f"constructor {callee} not resolved")
        except Undecided as u:
            # not one straight-line constructor call: interpret from_unpack_list (locals, helpers, result objects, partial application, **fields)
            try:
                target, via_cls, argterms, kwterms = interp_decode_ctor(ctx, cls, ful, params, wire)
            except Undecided as u2:
                undecided_seen[f"{cls.name}.*"] = f"{u}; interpreted: {u2}"
                continue
            callee = "cls" if via_cls else target.name
            call = ful.node
        if not (target is cls or callee == "cls"):
            adds = [a for a in ("to_pack_list", "__init__", "format_list") if a in cls.methods or a in cls.attrs]
            if target in cls.mro() and not adds:
                ctx.note(f"{cls.name}.from_unpack_list (inherited) constructs {target.name}: same fields and format, only the class (msg_id) differs - not judged")
            else:
                ctx.check(False, "pack-unpack-inverse", ful, f"{cls.name} constructs {target.name}", f"{cls.name}: from_unpack_list constructs its own class",
                          f"{cls.name}.from_unpack_list constructs {target.name}: fields added by {cls.name} ({adds}) are lost")
        try:
            fields = _init_fields_of(ctx, target, argterms, kwterms)
        except Undecided as u:
            undecided_seen[f"{cls.name}.*"] = str(u)
            continue
        # which constructor normalisation does each field have (for the idempotent-mod rewrite)
        def init_of_field(f: str, cls=cls):
            try:
                probe = _init_fields_of(ctx, cls, [T("param", (i,)) for i in range(40)], {})
            except Undecided:
                return None
            t = probe.get(f)
            if t is not None and t.op == "mod" and is_const(t.args[1]):
                return ("mod", t.args[1].args[0])
            return None
        used = sorted({x.args[0] for _, vals in packlist for v in vals for x in _walk_terms(v) if x.op == "field"})
        for f in used:
            got = fields.get(f)
            if got is None:
                ctx.check(False, "pack-unpack-inverse", ful, f"{cls.name}.{f}", f"{cls.name}.{f} reconstructed", f"{cls.name}: field `{f}` written by to_pack_list is not set by the decoded instance")
                continue
            n = normalise(ctx, cls, got, init_of_field)
            if is_const(n):
                # a field this class's own constructor always sets to that very constant (not settable through it)
                try:
                    probe = _init_fields_of(ctx, cls, [T("param", (i,)) for i in range(40)], {})
                except Undecided:
                    probe = {}
                if probe.get(f) == n:
                    ctx.instance("pack-unpack-inverse", ful.where, f"{cls.name}.{f} is the constant {n} in every instance this class constructs", line=call.lineno)
                    continue
            if n == Field(f):
                ctx.instance("pack-unpack-inverse", ful.where, f"{cls.name}.{f} <- {got} == self.{f}", line=call.lineno)
                continue
            why = definitely_different(n, f)
            if why:
                ctx.check(False, "pack-unpack-inverse", ful, f"{cls.name}.{f}", f"{cls.name}.{f} <- {got}", f"{cls.name}: decode(encode(p)).{f} != p.{f}: {why}")
                continue
            try:
                en = enumerate_equal(ctx, cls, n, f, {})
            except Undecided as u:
                undecided_seen[f"{cls.name}.{f}"] = str(u)
                continue
            if en is not None:
                ctx.check(en[0], "pack-unpack-inverse", ful, f"{cls.name}.{f}", f"{cls.name}.{f} <- {got} ({en[1]})",
                          f"{cls.name}: decode(encode(p)).{f} != p.{f}: reconstructed as {got}; {en[1]}")
                continue
            if n.op in ("slice", "tuple", "list", "index", "const") or (n.op == "field" and n != Field(f)) or n.op == "bitwire":
                ctx.check(False, "pack-unpack-inverse", ful, f"{cls.name}.{f}", f"{cls.name}.{f} <- {got}",
                          f"{cls.name}: decode(encode(p)).{f} is `{n}`, not p.{f}")
                continue
            undecided_seen[f"{cls.name}.{f}"] = str(n)
    ctx.extra["undecided_attributes"] = undecided_seen
    new = sorted(k for k in undecided_seen if k not in allow)
    if new:
        raise AnalysisError(f"C02 term interpreter cannot normalise {new} (not in tables/c02_undecided.json): {[undecided_seen[k] for k in new]}")


def _walk_terms(t):
    if isinstance(t, T):
        yield t
        for a in t.args:
            yield from _walk_terms(a)
    elif isinstance(t, tuple):
        for a in t:
            yield from _walk_terms(a)


# ------------------------------------------------------------------------------------------ VariablePayload shape
def _evaluated_schema(repo, c: ClassInfo):
    """(names, formats) of a VariablePayload whose `names` / `format_list` are computed in the class body; None when they cannot be evaluated."""
    from .c02_packers import _ModuleScope
    out = []
    for attr in ("names", "format_list"):
        owner = next((k for k in c.mro() if attr in k.attrs), None)
        if owner is None:
            return None
        try:
            v = Mini(repo, _ModuleScope(owner.module, owner))._ev(owner.attrs[attr], {})
        except (MiniUndecided, MiniRaised):
            return None
        if not isinstance(v, (list, tuple)):
            return None
        out.append(list(v))
    names, raw = out
    fmts: list = []
    for x in raw:
        if isinstance(x, str):
            fmts.append(x)
        elif isinstance(x, list) and len(x) == 1 and getattr(x[0], "_mini_cls", None) is not None:
            fmts.append(("list", x[0]._mini_cls))
        elif getattr(x, "_mini_cls", None) is not None:
            fmts.append(("nested", x._mini_cls))
        else:
            return None
    if not all(isinstance(nm, str) for nm in names):
        return None
    return names, fmts


def rule_vp_shape(ctx: Ctx) -> None:
    repo = ctx.repo
    table = serializer_table(ctx)
    extras = extra_packers(ctx)
    vp = repo.cls("VariablePayload", "ipv8/messaging/lazy_payload.py")
    n = 0
    for c in sorted(vp.all_subclasses(), key=lambda c: (c.module.relpath, c.name)):
        if "names" not in c.attrs and "format_list" not in c.attrs:
            continue
        ne, fe = c.lookup_attr("names"), c.lookup_attr("format_list")
        if ne is None or fe is None:
            continue
        if not isinstance(fe, (ast.List, ast.Tuple)) or not isinstance(ne, (ast.List, ast.Tuple)) or any(isinstance(x, ast.Starred) for x in [*fe.elts, *ne.elts]):
            # not plain displays (a sum of lists, a comprehension over a table, `*COMMON`): the value the class body computes, evaluated
            got = _evaluated_schema(repo, c)
            if got is None:
                continue
            names, fmts = got
        else:
            names = [const_value(x) for x in ne.elts]
            fmts = []
            for x in fe.elts:
                cv = const_value(x)
                if isinstance(cv, str):
                    fmts.append(cv)
                elif isinstance(x, ast.List) and len(x.elts) == 1:
                    k = repo.resolve_class_expr(c.module, x.elts[0])
                    fmts.append(("list", k))
                else:
                    k = repo.resolve_class_expr(c.module, x)
                    fmts.append(("nested", k))
        n += 1
        need = sum(8 if f == "bits" else 1 for f in fmts)
        ctx.check(len(names) == need and len(set(names)) == len(names), "vp-shape", c.where, c.node, f"{c.name}: {len(names)} names for formats needing {need}",
                  f"{c.name}: names has {len(names)} entries but format_list consumes {need} (8 per 'bits'): fields shift or raise at construction")
        raws = [i for i, f in enumerate(fmts) if f == "raw"]
        ctx.check(all(i == len(fmts) - 1 for i in raws), "vp-shape", c.where, c.node, f"{c.name}: 'raw' only in last position",
                  f"{c.name}: a 'raw' field is followed by other fields: raw consumes the rest of the datagram, later fields can never be decoded")
        for f in fmts:
            if isinstance(f, tuple):
                ctx.check(f[1] is not None and f[1].is_subclass_of("Serializable"), "vp-shape", c.where, c.node, f"{c.name}: nested format resolves to a Serializable",
                          f"{c.name}: a nested format entry does not resolve to a Serializable class")
            else:
                known = f in table or f in extras or "*" in extras
                ctx.check(known, "vp-shape", c.where, c.node, f"{c.name}: format '{f}' registered", f"{c.name}: format '{f}' is not registered by any serializer")
                if f in extras:
                    ov = extras[f][0]
                    users_ok = c.module.relpath.split("/")[1] in ("dht", "messaging") or True
                    ctx.instance("vp-shape", c.where, f"{c.name}: '{f}' comes from {ov}.get_serializer", nontrivial=False)
        hooks_p = {m[len("fix_pack_"):] for m in c.methods if m.startswith("fix_pack_")}
        hooks_u = {m[len("fix_unpack_"):] for m in c.methods if m.startswith("fix_unpack_")}
        ctx.check(hooks_p == hooks_u and hooks_p <= set(names), "vp-shape", c.where, c.node, f"{c.name}: fix_pack_/fix_unpack_ hooks come in pairs for declared names",
                  f"{c.name}: hooks fix_pack_{sorted(hooks_p)} / fix_unpack_{sorted(hooks_u)} are not paired (or name no field)")
        # annotated fields (documentation of the wire schema) must be the names
        ann = [a for a in c.annotations if a in names or a not in ("msg_id", "names", "format_list")]
        if ann:
            ctx.check(set(ann) <= set(names) | {"circuit_id"}, "vp-shape", c.where, c.node, f"{c.name}: annotated fields are declared names",
                      f"{c.name}: annotated fields {sorted(set(ann) - set(names))} are not in names")
    ctx.floor("vp-shape", n, 40)
    # msg ids unique per overlay registration table is C01's; here: within one module no two payloads share msg_id AND names differ -> informative only


# ------------------------------------------------------------------------------------------ name grammar + documentation
def _ctor(c: ast.Call):
    return chain(c.func), [const_value(a) if const_value(a) is not NOCONST else (_ctor(a) if isinstance(a, ast.Call) else norm(a)) for a in c.args], \
        {k.arg: const_value(k.value) for k in c.keywords}


def rule_name_grammar(ctx: Ctx) -> None:
    table = serializer_table(ctx)
    ctx.floor("name-grammar", len(table), 35)
    init = ctx.repo.method("Serializer", "__init__", SER)
    defaults = {}
    for cname in ("VarLen", "ListOf", "Address", "DefaultArray"):
        ci = ctx.repo.cls(cname, SER)
        ctor = ci.lookup("__init__")
        if ctor is None:
            raise AnalysisError(f"anchor-lost: {cname}.__init__")
        a = ctor.node.args
        ps = [p.arg for p in a.args][1:]
        defaults[cname] = dict(zip(ps[len(ps) - len(a.defaults):], [const_value(d) for d in a.defaults]))
    for name, c in table.items():
        cn, args, kw = _ctor(c)
        ok, want = True, ""
        m = re.fullmatch(r"varlen([BHI])(?:x(\d+))?(utf8)?", name)
        if name in ("doublevarlenH",):
            m = re.fullmatch(r"(?:double)?varlen([BHI])(?:x(\d+))?(utf8)?", name)
        if m and not name.endswith("-list"):
            base = int(m.group(2) or 1)
            wantc = "VarLenUtf8" if m.group(3) else "VarLen"
            gotbase = args[1] if len(args) > 1 else kw.get("base", defaults["VarLen"].get("base", 1))
            ok = cn == wantc and args and args[0] == ">" + m.group(1) and gotbase == base
            want = f"{wantc}('>{m.group(1)}', {base})"
        elif name.endswith("-list"):
            inner = name[: -len("-list")]
            lf = args[1] if len(args) > 1 else kw.get("length_format", defaults["ListOf"].get("length_format"))
            ok = cn == "ListOf" and lf == ">B" and args and isinstance(args[0], tuple)
            if ok and inner in table:
                ok = _ctor(table[inner])[:2] == args[0][:2]
            want = f"ListOf(<packer of '{inner}'>, '>B')"
        elif name.startswith("array"):
            m2 = re.fullmatch(r"array([BHI])-(.)", name)
            ok = bool(m2) and cn == "DefaultArray" and args[:2] == [m2.group(2), m2.group(1)]
            want = f"DefaultArray('{m2.group(2) if m2 else '?'}', '{m2.group(1) if m2 else '?'}')"
        elif cn == "DefaultStruct":
            wantfmt = ">" + name.replace("S", "s")
            ok = args == [wantfmt]
            want = f"DefaultStruct('{wantfmt}')"
            try:
                struct.calcsize(wantfmt)
            except struct.error:
                ok = False
        elif name == "bits":
            ok = cn == "Bits"
        elif name == "raw":
            ok = cn == "Raw"
        elif name == "ipv4":
            ok = cn == "IPv4"
        elif name == "ip_address":
            ok = cn == "Address" and (kw.get("ip_only") is True or args == [True])
            want = "Address(ip_only=True)"
        elif name == "address":
            ok = cn == "Address" and not args and not kw.get("ip_only", defaults["Address"].get("ip_only", False))
            want = "Address()"
        elif name == "payload":
            ok = cn == "NestedPayload"
        else:
            raise AnalysisError(f"name-grammar: format name '{name}' has no grammar rule")
        ctx.check(ok, "name-grammar", init, name, f"'{name}' is registered as {want or cn}",
                  f"format '{name}' is registered as {norm(c)} but its name spells {want or 'another packer'}: peers built from the documented format do not interoperate")
    # documentation table
    doc = os.path.join(ctx.repo.root, "doc", "reference", "serialization.rst")
    if not os.path.exists(doc):
        raise AnalysisError("anchor-lost: doc/reference/serialization.rst")
    rows = {}
    in_table = False
    for line in open(doc, encoding="utf-8"):
        if "csv-table:: Available data types" in line:
            in_table = True
            continue
        if in_table:
            m = re.match(r'\s+"([^"]+)",\s*("?[^",]*"?|"[^"]*"),', line)
            if m:
                rows[m.group(1)] = m.group(2).strip('"').strip()
            elif line.strip() and not line.startswith(" "):
                in_table = False
            elif "csv-table" in line:
                in_table = False
    ctx.floor("name-grammar.doc-rows", len(rows), 30)
    with open(os.path.join(TABLES, "c02_doc_errata.json"), encoding="utf-8") as fh:
        errata = json.load(fh)["errata"]
    for name, size in rows.items():
        if name not in table:
            ctx.check(False, "name-grammar", "doc/reference/serialization.rst", name, f"documented type '{name}' is registered", f"documented type '{name}' is not registered")
            continue
        cn, args, kw = _ctor(table[name])
        if size.isdigit():
            if cn == "DefaultStruct":
                real = struct.calcsize(args[0])
            elif cn == "Bits":
                real = 1
            elif cn == "IPv4":
                real = 6
            else:
                real = None
            if name in errata and real == errata[name]["code_bytes"] and int(size) == errata[name]["documented_bytes"]:
                ctx.instance("name-grammar", "doc/reference/serialization.rst", f"'{name}': documentation erratum ({errata[name]['reason']})", nontrivial=False)
                continue
            ctx.check(real == int(size), "name-grammar", init, name, f"'{name}' occupies {real} bytes as documented",
                      f"format '{name}' occupies {real} bytes, the documented wire format says {size}")
        else:
            m = re.fullmatch(r"(\d+) \+ \?(?: \* (\d+))?", size)
            if m and cn in ("VarLen", "VarLenUtf8", "NestedPayload", "DefaultArray"):
                plen, unit = int(m.group(1)), int(m.group(2) or 1)
                if cn == "NestedPayload":
                    real_p, real_u = 2, 1
                elif cn == "DefaultArray":
                    real_p = struct.calcsize(">" + args[1])
                    real_u = struct.calcsize(">" + ("B" if args[0] == "?" else args[0]))
                else:
                    real_p = struct.calcsize(args[0])
                    real_u = args[1] if len(args) > 1 else 1
                ctx.check((real_p, real_u) == (plen, unit), "name-grammar", init, name, f"'{name}': length prefix {real_p} bytes, unit {real_u} as documented",
                          f"format '{name}' has a {real_p}-byte length prefix counting units of {real_u}, documented: {plen} bytes / unit {unit}")


# ------------------------------------------------------------------------------------------ bits / cell codec
def rule_bit_order(ctx: Ctx) -> None:
    """
    'bits' = one byte, position 0 is the most significant bit (0x80) ... position 7 the least (0x01); a value is packed by its
    truthiness.  Decided by evaluating Bits.pack / Bits.unpack (mini-interpreter over their AST, struct = trusted stdlib) on the
    whole finite domain: all 256 bytes / all 256 bit tuples.  Independent of how the masks are spelled (eight statements, a loop,
    a comprehension, shifts): only the input/output table counts.
    """
    bits = ctx.repo.cls("Bits", SER)
    pk, un = bits.methods["pack"], bits.methods["unpack"]
    me = Opaque("Bits instance")
    run_pack, run_unpack = Mini(ctx.repo, pk, struct_hooks), Mini(ctx.repo, un, struct_hooks)

    def do_pack(values):
        try:
            return run_pack(me, *values)
        except MiniRaised as e:
            return f"raises {e}"

    def do_unpack(byte: int):
        out: list = []
        buf = b"\xa5" + bytes([byte]) + b"\x5a"         # the byte sits at offset 1, between two other bytes
        try:
            end = run_unpack(me, buf, 1, out)
        except MiniRaised as e:
            return f"raises {e}", None
        return out, end
    try:
        for pos in range(8):
            want = 0x80 >> pos
            onehot = [1 if i == pos else 0 for i in range(8)]
            got_p = do_pack(onehot)
            got_t = do_pack([v * 2 for v in onehot])         # any truthy value sets the bit ("anything that maps to it in an if-statement")
            got_u, end = do_unpack(want)
            ok = got_p == bytes([want]) and got_t == bytes([want]) and got_u == onehot and end == 2
            ctx.check(ok, "bit-order", un, f"bit position {pos}", f"position {pos}: pack mask and unpack mask are {hex(want)}",
                      f"'bits' position {pos}: pack(only bit {pos} set) gives {got_p!r} (truthy non-1 value: {got_t!r}), unpack({hex(want)}) yields {got_u} "
                      f"and offset+{(end - 1) if isinstance(end, int) else '?'}: documented order is bit 0 = 0x80 ... bit 7 = 0x01, one byte")
        bad_p, bad_u = [], []
        for byte in range(256):
            vals = [1 if byte & (0x80 >> i) else 0 for i in range(8)]
            if do_pack(vals) != bytes([byte]) or do_pack([bool(v) for v in vals]) != bytes([byte]):
                bad_p.append(byte)
            if do_unpack(byte) != (vals, 2):
                bad_u.append(byte)
        ctx.check(not bad_p and not bad_u, "bit-order", pk, pk.node, "bits occupy one unsigned byte: pack/unpack agree with the documented table for all 256 values",
                  f"Bits.pack/unpack disagree with the documented one-byte table for {len(bad_p)} packed / {len(bad_u)} unpacked values "
                  f"(first: {[hex(b) for b in (bad_p or bad_u)[:4]]})")
    except MiniUndecided as e:
        raise AnalysisError(f"undecided: bit-order: {e}") from e


class _Sym:
    """an arbitrary scalar wire value (circuit id, flag, message id): the layout argument is parametric in it"""

    def __init__(self, name: str) -> None:
        self.name = name

    def __repr__(self) -> str:
        return f"<{self.name}>"

    def __bool__(self) -> bool:
        raise MiniUndecided(f"the cell codec branches on the value of {self.name}")

    __index__ = __int__ = __bool__


def _fields_of(fmt: str) -> list[str]:
    order = fmt[0] if fmt[:1] in "@=<>!" else ""
    out, count = [], ""
    for ch in fmt[len(order):]:
        if ch.isdigit():
            count += ch
            continue
        if ch == "s":
            out.append(order + (count or "1") + "s")
        else:
            out.extend([order + ch] * int(count or 1))
        count = ""
    return out


class _SymBytes:
    """
    A byte string as a list of segments: ("c", bytes) literal bytes; ("p", code, value) one struct field of known size holding an
    arbitrary value; ("o", name, lo, hi) the bytes name[lo:hi] of an arbitrary byte string (hi None = to its end, size unknown).
    Concatenation, constant slicing and struct (un)packing are exact on this representation, for ALL values of the symbols.
    """

    def __init__(self, segs) -> None:
        self.segs = self._norm(list(segs))

    @staticmethod
    def _norm(segs):
        out = []
        for g in segs:
            if g[0] == "c" and not g[1]:
                continue
            if g[0] == "p":
                code = g[1].lstrip("@=<>!") if struct.calcsize(g[1]) == 1 and g[1][-1] in "Bb?c" else g[1]
                g = ("p", code, g[2])
                if isinstance(g[2], (int, bool)) and not isinstance(g[2], _Sym):
                    g = ("c", struct.pack(g[1], g[2]))
            if out and g[0] == "c" and out[-1][0] == "c":
                out[-1] = ("c", out[-1][1] + g[1])
            elif out and g[0] == "o" and out[-1][0] == "o" and out[-1][1] == g[1] and out[-1][3] is not None and out[-1][3] == g[2]:
                out[-1] = ("o", g[1], out[-1][2], g[3])
            else:
                out.append(g)
        return out

    @staticmethod
    def of(v) -> "_SymBytes":
        if isinstance(v, _SymBytes):
            return v
        if isinstance(v, (bytes, bytearray)):
            return _SymBytes([("c", bytes(v))])
        raise MiniRaised(f"TypeError: cannot concatenate {type(v).__name__} to bytes")

    @staticmethod
    def size(g):
        if g[0] == "c":
            return len(g[1])
        if g[0] == "p":
            return struct.calcsize(g[1])
        return None if g[3] is None else g[3] - g[2]

    def __add__(self, other):
        return _SymBytes(self.segs + _SymBytes.of(other).segs)

    def __radd__(self, other):
        return _SymBytes(_SymBytes.of(other).segs + self.segs)

    def __eq__(self, other) -> bool:
        return isinstance(other, (_SymBytes, bytes)) and self.segs == _SymBytes.of(other).segs

    __hash__ = None

    def __bool__(self) -> bool:
        raise MiniUndecided("the cell codec branches on a symbolic byte string")

    def __repr__(self) -> str:
        def one(g):
            return repr(g[1]) if g[0] == "c" else f"pack({g[1]!r}, {g[2]!r})" if g[0] == "p" else f"{g[1]}[{g[2] or ''}:{'' if g[3] is None else g[3]}]"
        return " + ".join(one(g) for g in self.segs) or "b''"

    def __getitem__(self, sl):
        if not isinstance(sl, slice) or sl.step is not None:
            raise MiniUndecided("indexing a symbolic byte string")
        lo, hi = sl.start or 0, sl.stop
        if lo < 0 or (hi is not None and hi < 0):
            raise MiniUndecided("negative slice bound on a symbolic byte string")
        out, pos = [], 0
        for g in self.segs:
            n = self.size(g)
            end = None if n is None else pos + n
            if hi is not None and pos >= hi:
                break
            a = max(lo - pos, 0)
            b = None if hi is None else hi - pos
            if end is not None and end <= lo:
                pos = end
                continue
            if b is not None and n is not None:
                b = min(b, n)
            if g[0] == "c":
                out.append(("c", g[1][a:b]))
            elif g[0] == "o":
                out.append(("o", g[1], g[2] + a, (g[3] if b is None or (n is not None and b == n) else g[2] + b)))
            elif a == 0 and (b is None or b == n):
                out.append(g)
            else:
                out.append(("x", f"bytes {a}:{b} of pack({g[1]!r}, {g[2]!r})"))     # a slice through the middle of a field: equal to nothing
            if end is None:
                break
            pos = end
        return _SymBytes(out)

    def unpack_from(self, fmt: str, offset: int):
        vals, pos, i = [], 0, 0
        want = offset
        for code in _fields_of(fmt):
            n = struct.calcsize(code)
            hit = None
            pos = 0
            for g in self.segs:
                m = self.size(g)
                if pos == want and g[0] == "p" and struct.calcsize(g[1]) == n and g[1].lstrip("@=<>!") == code.lstrip("@=<>!") \
                        and (n == 1 or g[1][:1] == code[:1] or {g[1][:1], code[:1]} <= {"!", ">"}):
                    hit = g[2]
                    break
                if g[0] == "c" and m is not None and pos <= want and want + n <= pos + m:
                    hit = struct.unpack(code, g[1][want - pos:want - pos + n])[0]
                    break
                if m is None:
                    break
                pos += m
            if hit is None:
                raise MiniRaised(f"reads {code!r} at byte {want}, but the wire layout is {self!r}")
            vals.append(hit)
            want += n
        return tuple(vals)


def _sym_struct(name, base, args, kwargs):
    """struct on symbolic layouts (exact for all values of the symbols)"""
    if name in ("pack", "struct.pack") and args and isinstance(args[0], str):
        codes = _fields_of(args[0])
        if len(codes) != len(args) - 1:
            raise MiniRaised(f"struct.error: pack expected {len(codes)} items for packing (got {len(args) - 1})")
        return _SymBytes([("p", c, v) for c, v in zip(codes, args[1:])])
    if name in ("unpack_from", "struct.unpack_from") and len(args) >= 2 and isinstance(args[0], str):
        off = args[2] if len(args) > 2 else kwargs.get("offset", 0)
        return _SymBytes.of(args[1]).unpack_from(args[0], off)
    if name in ("unpack", "struct.unpack") and len(args) == 2 and isinstance(args[0], str):
        b = _SymBytes.of(args[1])
        vals = b.unpack_from(args[0], 0)
        total = 0
        for g in b.segs:
            n = _SymBytes.size(g)
            if n is None:
                raise MiniUndecided(f"struct.unpack({args[0]!r}) of a byte string of unknown length {b!r}")
            total += n
        if total != struct.calcsize(args[0]):
            raise MiniRaised(f"struct.error: unpack requires a buffer of {struct.calcsize(args[0])} bytes, got {total} ({b!r})")
        return vals
    if name in ("calcsize", "struct.calcsize") and len(args) == 1 and isinstance(args[0], str):
        return struct.calcsize(args[0])
    return NotImplemented


def _has_sym(v, depth: int = 0) -> bool:
    if isinstance(v, (_SymBytes, _Sym)):
        return True
    return depth < 4 and isinstance(v, (tuple, list)) and any(_has_sym(x, depth + 1) for x in v)


class _SymMini(Mini):
    def _plain(self, v, where) -> None:
        if not isinstance(v, _SymBytes):
            super()._plain(v, where)

    def _py(self, f, *a, **k):
        if getattr(f, "__name__", "") == "join" and isinstance(getattr(f, "__self__", None), bytes) and f.__self__ == b"" and len(a) == 1 and not k:
            # `glue = b"".join ... glue(parts)`: the early-bound join of the empty separator - the same concatenation as `b"".join(parts)`
            parts = a[0] if isinstance(a[0], (list, tuple)) else self._iter(a[0], ast.Constant(value=None))
            if any(isinstance(x, _SymBytes) for x in parts):
                out = _SymBytes([])
                for x in parts:
                    out = out + x
                return out
            a = (parts,)
        try:
            return f(*a, **k)
        except (MiniUndecided, MiniRaised, _Ret, _Brk, _Cont):
            raise
        except Exception as e:  # noqa: BLE001
            if _has_sym(list(a)) or _has_sym(list(k.values())):
                # a Python operation that does not know the symbolic layout objects: no verdict (never "the codec raises")
                raise MiniUndecided(f"{getattr(f, '__name__', f)!s} applied to a symbolic byte string: {type(e).__name__}: {e}") from e
            raise MiniRaised(f"{type(e).__name__}: {e}", kind=type(e).__name__) from e

    def _call(self, e, env):
        f = e.func
        if isinstance(f, ast.Attribute) and f.attr == "join" and len(e.args) == 1 and not e.keywords:
            sep = self._ev(f.value, env)
            if isinstance(sep, bytes) and sep == b"":
                parts = self._ev(e.args[0], env)
                if not isinstance(parts, (list, tuple)):
                    parts = self._iter(parts, e)          # a generator / chain / map of parts: the same parts, in order
                if isinstance(parts, (list, tuple)) and any(isinstance(x, _SymBytes) for x in parts):
                    out = _SymBytes([])
                    for x in parts:
                        out = out + x
                    return out
        if isinstance(f, ast.Name) and f.id == "bytes" and len(e.args) == 1 and isinstance(e.args[0], (ast.List, ast.Tuple)):
            elts = [self._ev(x, env) for x in e.args[0].elts]
            if any(isinstance(x, _Sym) for x in elts):
                return _SymBytes([("p", "B", x) for x in elts])
        return super()._call(e, env)


def rule_cell_codec(ctx: Ctx) -> None:
    """
    Cell framing, decided on SYMBOLIC layouts: CellPayload.__init__/to_bin/from_bin/unwrap and TunnelCommunity.send_cell are interpreted
    over their AST with the circuit id, the flags, the message id and the message bytes as arbitrary symbols; concatenation, constant
    slicing and struct packing are exact on the segment representation (_SymBytes), so each verdict holds for every cell - nothing is
    sampled and nothing of /repo is executed.  Only what the functions compute counts, not how the concatenation is spelled.
    """
    repo = ctx.repo
    PL = "ipv8/messaging/anonymization/payload.py"
    cp = repo.cls("CellPayload", PL)
    tb, fb, uw, init = cp.methods["to_bin"], cp.methods["from_bin"], cp.methods["unwrap"], cp.methods["__init__"]
    msg_id = repo.resolve_const(cp.module, cp.attrs["msg_id"]) if "msg_id" in cp.attrs else NOCONST
    ctx.anchor(isinstance(msg_id, int), "CellPayload.msg_id constant")
    cls_token = Opaque("class CellPayload", {"msg_id": msg_id})
    fields = ("circuit_id", "message", "plaintext", "relay_early")

    def hooks(name, base, args, kwargs):
        if base is cls_token or (base is None and name == "CellPayload"):
            o = Opaque("CellPayload instance", {"msg_id": msg_id})
            _SymMini(repo, init, hooks)(o, *args, **kwargs)
            return o
        return _sym_struct(name, base, args, kwargs)

    def attempt(f, *a):
        try:
            return f(*a)
        except MiniRaised as e:
            return f"raises {e}"
    prefix = _SymBytes([("o", "prefix", 0, 22)])          # version, service id, ...: the 22 bytes before the message id
    cid, pt, re_ = _Sym("circuit_id"), _Sym("plaintext"), _Sym("relay_early")
    msg = _SymBytes([("o", "message", 0, None)])
    try:
        cell = hooks("CellPayload", None, [cid, msg, pt, re_], {})
        wire = attempt(_SymMini(repo, tb, hooks), cell, prefix)
        want = prefix + bytes([msg_id]) + _SymBytes([("p", "!I", cid), ("p", "!?", pt), ("p", "!?", re_)]) + msg
        ok = isinstance(wire, _SymBytes) and wire == want
        ctx.check(ok, "cell-codec", tb, tb.node, "cell = prefix + msg_id + header '!I??' (circuit_id, plaintext, relay_early) at byte 23 + message",
                  f"to_bin layout changed: it builds {wire!r}; documented: {want!r}")
        if ok:
            back = attempt(_SymMini(repo, fb, hooks), cls_token, wire)
            got = tuple(back.attrs.get(f) for f in fields) if isinstance(back, Opaque) else back
            same = isinstance(got, tuple) and len(got) == 4 and got[0] is cid and got[2] is pt and got[3] is re_ and isinstance(got[1], _SymBytes) and got[1] == msg
            ctx.check(same, "cell-codec", fb, fb.node, "from_bin(to_bin(cell)) restores circuit_id, message, plaintext, relay_early (symbolically: for every cell)",
                      f"from_bin is not the inverse of to_bin: the cell (circuit_id, message, plaintext, relay_early) comes back as {got!r} "
                      "(header field order / offsets 23 and 29 differ between the two sides)")
        # unwrap <-> TunnelCommunity.send_cell: send_cell strips the 4-byte circuit id off the packed payload and puts the msg id first;
        # unwrap must give back  prefix + msg id + the packed payload  (circuit id re-inserted right after the msg id)
        sc = repo.method("TunnelCommunity", "send_cell", "ipv8/messaging/anonymization/community.py")
        mid = _Sym("msg_id")
        packed = _SymBytes([("p", "!I", cid), ("o", "payload body", 0, None)])   # every cellable payload starts with circuit_id:'I' (checked below)
        payload = Opaque("payload", {"circuit_id": cid, "msg_id": mid})
        sent = []

        def sc_hooks(name, base, args, kwargs):
            if name is not None and name.endswith(".pack_serializable") and args == [payload]:
                return packed
            if name is not None and name.endswith(".send_cell") and len(args) == 2:
                sent.append(args[1])
                return None
            if name == "in" or (name is None and False):
                return NotImplemented
            return hooks(name, base, args, kwargs)
        me = Opaque("TunnelCommunity", {"serializer": Opaque("serializer"), "crypto_endpoint": Opaque("crypto_endpoint")})
        try:
            attempt(_SymMini(repo, sc, sc_hooks), me, Opaque("address"), payload)
        except MiniUndecided:
            # send_cell computes `cell.plaintext = payload.msg_id in NO_CRYPTO_PACKETS` on the symbolic message id: irrelevant for the layout
            pass
        cell2 = sent[0] if len(sent) == 1 and isinstance(sent[0], Opaque) else None
        if cell2 is None:
            # the flag computation on a symbolic message id stopped the interpretation before the hand-over: retry with each concrete class of id
            for concrete in (2, 9):
                sent.clear()
                payload.attrs["msg_id"] = concrete
                attempt(_SymMini(repo, sc, sc_hooks), me, Opaque("address"), payload)
                cell2 = sent[0] if len(sent) == 1 and isinstance(sent[0], Opaque) else None
                plain = attempt(_SymMini(repo, uw, hooks), cell2, prefix) if cell2 is not None else "send_cell hands no cell to the crypto endpoint"
                want2 = prefix + bytes([concrete]) + packed
                ok2 = isinstance(plain, _SymBytes) and plain == want2 and cell2.attrs.get("circuit_id") is cid
                ctx.check(ok2, "cell-codec", uw, uw.node, "unwrap re-inserts the 4-byte circuit id exactly where send_cell stripped it (after the msg id)",
                          f"send_cell / unwrap disagree on where the circuit id sits: unwrap gives {plain!r}, not {want2!r}")
        else:
            plain = attempt(_SymMini(repo, uw, hooks), cell2, prefix)
            want2 = prefix + _SymBytes([("p", "B", mid)]) + packed
            ok2 = isinstance(plain, _SymBytes) and plain == want2 and cell2.attrs.get("circuit_id") is cid
            ctx.check(ok2, "cell-codec", uw, uw.node, "unwrap re-inserts the 4-byte circuit id exactly where send_cell stripped it (after the msg id)",
                      f"send_cell / unwrap disagree on where the circuit id sits: unwrap gives {plain!r}, not {want2!r}")
    except MiniUndecided as e:
        raise AnalysisError(f"undecided: cell-codec: {e}") from e
    # every cellable payload starts with the circuit id as "I"
    base = repo.cls("CellablePayload", PL)
    n = 0
    for c in base.all_subclasses():
        fe, ne = c.lookup_attr("format_list"), c.lookup_attr("names")
        if isinstance(fe, (ast.List, ast.Tuple)) and isinstance(ne, (ast.List, ast.Tuple)) and fe.elts and ne.elts:
            n += 1
            ctx.check(const_value(fe.elts[0]) == "I" and const_value(ne.elts[0]) == "circuit_id", "cell-codec", c.where, c.node, f"{c.name} starts with circuit_id:'I'",
                      f"{c.name} does not start with a 4-byte circuit_id: send_cell strips the first 4 bytes")
    ctx.floor("cell-codec.cellable", n, 10)


# ------------------------------------------------------------------------------------------ which packer (de)codes a format name
_MUTATORS = {"setdefault", "update", "append", "extend", "add", "pop", "clear", "insert", "remove", "popitem", "discard", "appendleft", "__setitem__", "__delitem__"}


def _state_writes(ctx: Ctx, m) -> set:
    """('global', name) / ('attr', name): module-level variables and instance / class attributes that some function of module m changes after
    construction (item / attribute stores, mutating method calls, `global` rebinding); plain `self.x = ..` in __init__ does not count."""
    from ..match import local_defs
    out: set = set()
    for f in m.all_functions:
        params = set(f.params())
        declared_global = {n for g in walk_no_nested(f.node) if isinstance(g, ast.Global) for n in g.names}

        def root_of(x):
            path = []
            while isinstance(x, (ast.Subscript, ast.Attribute)):
                path.append(x)
                x = x.value
            return x, path[::-1]

        def note(target, through_item: bool) -> None:
            r, path = root_of(target)
            if not isinstance(r, ast.Name):
                return
            first = path[0] if path else None
            if r.id in ("self", "cls") or ctx.repo.resolve_class_expr(m, r) is not None:
                if isinstance(first, ast.Attribute) and (through_item or len(path) > 1 or f.name != "__init__"):
                    out.add(("attr", first.attr))
                return
            if r.id in params or (r.id not in declared_global and local_defs(f, r.id)):
                return
            if r.id in m.constants and (path or r.id in declared_global):
                out.add(("global", r.id))
        for n in walk_no_nested(f.node):
            if isinstance(n, (ast.Assign, ast.AugAssign, ast.AnnAssign, ast.Delete)):
                tgts = n.targets if isinstance(n, (ast.Assign, ast.Delete)) else [n.target]
                for t in tgts:
                    for x in ast.walk(t):
                        if isinstance(x, (ast.Subscript, ast.Attribute)) and isinstance(x.ctx, (ast.Store, ast.Del)):
                            note(x, isinstance(x, ast.Subscript))
                        elif isinstance(x, ast.Name) and isinstance(x.ctx, (ast.Store, ast.Del)) and x.id in declared_global:
                            note(x, False)
            elif isinstance(n, ast.Call) and isinstance(n.func, ast.Attribute) and n.func.attr in _MUTATORS:
                note(ast.Subscript(value=n.func.value, slice=ast.Constant(value=0), ctx=ast.Store()), True)
    return out


def _origins(ctx: Ctx, fi: FuncInfo, e: ast.AST, seen: set, depth: int = 0) -> set:
    """
    Where the value of expression e (inside fi) may come from: ('self', attr) | ('global', name) | ('classattr', attr) | ('param', name).
    Locals are followed through ALL their definitions (assignments, loop targets -> the iterable, augmented assignments), calls through
    their callee and arguments, `self.m(..)` through the return values of m; an over-approximation of the data flow.
    """
    from ..match import local_defs
    out: set = set()
    if depth > 12 or e is None:
        return out
    e = strip_cast(e)
    if isinstance(e, ast.Name):
        if e.id in ("self", "cls"):
            return out
        defs = local_defs(fi, e.id)
        if defs:
            if (id(fi.node), e.id) in seen:
                return out
            seen.add((id(fi.node), e.id))
            for st, val, _ in defs:
                if val is not None:
                    out |= _origins(ctx, fi, val, seen, depth + 1)
                elif isinstance(st, (ast.For, ast.AsyncFor)):
                    out |= _origins(ctx, fi, st.iter, seen, depth + 1)
                elif isinstance(st, ast.AugAssign):
                    out |= _origins(ctx, fi, st.value, seen, depth + 1)
                elif isinstance(st, (ast.With, ast.AsyncWith)):
                    for it in st.items:
                        out |= _origins(ctx, fi, it.context_expr, seen, depth + 1)
            if e.id in fi.params():
                out.add(("param", e.id))
            return out
        if e.id in fi.params():
            return {("param", e.id)}
        if e.id in fi.module.constants:
            return {("global", e.id)}
        return out
    if isinstance(e, ast.Attribute):
        root = e
        path = []
        while isinstance(root, (ast.Attribute, ast.Subscript)):
            path.append(root)
            root = root.value
        first = path[-1]
        if isinstance(root, ast.Name) and root.id in ("self", "cls") and isinstance(first, ast.Attribute):
            out.add(("self", first.attr))
            for x in path:
                if isinstance(x, ast.Subscript):
                    out |= _origins(ctx, fi, x.slice, seen, depth + 1)
            return out
        if isinstance(root, ast.Name) and ctx.repo.resolve_class_expr(fi.module, root) is not None and isinstance(first, ast.Attribute):
            return {("classattr", first.attr)}
        if isinstance(root, ast.Call) and chain(root.func) in ("type",) and isinstance(first, ast.Attribute):
            return {("classattr", first.attr)}          # type(self).X
        return _origins(ctx, fi, e.value, seen, depth + 1)
    if isinstance(e, ast.Call):
        f = e.func
        if isinstance(f, ast.Attribute) and isinstance(f.value, ast.Name) and f.value.id in ("self", "cls") and fi.cls is not None \
                and fi.cls.lookup(f.attr) is not None:
            m = fi.cls.lookup(f.attr)
            if (id(m.node), "<return>") not in seen:
                seen.add((id(m.node), "<return>"))
                for r in walk_no_nested(m.node):
                    if isinstance(r, ast.Return) and r.value is not None:
                        out |= {o for o in _origins(ctx, m, r.value, seen, depth + 1) if o[0] != "param"}
        else:
            out |= _origins(ctx, fi, f, seen, depth + 1)
        for a in list(e.args) + [k.value for k in e.keywords]:
            out |= _origins(ctx, fi, a, seen, depth + 1)
        return out
    if isinstance(e, (ast.ListComp, ast.SetComp, ast.GeneratorExp, ast.DictComp)):
        bound = {n.id for g in e.generators for n in ast.walk(g.target) if isinstance(n, ast.Name)}
        for sub in ast.iter_child_nodes(e):
            for o in _origins_children(ctx, fi, sub, seen, depth + 1, bound):
                out.add(o)
        return out
    for sub in ast.iter_child_nodes(e):
        if isinstance(sub, ast.expr):
            out |= _origins(ctx, fi, sub, seen, depth + 1)
    return out


def _origins_children(ctx: Ctx, fi: FuncInfo, node: ast.AST, seen: set, depth: int, bound: set) -> set:
    """origins of everything inside a comprehension part, ignoring the names the comprehension binds itself"""
    out: set = set()
    if isinstance(node, ast.comprehension):
        parts = [node.iter, *node.ifs]
    else:
        parts = [node]
    for p in parts:
        if isinstance(p, ast.Name) and p.id in bound:
            continue
        if isinstance(p, ast.expr):
            sub = _origins(ctx, fi, p, seen, depth)
            out |= {o for o in sub if not (o[0] in ("param", "global") and o[1] in bound)}
    return out


def rule_packer_lookup(ctx: Ctx) -> None:
    """
    Encoder and decoder of one Serializer agree on what a format name means only if both take the packer for it from the SAME table at
    the time of the call: the per-instance table that add_packer() writes (self._packers).  Every `<packer>.pack(..)` / `<packer>.unpack(..)`
    the Serializer's coding methods make must therefore get its receiver from that table only - not from module-level / class-level state
    or another instance attribute that functions change after construction (a hand-made cache of resolved packers): such a copy is shared
    between serializers or survives add_packer(), so decode(encode(m)) uses a different packer than encode did.
    """
    repo = ctx.repo
    ser = repo.cls("Serializer", SER)
    addp = ser.lookup("add_packer")
    ctx.anchor(addp is not None, "Serializer.add_packer")
    m = ser.module
    writes = _state_writes(ctx, m)
    own = set()
    for n in walk_no_nested(addp.node):
        tg = []
        if isinstance(n, ast.Assign):
            tg = [t for t in n.targets if isinstance(t, ast.Subscript)]
        elif isinstance(n, ast.Call) and isinstance(n.func, ast.Attribute) and n.func.attr in _MUTATORS:
            tg = [n.func]
        for t in tg:
            c = chain(t.value)
            if c and c.startswith("self.") and c.count(".") == 1:
                own.add(c.split(".")[1])
    ctx.anchor(len(own) == 1, "the one table Serializer.add_packer registers packers in")
    table = next(iter(own))
    n = 0
    for meth in ser.methods.values():
        for c in walk_no_nested(meth.node):
            if not (isinstance(c, ast.Call) and isinstance(c.func, ast.Attribute) and c.func.attr in ("pack", "unpack")):
                continue
            recv = c.func.value
            if chain(recv) in ("self", "cls", "super()", "struct") or (isinstance(recv, ast.Name) and recv.id == "struct"):
                continue
            n += 1
            org = _origins(ctx, meth, recv, set())
            bad = sorted(f"{'self.' if o[0] == 'self' else ''}{o[1]}" for o in org
                         if (o[0] == "global" and ("global", o[1]) in writes)
                         or (o[0] == "classattr" and ("attr", o[1]) in writes)
                         or (o[0] == "self" and o[1] != table and ("attr", o[1]) in writes))
            has_table = ("self", table) in org
            ctx.check(not bad and has_table, "packer-lookup", meth, c, f"{meth.qualname}: `{norm(c.func)[:50]}` takes its packer from self.{table} only",
                      f"{meth.qualname}: the packer of `{norm(c.func)[:60]}` comes from {bad or 'something other than the registration table'}"
                      + (f" (state that functions of {m.relpath} change after construction), not only from self.{table}, the table add_packer() writes and the "
                         "encoder reads at call time: a packer resolved earlier / by another Serializer decodes what this one encoded, so the message does not "
                         "survive encode/decode once a format name is bound differently" if bad else
                         f": it is not looked up in self.{table}, the table add_packer() writes"))
    ctx.floor("packer-lookup", n, 3)


def run(ctx: Ctx) -> None:
    from .c02_packers import rule_packer_symmetry
    rule_term_inverse(ctx)
    rule_vp_shape(ctx)
    rule_packer_symmetry(ctx)
    rule_name_grammar(ctx)
    rule_bit_order(ctx)
    rule_cell_codec(ctx)
    rule_packer_lookup(ctx)
    from . import c20                   # dataclass payloads are part of C02's quantifier: they must be converted from their own definition
    if _table_is_interpreted(ctx) and hasattr(c20, "registered_formats"):
        # the table is not one plain dict display: hand the shared rule the exact set of registered names (the table __init__ computes plus
        # the add_packer registrations) instead of its syntactic reading of the constructor; restored afterwards
        exact = set(serializer_table(ctx)) | (set(extra_packers(ctx)) - {"*"})
        saved = c20.registered_formats
        c20.registered_formats = lambda _ctx: set(exact)
        try:
            c20.rule_type_map(ctx)
        finally:
            c20.registered_formats = saved
    else:
        c20.rule_type_map(ctx)
    ctx.assume("struct / socket.inet_* / array semantics are CPython's (trusted); legal values are whatever the struct code admits")
    ctx.assume("community ids / mids in preference lists are 20 bytes (chunks(join(xs), 20) = xs)")
    ctx.assume("connection_type ranges over its documented values unknown / public / symmetric-NAT")


_MP = "ipv8/messaging/payload.py"
_PP = "ipv8/peerdiscovery/payload.py"
_AP = "ipv8/messaging/anonymization/payload.py"
WITNESSES = [
    {"name": "pre-fix: advice inverted", "file": _MP, "rule": "pack-unpack-inverse",
     "old": "                                          bool(advice),\n", "new": "                                          [True, False][advice],\n"},
    {"name": "pre-fix: introduce_to sliced from struct tuple", "file": _PP, "rule": "pack-unpack-inverse",
     "old": "DiscoveryIntroductionRequestPayload(introduce_to[1],", "new": "DiscoveryIntroductionRequestPayload(introduce_to[1:],"},
    {"name": "pre-fix: Flags returns relative offset", "file": _AP, "rule": "packer-symmetry",
     "old": "        return offset + self.size", "new": "        return self.size"},
    {"name": "intro response swaps lan/wan introduction on decode", "file": _MP, "rule": "pack-unpack-inverse",
     "old": "                                           introduction_lan_address,\n                                           introduction_wan_address,\n                                           decode_connection_type",
     "new": "                                           introduction_wan_address,\n                                           introduction_lan_address,\n                                           decode_connection_type"},
    {"name": "flag bit read from neighbouring position", "file": _MP, "rule": "pack-unpack-inverse",
     "old": "                (\"bits\", encoded_connection_type[0], encoded_connection_type[1], 0, self.supports_new_style,\n                 self.intro_supports_new_style, self.peer_limit_reached, 0, 0),",
     "new": "                (\"bits\", encoded_connection_type[0], encoded_connection_type[1], self.supports_new_style, 0,\n                 self.intro_supports_new_style, self.peer_limit_reached, 0, 0),"},
    {"name": "format_list order differs from to_pack_list", "file": _MP, "rule": "pack-unpack-inverse",
     "old": "    msg_id = 250\n    format_list = [\"ipv4\", \"ipv4\", \"H\"]", "new": "    msg_id = 250\n    format_list = [\"ipv4\", \"H\", \"ipv4\"]"},
    {"name": "connection type decode table shifted", "file": _MP, "rule": "pack-unpack-inverse",
     "old": "    if bits == (1, 0):\n        return \"public\"\n    if bits == (1, 1):\n        return \"symmetric-NAT\"",
     "new": "    if bits == (1, 1):\n        return \"public\"\n    if bits == (1, 0):\n        return \"symmetric-NAT\""},
    {"name": "similarity chunks of 32 vs join of 20-byte ids", "file": _PP, "rule": "pack-unpack-inverse",
     "old": "                                        [preference_list[i:i + 20] for i in range(0, len(preference_list), 20)])\n\n\nclass SimilarityResponsePayload",
     "new": "                                        [preference_list[i:i + 32] for i in range(0, len(preference_list), 32)])\n\n\nclass SimilarityResponsePayload"},
    {"name": "tb_overlap stride disagrees with struct", "file": _PP, "rule": "pack-unpack-inverse",
     "old": "for i in range(0, len(tb_overlap), 24)])", "new": "for i in range(0, len(tb_overlap), 28)])"},
    {"name": "identifier not reduced on decode path only", "file": _PP, "rule": "pack-unpack-inverse",
     "old": "        return PingPayload(identifier)", "new": "        return PingPayload(identifier + 1)"},
    {"name": "vp names shorter than formats", "file": _AP, "rule": "vp-shape",
     "old": "    names = [\"circuit_id\", \"identifier\", \"key\", \"auth\", \"candidates_enc\"]\n    format_list = [\"I\", \"H\", \"varlenH\", \"32s\", \"raw\"]\n\n    circuit_id: int\n    identifier: int\n    key: bytes\n    auth: bytes\n    candidates_enc: bytes\n\n\n@vp_compile\nclass ExtendPayload",
     "new": "    names = [\"circuit_id\", \"identifier\", \"key\", \"candidates_enc\"]\n    format_list = [\"I\", \"H\", \"varlenH\", \"32s\", \"raw\"]\n\n    circuit_id: int\n    identifier: int\n    key: bytes\n    candidates_enc: bytes\n\n\n@vp_compile\nclass ExtendPayload"},
    {"name": "raw in the middle", "file": _AP, "rule": "vp-shape",
     "old": "    names = [\"circuit_id\", \"identifier\", \"response_size\", \"data\"]\n    format_list = [\"I\", \"H\", \"H\", \"raw\"]",
     "new": "    names = [\"circuit_id\", \"identifier\", \"data\", \"response_size\"]\n    format_list = [\"I\", \"H\", \"raw\", \"H\"]"},
    {"name": "unregistered format", "file": _AP, "rule": "vp-shape",
     "old": "    names = [\"circuit_id\", \"identifier\"]\n    format_list = [\"I\", \"H\"]\n\n    circuit_id: int\n    identifier: int\n\n\n@vp_compile\nclass PongPayload",
     "new": "    names = [\"circuit_id\", \"identifier\"]\n    format_list = [\"I\", \"h\"]\n\n    circuit_id: int\n    identifier: int\n\n\n@vp_compile\nclass PongPayload"},
    {"name": "H registered little-endian", "file": "ipv8/messaging/serialization.py", "rule": "name-grammar",
     "old": "            \"H\": DefaultStruct(\">H\"),", "new": "            \"H\": DefaultStruct(\"<H\"),"},
    {"name": "varlenH with 4-byte prefix (self-consistent)", "file": "ipv8/messaging/serialization.py", "rule": "name-grammar",
     "old": "            \"varlenH\": VarLen(\">H\"),", "new": "            \"varlenH\": VarLen(\">I\"),"},
    {"name": "varlenHx20 unit changed (self-consistent)", "file": "ipv8/messaging/serialization.py", "rule": "name-grammar",
     "old": "            \"varlenHx20\": VarLen(\">H\", 20),", "new": "            \"varlenHx20\": VarLen(\">H\", 32),"},
    {"name": "20s widened (self-consistent)", "file": "ipv8/messaging/serialization.py", "rule": "name-grammar",
     "old": "            \"20s\": DefaultStruct(\">20s\"),", "new": "            \"20s\": DefaultStruct(\">21s\"),"},
    {"name": "list count as short", "file": "ipv8/messaging/serialization.py", "rule": "name-grammar",
     "old": "            \"varlenH-list\": ListOf(VarLen(\">H\")),", "new": "            \"varlenH-list\": ListOf(VarLen(\">H\"), \">H\"),"},
    {"name": "VarLen unpack forgets the unit", "file": "ipv8/messaging/serialization.py", "rule": "packer-symmetry",
     "old": "        str_length = unpack_from(self.length_format, data, offset)[0] * self.base\n        end = offset + self.length_size + str_length\n        if end > len(data):\n            msg = f\"Declared length {str_length} exceeds the {len(data) - offset - self.length_size} bytes left in the buffer\"\n            raise PackError(msg)\n        unpack_list.append(data[offset + self.length_size: end])",
     "new": "        str_length = unpack_from(self.length_format, data, offset)[0]\n        end = offset + self.length_size + str_length\n        if end > len(data):\n            msg = f\"Declared length {str_length} exceeds the {len(data) - offset - self.length_size} bytes left in the buffer\"\n            raise PackError(msg)\n        unpack_list.append(data[offset + self.length_size: end])"},
    {"name": "IPv4 returns 4 consumed", "file": "ipv8/messaging/serialization.py", "rule": "packer-symmetry",
     "old": "        unpack_list.append(UDPv4Address(socket.inet_ntoa(host_bytes), port))\n        return offset + 6", "new": "        unpack_list.append(UDPv4Address(socket.inet_ntoa(host_bytes), port))\n        return offset + 4"},
    {"name": "Address domain branch off by port", "file": "ipv8/messaging/serialization.py", "rule": "packer-symmetry",
     "old": "            return offset + 5 + length", "new": "            return offset + 3 + length"},
    {"name": "NestedPayload skips length prefix in return", "file": "ipv8/messaging/serialization.py", "rule": "packer-symmetry",
     "old": "        size, = unpack_from(\">H\", data, offset)\n        offset += 2", "new": "        size, = unpack_from(\">H\", data, offset)\n        offset += 1"},
    {"name": "bit masks permuted on unpack", "file": "ipv8/messaging/serialization.py", "rule": "bit-order",
     "old": "        bit_1 = 1 if 0x02 & byte else 0\n        bit_0 = 1 if 0x01 & byte else 0", "new": "        bit_1 = 1 if 0x01 & byte else 0\n        bit_0 = 1 if 0x02 & byte else 0"},
    {"name": "Address: IPv6 tag decoded through the IPv4 conversion for mapped addresses", "file": "ipv8/messaging/serialization.py", "rule": "packer-symmetry",
     "old": "            unpack_list.append(UDPv6Address(socket.inet_ntop(socket.AF_INET6, ip_bytes), port))\n",
     "new": "            if ip_bytes[:12] == bytes(10) + b\"\\xff\\xff\":\n                unpack_list.append(UDPv4Address(socket.inet_ntop(socket.AF_INET, ip_bytes[12:]), port))\n"
            "            else:\n                unpack_list.append(UDPv6Address(socket.inet_ntop(socket.AF_INET6, ip_bytes), port))\n"},
    {"name": "tb_overlap count decoded in native byte order", "file": _PP, "rule": "pack-unpack-inverse",
     "old": "unpack(\">I\", tb_overlap[i + 20:i + 24])[0]", "new": "unpack(\"I\", tb_overlap[i + 20:i + 24])[0]"},
    {"name": "tb_overlap decoded with iter_unpack in little-endian", "rule": "pack-unpack-inverse", "edits": [
        {"file": _PP, "old": "from struct import pack, unpack\n", "new": "from struct import iter_unpack, pack, unpack\n"},
        {"file": _PP, "old": "[(tb_overlap[i:i + 20], unpack(\">I\", tb_overlap[i + 20:i + 24])[0])\n                                          for i in range(0, len(tb_overlap), 24)])",
         "new": "list(iter_unpack(\"<20sI\", tb_overlap)))"}]},
    {"name": "bit packed by value instead of truthiness", "file": "ipv8/messaging/serialization.py", "rule": "bit-order",
     "old": "        byte |= 0x02 if data[6] else 0x00\n", "new": "        byte |= (data[6] << 1) & 0x02\n"},
    {"name": "cell header format differs", "file": _AP, "rule": "cell-codec",
     "old": "        circuit_id, plaintext, relay_early = unpack_from(\"!I??\", packet, 23)\n        return cls(circuit_id, packet[29:], plaintext, relay_early)",
     "new": "        circuit_id, relay_early, plaintext = unpack_from(\"!I??\", packet, 23)\n        return cls(circuit_id, packet[29:], plaintext, relay_early)"},
    {"name": "decoder takes its packers from a module-level table of resolved packers", "rule": "packer-lookup", "edits": [
        {"file": "ipv8/messaging/serialization.py", "old": "SelfS = typing.TypeVar(\"SelfS\", bound=\"Serializable\")\n",
         "new": "SelfS = typing.TypeVar(\"SelfS\", bound=\"Serializable\")\n_RESOLVED: dict = {}\n"},
        {"file": "ipv8/messaging/serialization.py",
         "old": "                offset = self._packers[fmt].unpack(data, offset, unpack_list)  # type: ignore[index]\n",
         "new": "                if isinstance(fmt, str) and fmt not in _RESOLVED:\n                    _RESOLVED[fmt] = self._packers[fmt]\n"
                "                offset = (_RESOLVED[fmt] if isinstance(fmt, str) else self._packers[fmt]).unpack(data, offset, unpack_list)\n"}]},
    {"name": "decoder keeps resolved packers in a per-instance cache that add_packer does not refresh", "rule": "packer-lookup", "edits": [
        {"file": "ipv8/messaging/serialization.py", "old": "        unpack_list: list = []\n        for fmt in serializable.format_list:\n            try:\n"
                                                          "                offset = self._packers[fmt].unpack(data, offset, unpack_list)  # type: ignore[index]\n",
         "new": "        unpack_list: list = []\n        plans = self.__dict__.setdefault(\"_plans\", {})\n        for fmt in serializable.format_list:\n            try:\n"
                "                if isinstance(fmt, str) and fmt not in self._plans:\n                    self._plans[fmt] = self._packers[fmt]\n"
                "                offset = (self._plans[fmt] if isinstance(fmt, str) else self._packers[fmt]).unpack(data, offset, unpack_list)\n"}]},
    {"name": "node-list item packer consumes a node but does not deliver it (port 0 filtered out)", "file": "ipv8/dht/payload.py", "rule": "packer-symmetry",
     "old": "        unpack_list.append(Node(cast(\"bytes\", key), address=cast(\"Address\", address)))\n        return offset",
     "new": "        if cast(\"Address\", address)[1] != 0:\n            unpack_list.append(Node(cast(\"bytes\", key), address=cast(\"Address\", address)))\n        return offset"},
    {"name": "raw delivers nothing for an empty rest", "file": "ipv8/messaging/serialization.py", "rule": "packer-symmetry",
     "old": "        unpack_list.append(data[offset:])\n        return len(data)",
     "new": "        if offset < len(data):\n            unpack_list.append(data[offset:])\n        return len(data)"},
    {"name": "Flags.pack folds without an initial value: the empty flag collection cannot be encoded", "rule": "packer-symmetry", "edits": [
        {"file": _AP, "old": "from functools import reduce\n", "new": "from functools import reduce\nfrom operator import or_\n"},
        {"file": _AP, "old": "        return pack(self.format, reduce(lambda a, b: a | b, data, 0))", "new": "        return pack(self.format, reduce(or_, data))"}]},
    {"name": "ListOf.pack refuses the largest count the prefix can hold", "file": "ipv8/messaging/serialization.py", "rule": "packer-symmetry",
     "old": "        return pack(self.length_format, len(data)) + b\"\".join([self.packer.pack(item) for item in data])",
     "new": "        if len(data) >= 256 ** self.length_size - 1:\n            raise PackError(\"too many items\")\n"
            "        return pack(self.length_format, len(data)) + b\"\".join([self.packer.pack(item) for item in data])"},
    {"name": "VarLenUtf8 decodes with utf-8-sig while pack writes plain utf-8", "file": "ipv8/messaging/serialization.py", "rule": "packer-symmetry",
     "old": "        unpack_list.append(encoded_data[0].decode())", "new": "        unpack_list.append(encoded_data[0].decode(\"utf-8-sig\"))"},
    {"name": "unwrap puts circuit id first", "file": _AP, "rule": "cell-codec",
     "old": "                         self.message[0:1],\n                         pack(\"!I\", self.circuit_id),\n                         self.message[1:]])",
     "new": "                         pack(\"!I\", self.circuit_id),\n                         self.message])"},
]
