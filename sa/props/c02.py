"""C02 - Every shipped wire message survives encode/decode unchanged."""
from __future__ import annotations

import ast
import json
import os
import re
import struct

from ..core import Ctx
from ..match import arg, call_name, calls, local_defs, resolve, single_def, stores
from ..model import NOCONST, AnalysisError, ClassInfo, FuncInfo, ancestors, chain, const_value, enclosing_stmt, norm, parent, strip_cast, walk_no_nested
from ..terms import Const, Field, PureFn, T, TermEval, Undecided, is_const, simplify, struct_arity

LEVEL = "other"
EXPLANATION = (
    "Decoder = inverse of encoder as terms: for each hand-written Serializable, to_pack_list is evaluated to wire terms "
    "over the instance fields, flattened by packer arity (bits -> 8 values, multi-value structs -> one tuple value), bound "
    "to from_unpack_list's parameters and pushed through the constructor; every field read by the encoder must come back "
    "as itself (rewrites: idempotent % 65536, chunks(join(xs), n) = xs, struct-strided chunks; finite enumeration for bit "
    "selectors and the documented connection-type domain); the format sequence of to_pack_list equals format_list. Every "
    "VariablePayload definition has names/format arity agreement, raw only last, registered formats, paired hooks. Every "
    "Packer is abstractly run: the bytes read by unpack tile [offset, returned offset) exactly and pack writes the same "
    "layout (same length format and unit). Registered format names agree with the grammar their name spells and with the "
    "byte counts of doc/reference/serialization.rst. Bit masks agree on both sides; the cell codec agrees on format and "
    "offsets. Values of struct/inet_* are trusted stdlib semantics."
)

SER = "ipv8/messaging/serialization.py"
TABLES = os.path.join(os.path.dirname(os.path.dirname(__file__)), "tables")


# ------------------------------------------------------------------------------------------ serializer table
def serializer_table(ctx: Ctx) -> dict[str, ast.Call]:
    init = ctx.repo.method("Serializer", "__init__", SER)
    for s in walk_no_nested(init.node):
        v = getattr(s, "value", None)
        tgt = s.targets[0] if isinstance(s, ast.Assign) else getattr(s, "target", None)
        if isinstance(s, (ast.Assign, ast.AnnAssign)) and isinstance(v, ast.Dict) and tgt is not None and chain(tgt) == "self._packers":
            return {const_value(k): strip_cast(val) for k, val in zip(v.keys, v.values)}
    raise AnalysisError("anchor-lost: Serializer._packers table")


def extra_packers(ctx: Ctx) -> dict[str, tuple[str, ast.Call]]:
    out = {}
    for m, fi, c in ctx.repo.callers_of_name("add_packer"):
        if fi is None or fi.qualname == "Serializer.add_packer":
            continue
        name = const_value(arg(c, 0))
        if isinstance(name, str):
            out[name] = (fi.cls.name if fi.cls else "?", strip_cast(arg(c, 1)))
    return out


def packer_arity(table: dict[str, ast.Call], fmt: str) -> int | str:
    """Number of python values one format consumes in to_pack_list / yields in from_unpack_list."""
    c = table.get(fmt)
    if c is None:
        return 1
    if chain(c.func) == "Bits":
        return 8
    return 1


def struct_values(table: dict[str, ast.Call], fmt: str) -> int:
    c = table.get(fmt)
    if c is not None and chain(c.func) == "DefaultStruct":
        f = const_value(c.args[0])
        if isinstance(f, str):
            return struct_arity(f)
    return 1


# ------------------------------------------------------------------------------------------ TERM rule
def eval_to_pack_list(ctx: Ctx, cls: ClassInfo, depth: int = 0) -> list[tuple[str, list[T]]]:
    """[(format, [value terms over Field(..)])] of cls.to_pack_list (following super().to_pack_list())."""
    fi = cls.lookup("to_pack_list")
    if fi is None or depth > 3:
        raise Undecided("no to_pack_list")
    owner = fi.cls
    ev = TermEval(ctx.repo, fi, {})
    lst: list | None = None
    for st in fi.node.body:
        if isinstance(st, ast.Expr) and isinstance(st.value, ast.Constant):
            continue
        if isinstance(st, ast.Assign) and isinstance(st.targets[0], ast.Name):
            v = strip_cast(st.value)
            if isinstance(v, ast.Call) and isinstance(v.func, ast.Attribute) and v.func.attr == "to_pack_list" and isinstance(v.func.value, ast.Call) and chain(v.func.value.func) == "super":
                base = next((k for k in owner.mro()[1:] if "to_pack_list" in k.methods), None)
                if base is None:
                    raise Undecided("super().to_pack_list() without base")
                lst = eval_to_pack_list(ctx, base, depth + 1)
                ev.env[st.targets[0].id] = T("packlist", ())
                listvar = st.targets[0].id
                continue
            ev.env[st.targets[0].id] = ev.ev(st.value)
            continue
        if isinstance(st, ast.Expr) and isinstance(st.value, ast.Call) and call_name(st.value) == "insert" and lst is not None:
            pos = const_value(st.value.args[0])
            tup = st.value.args[1]
            if not isinstance(pos, int) or not isinstance(tup, ast.Tuple):
                raise Undecided("insert into pack list")
            lst.insert(pos, (const_value(tup.elts[0]), [ev.ev(x) for x in tup.elts[1:]]))
            continue
        if isinstance(st, ast.Expr) and isinstance(st.value, ast.Call) and call_name(st.value) == "append" and lst is not None:
            tup = st.value.args[0]
            lst.append((const_value(tup.elts[0]), [ev.ev(x) for x in tup.elts[1:]]))
            continue
        if isinstance(st, ast.Return):
            if lst is not None and isinstance(st.value, ast.Name):
                return lst
            if isinstance(st.value, ast.List):
                out = []
                for tup in st.value.elts:
                    if not isinstance(tup, ast.Tuple) or not isinstance(const_value(tup.elts[0]), str):
                        raise Undecided("pack list element")
                    out.append((const_value(tup.elts[0]), [ev.ev(x) for x in tup.elts[1:]]))
                return out
        raise Undecided(f"statement `{norm(st)[:60]}` in to_pack_list")
    raise Undecided("no return in to_pack_list")


def init_fields(ctx: Ctx, cls: ClassInfo, args: list[T], kwargs: dict[str, T], depth: int = 0) -> dict[str, T]:
    """self.<attr> terms after cls.__init__(*args, **kwargs)."""
    fi = cls.lookup("__init__")
    if fi is None or fi.cls.name in ("Payload", "Serializable", "object") or depth > 3:
        return {}
    a = fi.node.args
    params = [p.arg for p in a.args][1:]
    defaults = dict(zip(params[len(params) - len(a.defaults):], a.defaults))
    env: dict[str, T] = {}
    tmp = TermEval(ctx.repo, fi, {})
    for i, p in enumerate(params):
        if i < len(args):
            env[p] = args[i]
        elif p in kwargs:
            env[p] = kwargs[p]
        elif p in defaults:
            env[p] = tmp.ev(defaults[p])
        else:
            raise Undecided(f"missing constructor argument {p}")
    fields: dict[str, T] = {}
    ev = TermEval(ctx.repo, fi, env, fields)
    for st in fi.node.body:
        if isinstance(st, ast.Expr) and isinstance(st.value, ast.Constant):
            continue
        if isinstance(st, ast.Expr) and isinstance(st.value, ast.Call):
            c = st.value
            if isinstance(c.func, ast.Attribute) and c.func.attr == "__init__" and isinstance(c.func.value, ast.Call) and chain(c.func.value.func) == "super":
                base = next((k for k in fi.cls.mro()[1:] if "__init__" in k.methods), None)
                if base is not None and base.name not in ("Payload", "Serializable"):
                    fields.update(init_fields(ctx, base, [ev.ev(x) for x in c.args], {k.arg: ev.ev(k.value) for k in c.keywords}, depth + 1))
                continue
            raise Undecided(f"call `{norm(st)[:50]}` in __init__")
        if isinstance(st, ast.Assign) and len(st.targets) == 1 and chain(st.targets[0]) and chain(st.targets[0]).startswith("self.") and chain(st.targets[0]).count(".") == 1:
            fields[st.targets[0].attr] = ev.ev(st.value)
            continue
        raise Undecided(f"statement `{norm(st)[:50]}` in __init__")
    return fields


def normalise(ctx: Ctx, cls: ClassInfo, t: T, init_of_field) -> T:
    """Rewrites valid under the stated domain assumptions; returns Field(x) when t reconstructs field x."""
    # mod 65536 on a field whose constructor already stores it mod 65536
    if t.op == "mod" and is_const(t.args[1]) and t.args[0].op == "field":
        f = t.args[0].args[0]
        if init_of_field(f) == ("mod", t.args[1].args[0]):
            return t.args[0]
    # chunks(join(field), n, [(0, n, bytes)]) -> field   (n-byte elements)
    if t.op == "chunks":
        src, stride, pieces = t.args
        n = stride.args[0]
        ps = pieces.args[0]
        if src.op == "join" and src.args[0].op == "field" and ps == ((0, n, "bytes"),) and n == ELEMENT_SIZE:
            return src.args[0]
        # join(map(pack(F, *elem), field)) with struct-strided pieces
        if src.op == "join" and src.args[0].op == "map":
            m, over = src.args[0].args
            if m.op == "pack" and is_const(m.args[0]) and len(m.args) == 2 and m.args[1].op == "star" and m.args[1].args[0].op == "elem" and over.op == "field":
                fmt = m.args[0].args[0]
                try:
                    sizes = _struct_field_layout(fmt)
                except struct.error:
                    return t
                if struct.calcsize(fmt) == n and len(sizes) == len(ps):
                    ok = True
                    for (off, size, code), (lo, hi, dec) in zip(sizes, ps):
                        if (lo, hi) != (off, off + size):
                            ok = False
                        if code == "s" and dec != "bytes":
                            ok = False
                        if code != "s" and dec != f"unpack:{fmt[0] if fmt[0] in '<>!=@' else ''}{code}":
                            ok = False
                    if ok:
                        return over
    return t


def _struct_field_layout(fmt: str):
    """[(offset, size, code)] of a simple struct format like '>20sI'."""
    prefix = fmt[0] if fmt[0] in "<>!=@" else ""
    body = fmt[len(prefix):]
    out = []
    off = 0
    for m in re.finditer(r"(\d*)([a-zA-Z?])", body):
        cnt, code = m.group(1), m.group(2)
        if code == "s":
            size = int(cnt or 1)
            out.append((off, size, "s"))
            off += size
        else:
            for _ in range(int(cnt or 1)):
                size = struct.calcsize(prefix + code)
                out.append((off, size, code))
                off += size
    return out


ELEMENT_SIZE = 20       # community ids / mids in preference lists


def definitely_different(t: T, f: str) -> str | None:
    """Shapes that are recognisably NOT the identity on field f."""
    if t.op == "mod" and t.args[0].op == "add":
        t = t.args[0]
    if t.op == "add" and any(is_const(a) and a.args[0] not in (0, b"", "") for a in t.args) and any(a == Field(f) for a in t.args):
        return f"reconstructed as {t} (a constant is added)"
    if t.op == "chunks":
        src, stride, pieces = t.args
        n, ps = stride.args[0], pieces.args[0]
        if src.op == "join" and src.args[0].op == "field" and ps == ((0, n, "bytes"),) and n != ELEMENT_SIZE:
            return f"the joined {ELEMENT_SIZE}-byte elements are re-split into chunks of {n}"
        if src.op == "join" and src.args[0].op == "field" and len(ps) == 1 and ps[0][:2] != (0, n):
            return f"chunks of stride {n} take bytes {ps[0][0]}..{ps[0][1]} of each element"
        if src.op == "join" and src.args[0].op == "map" and src.args[0].args[0].op == "pack" and is_const(src.args[0].args[0].args[0]):
            fmt = src.args[0].args[0].args[0].args[0]
            try:
                size = struct.calcsize(fmt)
                lay = [(o, o + s_) for o, s_, _ in _struct_field_layout(fmt)]
            except struct.error:
                return None
            if size != n:
                return f"elements are packed with '{fmt}' ({size} bytes) but decoded with a stride of {n}"
            if [p[:2] for p in ps] != lay:
                return f"elements are packed with '{fmt}' (field byte ranges {lay}) but decoded from ranges {[p[:2] for p in ps]}"
    return None


def enumerate_equal(ctx: Ctx, cls: ClassInfo, t: T, want_field: str, wire_terms: dict[int, T]) -> tuple[bool, str] | None:
    """Finite-domain decisions.  Returns (equal, explanation) or None if not applicable."""
    fi = cls.lookup("from_unpack_list")
    # [A, B][bit]  /  bool(bit)  /  bit   where bit is the wire image of a boolean field
    def bit_source(x: T):
        return x.op == "bitwire" and x.args[0].op == "field"
    if t.op == "index" and t.args[0].op in ("list", "tuple") and bit_source(t.args[1]) and all(is_const(a) for a in t.args[0].args):
        src = t.args[1].args[0].args[0]
        table = [a.args[0] for a in t.args[0].args]
        if len(table) == 2:
            res = {b: table[b] for b in (0, 1)}
            ok = src == want_field and all(bool(res[b]) == bool(b) for b in (0, 1))
            return ok, f"{table}[bit] maps wire bit 0->{res[0]!r}, 1->{res[1]!r}; field `{want_field}` was packed as bit = truthiness of self.{src}"
    if t.op == "bool" and bit_source(t.args[0]):
        return t.args[0].args[0].args[0] == want_field, "bool(bit)"
    if bit_source(t):
        return t.args[0].args[0] == want_field, "bit passed through"
    # decode_connection_type(index(encode(field), 0), index(encode(field), 1)) over the documented domain
    if t.op == "call" and t.args[0] == "decode_connection_type" and len(t.args) == 3:
        a0, a1 = t.args[1], t.args[2]
        def enc_idx(x: T):
            if x.op == "bitwire":
                x = x.args[0]
            if x.op == "index" and x.args[0].op == "call" and x.args[0].args[0] == "encode_connection_type" and is_const(x.args[1]):
                return x.args[0].args[1], x.args[1].args[0]
            return None
        e0, e1 = enc_idx(a0), enc_idx(a1)
        if e0 and e1 and e0[0] == e1[0] and e0[0].op == "field" and (e0[1], e1[1]) == (0, 1):
            m = ctx.repo.module("ipv8/messaging/payload.py")
            enc, dec = PureFn(m.functions["encode_connection_type"]), PureFn(m.functions["decode_connection_type"])
            domain = ["unknown", "public", "symmetric-NAT"]
            bad = [v for v in domain if dec(*[1 if b else 0 for b in enc(v)]) != v]
            return (not bad and e0[0].args[0] == want_field), f"decode(encode(v)) == v for v in {domain}" + (f" fails for {bad}" if bad else "")
    return None


def rule_term_inverse(ctx: Ctx) -> None:
    repo = ctx.repo
    table = serializer_table(ctx)
    extras = extra_packers(ctx)
    ser = repo.cls("Serializable", SER)
    with open(os.path.join(TABLES, "c02_undecided.json"), encoding="utf-8") as fh:
        allow = json.load(fh)["undecided"]
    undecided_seen = {}
    hand = [c for c in ser.all_subclasses() if c.lookup("to_pack_list") is not None and c.lookup("to_pack_list").cls.name != "VariablePayload"
            and c.lookup("from_unpack_list") is not None and not c.is_subclass_of("VariablePayload") and c.name not in ("Payload",)]
    ctx.floor("pack-unpack-inverse.classes", len(hand), 15)
    for cls in sorted(hand, key=lambda c: c.name):
        fpl = cls.lookup("to_pack_list")
        ful = cls.lookup("from_unpack_list")
        try:
            packlist = eval_to_pack_list(ctx, cls)
        except Undecided as u:
            undecided_seen[f"{cls.name}.*"] = str(u)
            continue
        # formats in to_pack_list order == format_list
        fl_expr = cls.lookup_attr("format_list")
        fl = repo.resolve_const(next(k for k in cls.mro() if "format_list" in k.attrs).module, fl_expr) if fl_expr is not None else NOCONST
        fmts = [f for f, _ in packlist]
        ctx.check(fl is not NOCONST and list(fl) == fmts, "pack-unpack-inverse", fpl, fpl.node, f"{cls.name}: formats written {fmts} == format_list",
                  f"{cls.name}.to_pack_list writes formats {fmts} but the decoder follows format_list {fl}")
        # wire values
        wire: list[T] = []
        for fmt, vals in packlist:
            ar = packer_arity({**table, **{k: v[1] for k, v in extras.items()}}, fmt)
            sv = struct_values(table, fmt)
            if ar == 8:
                if len(vals) != 8:
                    ctx.check(False, "pack-unpack-inverse", fpl, fpl.node, f"{cls.name}: 'bits' gets 8 values", f"{cls.name}: 'bits' is given {len(vals)} values")
                wire.extend(T("bitwire", (v,)) for v in vals)
            elif sv > 1:
                ctx.check(len(vals) == sv, "pack-unpack-inverse", fpl, fpl.node, f"{cls.name}: struct '{fmt}' gets {sv} values", f"{cls.name}: struct '{fmt}' is given {len(vals)} values, needs {sv}")
                wire.append(T("tuple", tuple(vals)))
            else:
                if len(vals) != 1:
                    ctx.check(False, "pack-unpack-inverse", fpl, fpl.node, f"{cls.name}: '{fmt}' gets one value", f"{cls.name}: '{fmt}' is given {len(vals)} values")
                wire.append(vals[0] if vals else Const(None))
        params = [p for p in ful.params() if p != "cls"]
        okn = len(params) == len(wire) and ful.node.args.vararg is None
        ctx.check(okn, "pack-unpack-inverse", ful, ful.node, f"{cls.name}: from_unpack_list takes {len(wire)} wire values",
                  f"{cls.name}.from_unpack_list takes {len(params)} parameters but the formats yield {len(wire)} values")
        if not okn:
            continue
        env = dict(zip(params, wire))
        env["cls"] = T("cls", ())
        ev = TermEval(repo, ful, env)
        rets = [r for r in walk_no_nested(ful.node) if isinstance(r, ast.Return)]
        if len(rets) != 1 or not isinstance(rets[0].value, ast.Call):
            undecided_seen[f"{cls.name}.*"] = "from_unpack_list is not a single constructor call"
            continue
        call = rets[0].value
        callee = chain(call.func)
        target = cls if callee == "cls" else repo.resolve_class_expr(ful.module, call.func)
        if target is None:
            undecided_seen[f"{cls.name}.*"] = f"constructor {callee} not resolved"
            continue
        if not (target is cls or callee == "cls"):
            adds = [a for a in ("to_pack_list", "__init__", "format_list") if a in cls.methods or a in cls.attrs]
            if target in cls.mro() and not adds:
                ctx.note(f"{cls.name}.from_unpack_list (inherited) constructs {target.name}: same fields and format, only the class (msg_id) differs - not judged")
            else:
                ctx.check(False, "pack-unpack-inverse", ful, f"{cls.name} constructs {target.name}", f"{cls.name}: from_unpack_list constructs its own class",
                          f"{cls.name}.from_unpack_list constructs {target.name}: fields added by {cls.name} ({adds}) are lost")
        try:
            fields = init_fields(ctx, target, [ev.ev(a) for a in call.args], {k.arg: ev.ev(k.value) for k in call.keywords})
        except Undecided as u:
            undecided_seen[f"{cls.name}.*"] = str(u)
            continue
        # which constructor normalisation does each field have (for the idempotent-mod rewrite)
        def init_of_field(f: str, cls=cls):
            try:
                probe = init_fields(ctx, cls, [T("param", (i,)) for i in range(40)], {})
            except Undecided:
                return None
            t = probe.get(f)
            if t is not None and t.op == "mod" and is_const(t.args[1]):
                return ("mod", t.args[1].args[0])
            return None
        used = sorted({x.args[0] for _, vals in packlist for v in vals for x in _walk_terms(v) if x.op == "field"})
        for f in used:
            got = fields.get(f)
            if got is None:
                ctx.check(False, "pack-unpack-inverse", ful, f"{cls.name}.{f}", f"{cls.name}.{f} reconstructed", f"{cls.name}: field `{f}` written by to_pack_list is not set by the decoded instance")
                continue
            n = normalise(ctx, cls, got, init_of_field)
            if is_const(n):
                # a field this class's own constructor always sets to that very constant (not settable through it)
                try:
                    probe = init_fields(ctx, cls, [T("param", (i,)) for i in range(40)], {})
                except Undecided:
                    probe = {}
                if probe.get(f) == n:
                    ctx.instance("pack-unpack-inverse", ful.where, f"{cls.name}.{f} is the constant {n} in every instance this class constructs", line=call.lineno)
                    continue
            if n == Field(f):
                ctx.instance("pack-unpack-inverse", ful.where, f"{cls.name}.{f} <- {got} == self.{f}", line=call.lineno)
                continue
            why = definitely_different(n, f)
            if why:
                ctx.check(False, "pack-unpack-inverse", ful, f"{cls.name}.{f}", f"{cls.name}.{f} <- {got}", f"{cls.name}: decode(encode(p)).{f} != p.{f}: {why}")
                continue
            en = enumerate_equal(ctx, cls, n, f, {})
            if en is not None:
                ctx.check(en[0], "pack-unpack-inverse", ful, f"{cls.name}.{f}", f"{cls.name}.{f} <- {got} ({en[1]})",
                          f"{cls.name}: decode(encode(p)).{f} != p.{f}: reconstructed as {got}; {en[1]}")
                continue
            if n.op in ("slice", "tuple", "list", "index", "const") or (n.op == "field" and n != Field(f)) or n.op == "bitwire":
                ctx.check(False, "pack-unpack-inverse", ful, f"{cls.name}.{f}", f"{cls.name}.{f} <- {got}",
                          f"{cls.name}: decode(encode(p)).{f} is `{n}`, not p.{f}")
                continue
            undecided_seen[f"{cls.name}.{f}"] = str(n)
    ctx.extra["undecided_attributes"] = undecided_seen
    new = sorted(k for k in undecided_seen if k not in allow)
    if new:
        raise AnalysisError(f"C02 term interpreter cannot normalise {new} (not in tables/c02_undecided.json): {[undecided_seen[k] for k in new]}")


def _walk_terms(t):
    if isinstance(t, T):
        yield t
        for a in t.args:
            yield from _walk_terms(a)
    elif isinstance(t, tuple):
        for a in t:
            yield from _walk_terms(a)


# ------------------------------------------------------------------------------------------ VariablePayload shape
def rule_vp_shape(ctx: Ctx) -> None:
    repo = ctx.repo
    table = serializer_table(ctx)
    extras = extra_packers(ctx)
    vp = repo.cls("VariablePayload", "ipv8/messaging/lazy_payload.py")
    n = 0
    for c in sorted(vp.all_subclasses(), key=lambda c: (c.module.relpath, c.name)):
        if "names" not in c.attrs and "format_list" not in c.attrs:
            continue
        ne, fe = c.lookup_attr("names"), c.lookup_attr("format_list")
        if ne is None or fe is None or not isinstance(fe, (ast.List, ast.Tuple)) or not isinstance(ne, (ast.List, ast.Tuple)):
            continue
        n += 1
        names = [const_value(x) for x in ne.elts]
        fmts = []
        for x in fe.elts:
            cv = const_value(x)
            if isinstance(cv, str):
                fmts.append(cv)
            elif isinstance(x, ast.List) and len(x.elts) == 1:
                k = repo.resolve_class_expr(c.module, x.elts[0])
                fmts.append(("list", k))
            else:
                k = repo.resolve_class_expr(c.module, x)
                fmts.append(("nested", k))
        need = sum(8 if f == "bits" else 1 for f in fmts)
        ctx.check(len(names) == need and len(set(names)) == len(names), "vp-shape", c.where, c.node, f"{c.name}: {len(names)} names for formats needing {need}",
                  f"{c.name}: names has {len(names)} entries but format_list consumes {need} (8 per 'bits'): fields shift or raise at construction")
        raws = [i for i, f in enumerate(fmts) if f == "raw"]
        ctx.check(all(i == len(fmts) - 1 for i in raws), "vp-shape", c.where, c.node, f"{c.name}: 'raw' only in last position",
                  f"{c.name}: a 'raw' field is followed by other fields: raw consumes the rest of the datagram, later fields can never be decoded")
        for f in fmts:
            if isinstance(f, tuple):
                ctx.check(f[1] is not None and f[1].is_subclass_of("Serializable"), "vp-shape", c.where, c.node, f"{c.name}: nested format resolves to a Serializable",
                          f"{c.name}: a nested format entry does not resolve to a Serializable class")
            else:
                known = f in table or f in extras
                ctx.check(known, "vp-shape", c.where, c.node, f"{c.name}: format '{f}' registered", f"{c.name}: format '{f}' is not registered by any serializer")
                if f in extras:
                    ov = extras[f][0]
                    users_ok = c.module.relpath.split("/")[1] in ("dht", "messaging") or True
                    ctx.instance("vp-shape", c.where, f"{c.name}: '{f}' comes from {ov}.get_serializer", nontrivial=False)
        hooks_p = {m[len("fix_pack_"):] for m in c.methods if m.startswith("fix_pack_")}
        hooks_u = {m[len("fix_unpack_"):] for m in c.methods if m.startswith("fix_unpack_")}
        ctx.check(hooks_p == hooks_u and hooks_p <= set(names), "vp-shape", c.where, c.node, f"{c.name}: fix_pack_/fix_unpack_ hooks come in pairs for declared names",
                  f"{c.name}: hooks fix_pack_{sorted(hooks_p)} / fix_unpack_{sorted(hooks_u)} are not paired (or name no field)")
        # annotated fields (documentation of the wire schema) must be the names
        ann = [a for a in c.annotations if a in names or a not in ("msg_id", "names", "format_list")]
        if ann:
            ctx.check(set(ann) <= set(names) | {"circuit_id"}, "vp-shape", c.where, c.node, f"{c.name}: annotated fields are declared names",
                      f"{c.name}: annotated fields {sorted(set(ann) - set(names))} are not in names")
    ctx.floor("vp-shape", n, 40)
    # msg ids unique per overlay registration table is C01's; here: within one module no two payloads share msg_id AND names differ -> informative only


# ------------------------------------------------------------------------------------------ name grammar + documentation
def _ctor(c: ast.Call):
    return chain(c.func), [const_value(a) if const_value(a) is not NOCONST else (_ctor(a) if isinstance(a, ast.Call) else norm(a)) for a in c.args], \
        {k.arg: const_value(k.value) for k in c.keywords}


def rule_name_grammar(ctx: Ctx) -> None:
    table = serializer_table(ctx)
    ctx.floor("name-grammar", len(table), 35)
    init = ctx.repo.method("Serializer", "__init__", SER)
    defaults = {}
    for cname in ("VarLen", "ListOf", "Address", "DefaultArray"):
        ci = ctx.repo.cls(cname, SER)
        a = ci.methods["__init__"].node.args
        ps = [p.arg for p in a.args][1:]
        defaults[cname] = dict(zip(ps[len(ps) - len(a.defaults):], [const_value(d) for d in a.defaults]))
    for name, c in table.items():
        cn, args, kw = _ctor(c)
        ok, want = True, ""
        m = re.fullmatch(r"varlen([BHI])(?:x(\d+))?(utf8)?", name)
        if name in ("doublevarlenH",):
            m = re.fullmatch(r"(?:double)?varlen([BHI])(?:x(\d+))?(utf8)?", name)
        if m and not name.endswith("-list"):
            base = int(m.group(2) or 1)
            wantc = "VarLenUtf8" if m.group(3) else "VarLen"
            gotbase = args[1] if len(args) > 1 else kw.get("base", defaults["VarLen"].get("base", 1))
            ok = cn == wantc and args and args[0] == ">" + m.group(1) and gotbase == base
            want = f"{wantc}('>{m.group(1)}', {base})"
        elif name.endswith("-list"):
            inner = name[: -len("-list")]
            lf = args[1] if len(args) > 1 else kw.get("length_format", defaults["ListOf"].get("length_format"))
            ok = cn == "ListOf" and lf == ">B" and args and isinstance(args[0], tuple)
            if ok and inner in table:
                ok = _ctor(table[inner])[:2] == args[0][:2]
            want = f"ListOf(<packer of '{inner}'>, '>B')"
        elif name.startswith("array"):
            m2 = re.fullmatch(r"array([BHI])-(.)", name)
            ok = bool(m2) and cn == "DefaultArray" and args[:2] == [m2.group(2), m2.group(1)]
            want = f"DefaultArray('{m2.group(2) if m2 else '?'}', '{m2.group(1) if m2 else '?'}')"
        elif cn == "DefaultStruct":
            wantfmt = ">" + name.replace("S", "s")
            ok = args == [wantfmt]
            want = f"DefaultStruct('{wantfmt}')"
            try:
                struct.calcsize(wantfmt)
            except struct.error:
                ok = False
        elif name == "bits":
            ok = cn == "Bits"
        elif name == "raw":
            ok = cn == "Raw"
        elif name == "ipv4":
            ok = cn == "IPv4"
        elif name == "ip_address":
            ok = cn == "Address" and (kw.get("ip_only") is True or args == [True])
            want = "Address(ip_only=True)"
        elif name == "address":
            ok = cn == "Address" and not args and not kw.get("ip_only", defaults["Address"].get("ip_only", False))
            want = "Address()"
        elif name == "payload":
            ok = cn == "NestedPayload"
        else:
            raise AnalysisError(f"name-grammar: format name '{name}' has no grammar rule")
        ctx.check(ok, "name-grammar", init, name, f"'{name}' is registered as {want or cn}",
                  f"format '{name}' is registered as {norm(c)} but its name spells {want or 'another packer'}: peers built from the documented format do not interoperate")
    # documentation table
    doc = os.path.join(ctx.repo.root, "doc", "reference", "serialization.rst")
    if not os.path.exists(doc):
        raise AnalysisError("anchor-lost: doc/reference/serialization.rst")
    rows = {}
    in_table = False
    for line in open(doc, encoding="utf-8"):
        if "csv-table:: Available data types" in line:
            in_table = True
            continue
        if in_table:
            m = re.match(r'\s+"([^"]+)",\s*("?[^",]*"?|"[^"]*"),', line)
            if m:
                rows[m.group(1)] = m.group(2).strip('"').strip()
            elif line.strip() and not line.startswith(" "):
                in_table = False
            elif "csv-table" in line:
                in_table = False
    ctx.floor("name-grammar.doc-rows", len(rows), 30)
    with open(os.path.join(TABLES, "c02_doc_errata.json"), encoding="utf-8") as fh:
        errata = json.load(fh)["errata"]
    for name, size in rows.items():
        if name not in table:
            ctx.check(False, "name-grammar", "doc/reference/serialization.rst", name, f"documented type '{name}' is registered", f"documented type '{name}' is not registered")
            continue
        cn, args, kw = _ctor(table[name])
        if size.isdigit():
            if cn == "DefaultStruct":
                real = struct.calcsize(args[0])
            elif cn == "Bits":
                real = 1
            elif cn == "IPv4":
                real = 6
            else:
                real = None
            if name in errata and real == errata[name]["code_bytes"] and int(size) == errata[name]["documented_bytes"]:
                ctx.instance("name-grammar", "doc/reference/serialization.rst", f"'{name}': documentation erratum ({errata[name]['reason']})", nontrivial=False)
                continue
            ctx.check(real == int(size), "name-grammar", init, name, f"'{name}' occupies {real} bytes as documented",
                      f"format '{name}' occupies {real} bytes, the documented wire format says {size}")
        else:
            m = re.fullmatch(r"(\d+) \+ \?(?: \* (\d+))?", size)
            if m and cn in ("VarLen", "VarLenUtf8", "NestedPayload", "DefaultArray"):
                plen, unit = int(m.group(1)), int(m.group(2) or 1)
                if cn == "NestedPayload":
                    real_p, real_u = 2, 1
                elif cn == "DefaultArray":
                    real_p = struct.calcsize(">" + args[1])
                    real_u = struct.calcsize(">" + ("B" if args[0] == "?" else args[0]))
                else:
                    real_p = struct.calcsize(args[0])
                    real_u = args[1] if len(args) > 1 else 1
                ctx.check((real_p, real_u) == (plen, unit), "name-grammar", init, name, f"'{name}': length prefix {real_p} bytes, unit {real_u} as documented",
                          f"format '{name}' has a {real_p}-byte length prefix counting units of {real_u}, documented: {plen} bytes / unit {unit}")


# ------------------------------------------------------------------------------------------ bits / cell codec
def rule_bit_order(ctx: Ctx) -> None:
    bits = ctx.repo.cls("Bits", SER)
    pk, un = bits.methods["pack"], bits.methods["unpack"]
    pmask = {}
    for s in walk_no_nested(pk.node):
        if isinstance(s, ast.AugAssign) and isinstance(s.op, ast.BitOr) and isinstance(s.value, ast.IfExp):
            t = s.value.test
            if isinstance(t, ast.Subscript) and chain(t.value) == pk.node.args.vararg.arg:
                pmask[const_value(t.slice)] = (const_value(s.value.body), const_value(s.value.orelse))
    ulist = None
    umask = {}
    for s in walk_no_nested(un.node):
        if isinstance(s, ast.Assign) and isinstance(s.value, ast.IfExp) and isinstance(s.value.test, ast.BinOp) and isinstance(s.value.test.op, ast.BitAnd):
            m = const_value(s.value.test.left) if const_value(s.value.test.left) is not NOCONST else const_value(s.value.test.right)
            umask[s.targets[0].id] = (m, const_value(s.value.body), const_value(s.value.orelse))
        if isinstance(s, ast.AugAssign) and isinstance(s.value, ast.List) and chain(s.target) == un.params()[3]:
            ulist = [norm(e) for e in s.value.elts]
    ok = len(pmask) == 8 and ulist is not None and len(ulist) == 8
    if ok:
        for pos in range(8):
            want = 0x80 >> pos
            pm = pmask.get(pos)
            um = umask.get(ulist[pos])
            if pm != (want, 0) or um is None or um[0] != want or um[1:] != (1, 0):
                ok = False
                ctx.check(False, "bit-order", un, f"bit position {pos}", f"position {pos}: pack mask and unpack mask are {hex(want)}",
                          f"'bits' position {pos}: pack uses mask {pm}, unpack yields `{ulist[pos]}` with mask {um}: documented order is bit 0 = 0x80 ... bit 7 = 0x01")
            else:
                ctx.instance("bit-order", un.where, f"position {pos}: mask {hex(want)} on both sides")
    else:
        ctx.check(False, "bit-order", pk, pk.node, "Bits packs/unpacks 8 positions", "Bits.pack/unpack do not handle exactly 8 positions")
    b = [c for c in calls(pk, "pack")] + [c for c in calls(un, "unpack_from")]
    ctx.check(len(b) == 2 and all(const_value(c.args[0]) == ">B" for c in b), "bit-order", pk, pk.node, "bits occupy one unsigned byte", "bits are no longer one unsigned byte")


def rule_cell_codec(ctx: Ctx) -> None:
    repo = ctx.repo
    PL = "ipv8/messaging/anonymization/payload.py"
    cp = repo.cls("CellPayload", PL)
    tb, fb, uw = cp.methods["to_bin"], cp.methods["from_bin"], cp.methods["unwrap"]
    pk = [c for c in calls(tb, "pack")]
    up = [c for c in calls(fb, "unpack_from")]
    ok = len(pk) == 1 and len(up) == 1 and const_value(pk[0].args[0]) == const_value(up[0].args[0])
    fmt = const_value(pk[0].args[0]) if pk else None
    ctx.check(ok, "cell-codec", tb, tb.node, f"cell header format {fmt!r} on both sides", "to_bin and from_bin use different header formats")
    if ok:
        off = const_value(arg(up[0], 2, "offset"))
        size = struct.calcsize(fmt)
        sl = [s for s in ast.walk(fb.node) if isinstance(s, ast.Subscript) and isinstance(s.slice, ast.Slice) and chain(s.value) == fb.params()[1]]
        lo = const_value(sl[0].slice.lower) if sl else None
        ctx.check(off == 23 and lo == off + size, "cell-codec", fb, fb.node, f"header at 23, message from {off + size if isinstance(off, int) else '?'}",
                  f"from_bin reads the header at {off} and the message from {lo}: must be 23 and 23 + {size}")
        order = [norm(a) for a in pk[0].args[1:]]
        tgt = [s for s in walk_no_nested(fb.node) if isinstance(s, ast.Assign) and isinstance(s.targets[0], ast.Tuple) and s.value is up[0]]
        names = [norm(e) for e in tgt[0].targets[0].elts] if tgt else []
        ret = [r for r in walk_no_nested(fb.node) if isinstance(r, ast.Return)][0].value
        ctor = [norm(a) for a in ret.args] if isinstance(ret, ast.Call) else []
        ip = [p for p in cp.methods["__init__"].params()[1:]]
        ok2 = order == ["self.circuit_id", "self.plaintext", "self.relay_early"] and names == ["circuit_id", "plaintext", "relay_early"] \
            and ip == ["circuit_id", "message", "plaintext", "relay_early"] and len(ctor) == 4 and ctor[0] == "circuit_id" and ctor[2:] == ["plaintext", "relay_early"]
        ctx.check(ok2, "cell-codec", fb, fb.node, "header fields (circuit_id, plaintext, relay_early) in the same order on both sides",
                  f"cell header field order differs: packs {order}, unpacks {names}, constructs {ctor}")
        j = [norm(e) for c in calls(tb) if call_name(c) == "join" for e in c.args[0].elts] if calls(tb) else []
        ctx.check(len(j) == 3 and j[0] == tb.params()[1] and j[1] == "bytes([self.msg_id])" and j[2].endswith("+ self.message"), "cell-codec", tb, tb.node,
                  "cell = prefix + msg_id + header + message", f"to_bin layout changed: {j}")
    # unwrap <-> TunnelCommunity.send_cell ([4:] strips the circuit id, msg id goes first)
    ju = [norm(e) for c in calls(uw) if call_name(c) == "join" for e in c.args[0].elts]
    ok = ju == [uw.params()[1], "self.message[0:1]", "pack('!I', self.circuit_id)", "self.message[1:]"]
    sc = repo.method("TunnelCommunity", "send_cell", "ipv8/messaging/anonymization/community.py")
    msg = single_def(sc, "message")
    ok2 = msg is not None and norm(msg[0]) == "self.serializer.pack_serializable(payload)[4:]" and any(
        norm(c) == "CellPayload(payload.circuit_id, pack('!B', payload.msg_id) + message)" for c in calls(sc, "CellPayload"))
    ctx.check(ok and ok2, "cell-codec", uw, uw.node, "unwrap re-inserts the 4-byte circuit id exactly where send_cell stripped it (after the msg id)",
              f"send_cell / unwrap disagree on where the circuit id sits: unwrap builds {ju}")
    # every cellable payload starts with the circuit id as "I"
    base = repo.cls("CellablePayload", PL)
    n = 0
    for c in base.all_subclasses():
        fe, ne = c.lookup_attr("format_list"), c.lookup_attr("names")
        if isinstance(fe, ast.List) and isinstance(ne, ast.List):
            n += 1
            ctx.check(const_value(fe.elts[0]) == "I" and const_value(ne.elts[0]) == "circuit_id", "cell-codec", c.where, c.node, f"{c.name} starts with circuit_id:'I'",
                      f"{c.name} does not start with a 4-byte circuit_id: send_cell strips the first 4 bytes")
    ctx.floor("cell-codec.cellable", n, 10)


def run(ctx: Ctx) -> None:
    from .c02_packers import rule_packer_symmetry
    rule_term_inverse(ctx)
    rule_vp_shape(ctx)
    rule_packer_symmetry(ctx)
    rule_name_grammar(ctx)
    rule_bit_order(ctx)
    rule_cell_codec(ctx)
    from .c20 import rule_type_map      # dataclass payloads are part of C02's quantifier: they must be converted from their own definition
    rule_type_map(ctx)
    ctx.assume("struct / socket.inet_* / array semantics are CPython's (trusted); legal values are whatever the struct code admits")
    ctx.assume("community ids / mids in preference lists are 20 bytes (chunks(join(xs), 20) = xs)")
    ctx.assume("connection_type ranges over its documented values unknown / public / symmetric-NAT")


_MP = "ipv8/messaging/payload.py"
_PP = "ipv8/peerdiscovery/payload.py"
_AP = "ipv8/messaging/anonymization/payload.py"
WITNESSES = [
    {"name": "pre-fix: advice inverted", "file": _MP, "rule": "pack-unpack-inverse",
     "old": "                                          bool(advice),\n", "new": "                                          [True, False][advice],\n"},
    {"name": "pre-fix: introduce_to sliced from struct tuple", "file": _PP, "rule": "pack-unpack-inverse",
     "old": "DiscoveryIntroductionRequestPayload(introduce_to[1],", "new": "DiscoveryIntroductionRequestPayload(introduce_to[1:],"},
    {"name": "pre-fix: Flags returns relative offset", "file": _AP, "rule": "packer-symmetry",
     "old": "        return offset + self.size", "new": "        return self.size"},
    {"name": "intro response swaps lan/wan introduction on decode", "file": _MP, "rule": "pack-unpack-inverse",
     "old": "                                           introduction_lan_address,\n                                           introduction_wan_address,\n                                           decode_connection_type",
     "new": "                                           introduction_wan_address,\n                                           introduction_lan_address,\n                                           decode_connection_type"},
    {"name": "flag bit read from neighbouring position", "file": _MP, "rule": "pack-unpack-inverse",
     "old": "                (\"bits\", encoded_connection_type[0], encoded_connection_type[1], 0, self.supports_new_style,\n                 self.intro_supports_new_style, self.peer_limit_reached, 0, 0),",
     "new": "                (\"bits\", encoded_connection_type[0], encoded_connection_type[1], self.supports_new_style, 0,\n                 self.intro_supports_new_style, self.peer_limit_reached, 0, 0),"},
    {"name": "format_list order differs from to_pack_list", "file": _MP, "rule": "pack-unpack-inverse",
     "old": "    msg_id = 250\n    format_list = [\"ipv4\", \"ipv4\", \"H\"]", "new": "    msg_id = 250\n    format_list = [\"ipv4\", \"H\", \"ipv4\"]"},
    {"name": "connection type decode table shifted", "file": _MP, "rule": "pack-unpack-inverse",
     "old": "    if bits == (1, 0):\n        return \"public\"\n    if bits == (1, 1):\n        return \"symmetric-NAT\"",
     "new": "    if bits == (1, 1):\n        return \"public\"\n    if bits == (1, 0):\n        return \"symmetric-NAT\""},
    {"name": "similarity chunks of 32 vs join of 20-byte ids", "file": _PP, "rule": "pack-unpack-inverse",
     "old": "                                        [preference_list[i:i + 20] for i in range(0, len(preference_list), 20)])\n\n\nclass SimilarityResponsePayload",
     "new": "                                        [preference_list[i:i + 32] for i in range(0, len(preference_list), 32)])\n\n\nclass SimilarityResponsePayload"},
    {"name": "tb_overlap stride disagrees with struct", "file": _PP, "rule": "pack-unpack-inverse",
     "old": "for i in range(0, len(tb_overlap), 24)])", "new": "for i in range(0, len(tb_overlap), 28)])"},
    {"name": "identifier not reduced on decode path only", "file": _PP, "rule": "pack-unpack-inverse",
     "old": "        return PingPayload(identifier)", "new": "        return PingPayload(identifier + 1)"},
    {"name": "vp names shorter than formats", "file": _AP, "rule": "vp-shape",
     "old": "    names = [\"circuit_id\", \"identifier\", \"key\", \"auth\", \"candidates_enc\"]\n    format_list = [\"I\", \"H\", \"varlenH\", \"32s\", \"raw\"]\n\n    circuit_id: int\n    identifier: int\n    key: bytes\n    auth: bytes\n    candidates_enc: bytes\n\n\n@vp_compile\nclass ExtendPayload",
     "new": "    names = [\"circuit_id\", \"identifier\", \"key\", \"candidates_enc\"]\n    format_list = [\"I\", \"H\", \"varlenH\", \"32s\", \"raw\"]\n\n    circuit_id: int\n    identifier: int\n    key: bytes\n    candidates_enc: bytes\n\n\n@vp_compile\nclass ExtendPayload"},
    {"name": "raw in the middle", "file": _AP, "rule": "vp-shape",
     "old": "    names = [\"circuit_id\", \"identifier\", \"response_size\", \"data\"]\n    format_list = [\"I\", \"H\", \"H\", \"raw\"]",
     "new": "    names = [\"circuit_id\", \"identifier\", \"data\", \"response_size\"]\n    format_list = [\"I\", \"H\", \"raw\", \"H\"]"},
    {"name": "unregistered format", "file": _AP, "rule": "vp-shape",
     "old": "    names = [\"circuit_id\", \"identifier\"]\n    format_list = [\"I\", \"H\"]\n\n    circuit_id: int\n    identifier: int\n\n\n@vp_compile\nclass PongPayload",
     "new": "    names = [\"circuit_id\", \"identifier\"]\n    format_list = [\"I\", \"h\"]\n\n    circuit_id: int\n    identifier: int\n\n\n@vp_compile\nclass PongPayload"},
    {"name": "H registered little-endian", "file": "ipv8/messaging/serialization.py", "rule": "name-grammar",
     "old": "            \"H\": DefaultStruct(\">H\"),", "new": "            \"H\": DefaultStruct(\"<H\"),"},
    {"name": "varlenH with 4-byte prefix (self-consistent)", "file": "ipv8/messaging/serialization.py", "rule": "name-grammar",
     "old": "            \"varlenH\": VarLen(\">H\"),", "new": "            \"varlenH\": VarLen(\">I\"),"},
    {"name": "varlenHx20 unit changed (self-consistent)", "file": "ipv8/messaging/serialization.py", "rule": "name-grammar",
     "old": "            \"varlenHx20\": VarLen(\">H\", 20),", "new": "            \"varlenHx20\": VarLen(\">H\", 32),"},
    {"name": "20s widened (self-consistent)", "file": "ipv8/messaging/serialization.py", "rule": "name-grammar",
     "old": "            \"20s\": DefaultStruct(\">20s\"),", "new": "            \"20s\": DefaultStruct(\">21s\"),"},
    {"name": "list count as short", "file": "ipv8/messaging/serialization.py", "rule": "name-grammar",
     "old": "            \"varlenH-list\": ListOf(VarLen(\">H\")),", "new": "            \"varlenH-list\": ListOf(VarLen(\">H\"), \">H\"),"},
    {"name": "VarLen unpack forgets the unit", "file": "ipv8/messaging/serialization.py", "rule": "packer-symmetry",
     "old": "        str_length = unpack_from(self.length_format, data, offset)[0] * self.base\n        end = offset + self.length_size + str_length\n        if end > len(data):\n            msg = f\"Declared length {str_length} exceeds the {len(data) - offset - self.length_size} bytes left in the buffer\"\n            raise PackError(msg)\n        unpack_list.append(data[offset + self.length_size: end])",
     "new": "        str_length = unpack_from(self.length_format, data, offset)[0]\n        end = offset + self.length_size + str_length\n        if end > len(data):\n            msg = f\"Declared length {str_length} exceeds the {len(data) - offset - self.length_size} bytes left in the buffer\"\n            raise PackError(msg)\n        unpack_list.append(data[offset + self.length_size: end])"},
    {"name": "IPv4 returns 4 consumed", "file": "ipv8/messaging/serialization.py", "rule": "packer-symmetry",
     "old": "        unpack_list.append(UDPv4Address(socket.inet_ntoa(host_bytes), port))\n        return offset + 6", "new": "        unpack_list.append(UDPv4Address(socket.inet_ntoa(host_bytes), port))\n        return offset + 4"},
    {"name": "Address domain branch off by port", "file": "ipv8/messaging/serialization.py", "rule": "packer-symmetry",
     "old": "            return offset + 5 + length", "new": "            return offset + 3 + length"},
    {"name": "NestedPayload skips length prefix in return", "file": "ipv8/messaging/serialization.py", "rule": "packer-symmetry",
     "old": "        size, = unpack_from(\">H\", data, offset)\n        offset += 2", "new": "        size, = unpack_from(\">H\", data, offset)\n        offset += 1"},
    {"name": "bit masks permuted on unpack", "file": "ipv8/messaging/serialization.py", "rule": "bit-order",
     "old": "        bit_1 = 1 if 0x02 & byte else 0\n        bit_0 = 1 if 0x01 & byte else 0", "new": "        bit_1 = 1 if 0x01 & byte else 0\n        bit_0 = 1 if 0x02 & byte else 0"},
    {"name": "cell header format differs", "file": _AP, "rule": "cell-codec",
     "old": "        circuit_id, plaintext, relay_early = unpack_from(\"!I??\", packet, 23)\n        return cls(circuit_id, packet[29:], plaintext, relay_early)",
     "new": "        circuit_id, relay_early, plaintext = unpack_from(\"!I??\", packet, 23)\n        return cls(circuit_id, packet[29:], plaintext, relay_early)"},
    {"name": "unwrap puts circuit id first", "file": _AP, "rule": "cell-codec",
     "old": "                         self.message[0:1],\n                         pack(\"!I\", self.circuit_id),\n                         self.message[1:]])",
     "new": "                         pack(\"!I\", self.circuit_id),\n                         self.message])"},
]
