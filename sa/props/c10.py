"""C10 - Each outstanding request is resolved exactly once."""
from __future__ import annotations

import ast

from ..core import Ctx
from ..match import Fact, arg, call_name, calls, fact_of, facts_at, local_defs, rchain, resolve, same_resolved, stores
from ..model import AnalysisError, FuncInfo, ancestors, chain, const_value, enclosing_stmt, norm, strip_cast, walk_no_nested

LEVEL = "other"
EXPLANATION = (
    "Pairing discipline inside RequestCache, each as a dominance / post-dominance fact on the function's CFG: pop removes "
    "the identifier and then cancels that cache's timeout task on every path; _on_timeout unregisters the identifier "
    "before the user callback runs and completes each managed future only when it is not done; add stores only when not "
    "shut down and the identifier is free, under the lock, and always registers the timeout task for that same cache; "
    "NumberCache.__init__ / find_unclaimed_identifier refuse numbers in use; shutdown sets the flag, cancels tasks and "
    "futures and clears the table under the lock; all five operations build the identifier through _create_identifier; "
    "_identifiers is private to RequestCache; retrieve_cache turns a missing cache into a no-op. Same-iteration races of "
    "pop and expiry are asyncio scheduling semantics and are not decided."
)

RC = "ipv8/requestcache.py"
TABLE = "self._identifiers"


# ------------------------------------------------------------------------------------ recognisers (semantic, not textual)
def _is_table(fi: FuncInfo, e: ast.AST | None) -> bool:
    """e denotes the identifier table: `self._identifiers` itself or a local alias of it.  An alias is only the same
    dict while the attribute is not rebound in this function (the table is only ever mutated in place)."""
    if e is None:
        return False
    if chain(strip_cast(e)) == TABLE:
        return True
    if rchain(fi, e) != TABLE:
        return False
    return not stores(fi, TABLE)


def _tcalls(fi: FuncInfo, meth: str) -> list[ast.Call]:
    """calls `<table>.<meth>(...)` where <table> is self._identifiers or an alias of it"""
    return [c for c in calls(fi) if isinstance(c.func, ast.Attribute) and c.func.attr == meth and _is_table(fi, c.func.value)]


def _tstores(fi: FuncInfo) -> list[ast.Assign]:
    """statements `<table>[key] = value`"""
    out = []
    for n in walk_no_nested(fi.node):
        if isinstance(n, ast.Assign) and len(n.targets) == 1 and isinstance(n.targets[0], ast.Subscript) and _is_table(fi, n.targets[0].value):
            out.append(n)
    return out


def _tdeletes(fi: FuncInfo) -> list[tuple[ast.Delete, ast.Subscript]]:
    """statements `del <table>[key]`"""
    return [(n, t) for n in walk_no_nested(fi.node) if isinstance(n, ast.Delete) for t in n.targets
            if isinstance(t, ast.Subscript) and _is_table(fi, t.value)]


def _ident_call_ok(fi: FuncInfo, e: ast.AST, num: str, pre: str) -> bool:
    e = resolve(fi, e)
    if not (isinstance(e, ast.Call) and chain(e.func) == "self._create_identifier"):
        return False
    a0, a1 = arg(e, 0, "number"), arg(e, 1, "prefix")
    return a0 is not None and a1 is not None and norm(a0) == num and norm(a1) == pre


def _absent_fact(fi: FuncInfo, f: Fact, is_key) -> bool:
    """The fact says `key is not registered in the table`:  key not in T  /  T.get(key) is None."""
    if f.op == "in" and not f.pos:
        return _is_table(fi, f.right) and is_key(f.left)
    if f.op == "is" and f.pos and const_value(f.right) is None and isinstance(f.right, ast.Constant):
        g = resolve(fi, f.left)
        if isinstance(g, ast.Call) and isinstance(g.func, ast.Attribute) and g.func.attr == "get" and _is_table(fi, g.func.value) and g.args:
            default_none = len(g.args) == 1 and not g.keywords or (len(g.args) == 2 and isinstance(g.args[1], ast.Constant) and g.args[1].value is None)
            return default_none and is_key(g.args[0])
    return False


def _present_fact(fi: FuncInfo, f: Fact, is_key=lambda e: True) -> bool:
    """The fact says `key is registered`:  key in T  /  T.get(key) is not None."""
    return _absent_fact(fi, Fact(f.op, f.left, f.right, not f.pos, f.atom), is_key)


def _is_none(e: ast.AST | None) -> bool:
    return e is None or (isinstance(e, ast.Constant) and e.value is None)


# --- where do the elements of an iteration come from?  kinds: cache (a value of the table / the cache parameter),
#     pair (an entry of <cache>.managed_futures), future (first component of a pair), pairs (a whole managed_futures list)
def _bind(target: ast.AST, kind: str, env: dict) -> bool:
    if isinstance(target, ast.Name):
        env[target.id] = kind
        return True
    if isinstance(target, (ast.Tuple, ast.List)) and kind == "pair" and len(target.elts) == 2 and all(isinstance(t, ast.Name) for t in target.elts):
        env[target.elts[1].id] = "other"
        env[target.elts[0].id] = "future"
        return True
    if isinstance(target, (ast.Tuple, ast.List)) and kind == "item" and len(target.elts) == 2 and all(isinstance(t, ast.Name) for t in target.elts):
        env[target.elts[0].id] = "other"
        env[target.elts[1].id] = "cache"
        return True
    return False


def _unbind(target: ast.AST, env: dict) -> None:
    for n in ast.walk(target):
        if isinstance(n, ast.Name):
            env.pop(n.id, None)


def _elem_kind(fi: FuncInfo, e: ast.AST, env: dict, depth: int = 3) -> str | None:
    e = strip_cast(e)
    if isinstance(e, ast.Name):
        if e.id in env:
            return env[e.id]
        r = resolve(fi, e)
        return _elem_kind(fi, r, env, depth - 1) if r is not e and depth > 0 else None
    if isinstance(e, ast.Subscript) and isinstance(e.slice, ast.Constant) and e.slice.value == 0 and _elem_kind(fi, e.value, env, depth) == "pair":
        return "future"
    if isinstance(e, ast.Attribute) and e.attr == "managed_futures" and _elem_kind(fi, e.value, env, depth) == "cache":
        return "pairs"
    return None


def _seq_kind(fi: FuncInfo, e: ast.AST, env: dict, depth: int = 4) -> str | None:
    """Kind of the elements produced by iterating e completely (None: unknown, filtered or partial)."""
    e = strip_cast(e)
    if depth <= 0:
        return None
    if isinstance(e, ast.Name) and e.id not in env:
        r = resolve(fi, e)
        return _seq_kind(fi, r, env, depth - 1) if r is not e else None
    if _elem_kind(fi, e, env) == "pairs":
        return "pair"
    if isinstance(e, ast.Call):
        c = chain(e.func)
        if c in ("list", "tuple", "iter") and len(e.args) == 1 and not e.keywords and not isinstance(e.args[0], ast.Starred):
            return _seq_kind(fi, e.args[0], env, depth - 1)
        if isinstance(e.func, ast.Attribute) and e.func.attr == "values" and not e.args and not e.keywords and _is_table(fi, e.func.value):
            return "cache"
        if isinstance(e.func, ast.Attribute) and e.func.attr == "items" and not e.args and not e.keywords and _is_table(fi, e.func.value):
            return "item"
        if c is not None and (c == "chain.from_iterable" or c.endswith(".chain.from_iterable")) and len(e.args) == 1 and not e.keywords:
            return "pair" if _seq_kind(fi, e.args[0], env, depth - 1) == "pairs" else None
        if c is not None and (c == "chain" or c.endswith("itertools.chain")) and len(e.args) == 1 and isinstance(e.args[0], ast.Starred) and not e.keywords:
            return "pair" if _seq_kind(fi, e.args[0].value, env, depth - 1) == "pairs" else None
        return None
    if isinstance(e, (ast.ListComp, ast.GeneratorExp)):
        env2 = dict(env)
        for g in e.generators:
            if g.ifs or g.is_async:
                return None
            k = _seq_kind(fi, g.iter, env2, depth - 1)
            if k is None or not _bind(g.target, k, env2):
                return None
        return _elem_kind(fi, e.elt, env2)
    return None


def _site_kind(fi: FuncInfo, e: ast.AST, base_env: dict) -> tuple[str | None, list[ast.For]]:
    """Kind of expression e at its place, from the enclosing for-statements (outermost first) + the loops that bind it."""
    loops = [a for a in ancestors(e) if isinstance(a, (ast.For, ast.AsyncFor))]
    loops = [l for l in loops if any(x is fi.node for x in ancestors(l))]
    env = dict(base_env)
    for l in reversed(loops):
        _unbind(l.target, env)
        k = _seq_kind(fi, l.iter, env)
        if k is not None:
            _bind(l.target, k, env)
    return _elem_kind(fi, e, env), loops


def _complete(loops: list[ast.For]) -> bool:
    """no iteration is cut short: no break / return inside, nothing in the loop's else-part"""
    return bool(loops) and not any(isinstance(x, (ast.Break, ast.Return)) for l in loops for x in ast.walk(l))


def _only_done_guards(fi: FuncInfo, facts: list[Fact], fut: ast.AST) -> bool:
    """every condition on the way to the call only skips futures for which the call is a no-op (done / cancelled / None)"""
    for f in facts:
        l = resolve(fi, f.left)
        if f.op == "truthy" and not f.pos and isinstance(l, ast.Call) and isinstance(l.func, ast.Attribute) and l.func.attr in ("done", "cancelled") \
                and norm(l.func.value) == norm(fut) and not l.args:
            continue
        if f.op == "is" and not f.pos and _is_none(f.right) and norm(f.left) == norm(fut):
            continue
        if f.op == "truthy" and f.pos and norm(f.left) == norm(fut):
            continue
        return False
    return True


def _string_parts(e: ast.AST) -> list[tuple[str, str]] | None:
    """A string-building expression as [('lit', text) | ('val', source)]: f-string, '%'-format, str.format, '+'."""
    if isinstance(e, ast.Constant) and isinstance(e.value, str):
        return [("lit", e.value)] if e.value else []
    if isinstance(e, ast.JoinedStr):
        out: list[tuple[str, str]] = []
        for v in e.values:
            if isinstance(v, ast.FormattedValue):
                if v.format_spec is not None or v.conversion not in (-1, 115):
                    return None
                out.append(("val", norm(v.value)))
            else:
                p = _string_parts(v)
                if p is None:
                    return None
                out.extend(p)
        return out
    if isinstance(e, ast.Call) and chain(e.func) == "str" and len(e.args) == 1 and not e.keywords:
        return [("val", norm(e.args[0]))]
    if isinstance(e, ast.BinOp) and isinstance(e.op, ast.Add):
        # an operand of str '+' that is a plain name is a string value itself
        a, b = ([("val", x.id)] if isinstance(x, ast.Name) else _string_parts(x) for x in (e.left, e.right))
        return None if a is None or b is None else a + b
    fmt, vals, holes = None, None, None
    if isinstance(e, ast.BinOp) and isinstance(e.op, ast.Mod) and isinstance(e.left, ast.Constant) and isinstance(e.left.value, str):
        fmt, holes = e.left.value, ("%s", "%d")
        vals = list(e.right.elts) if isinstance(e.right, ast.Tuple) else [e.right]
    elif isinstance(e, ast.Call) and isinstance(e.func, ast.Attribute) and e.func.attr == "format" and isinstance(e.func.value, ast.Constant) \
            and isinstance(e.func.value.value, str) and not e.keywords and not any(isinstance(a, ast.Starred) for a in e.args):
        fmt, holes, vals = e.func.value.value, ("{}",), list(e.args)
    if fmt is None:
        return None
    out, i, lit = [], 0, ""
    vals = list(vals)
    while i < len(fmt):
        h = next((h for h in holes if fmt.startswith(h, i)), None)
        if h is not None:
            if not vals:
                return None
            if lit:
                out.append(("lit", lit))
                lit = ""
            out.append(("val", norm(vals.pop(0))))
            i += len(h)
        elif fmt[i] in "%{}":
            return None
        else:
            lit += fmt[i]
            i += 1
    if lit:
        out.append(("lit", lit))
    return None if vals else out


# ------------------------------------------------------------------------------------ rules
def _impl(ctx: Ctx, name: str) -> FuncInfo:
    impl = [f for f in ctx.repo.module(RC).all_functions if f.qualname == f"RequestCache.{name}" and not any("overload" in d for d in f.decorator_names())]
    ctx.anchor(impl, f"RequestCache.{name}")
    return impl[-1]


def rule_pop(ctx: Ctx) -> None:
    # overloads: the real implementation is the definition without @overload
    fi = _impl(ctx, "pop")
    cfg = ctx.cfg(fi)
    pops = ctx.anchor(_tcalls(fi, "pop"), "_identifiers.pop in pop")
    for p in pops:
        st = enclosing_stmt(p)
        var = st.targets[0].id if isinstance(st, ast.Assign) and len(st.targets) == 1 and isinstance(st.targets[0], ast.Name) and strip_cast(st.value) is p else None
        cancels = [c for c in calls(fi, "self.cancel_pending_task") if var is not None and (chain(arg(c, 0, "name")) == var)]
        cn = [n for c in cancels for n in cfg.nodes_for(c)]
        ok = var is not None and bool(cn) and all(cfg.always_followed_by(pn, cn) for pn in cfg.nodes_for(p))
        ctx.check(ok, "pop-cancels", fi, p, "after _identifiers.pop(id) every normal path cancels that cache's timeout task",
                  "a claimed request keeps its timeout task: the timeout fires after the response was handled")
        ctx.check(_ident_call_ok(fi, arg(p, 0), fi.params()[2], fi.params()[1]) and len(p.args) == 1 and not p.keywords, "pop-cancels", fi, p,
                  "pop removes exactly _create_identifier(number, prefix) and raises KeyError when absent",
                  "pop uses a different identifier or silently tolerates a missing cache (a late response would find a default)")
        rets = [r for r in walk_no_nested(fi.node) if isinstance(r, ast.Return) and r.value is not None and var is not None and chain(strip_cast(r.value)) == var]
        ctx.check(bool(rets), "pop-cancels", fi, p, "pop returns the removed cache", "pop does not return the removed cache")


def rule_on_timeout(ctx: Ctx) -> None:
    fi = _impl(ctx, "_on_timeout")
    cfg = ctx.cfg(fi)
    cache = fi.params()[1]

    def is_key(e):
        return _ident_call_ok(fi, e, f"{cache}.number", f"{cache}.prefix")

    ucalls = [c for c in calls(fi) if chain(c.func) == f"{cache}.on_timeout"]
    ctx.check(len(ucalls) == 1 and not any(isinstance(a, (ast.For, ast.While)) for a in ancestors(ucalls[0])) if ucalls else False,
              "timeout-unregisters-first", fi, fi.node, "cache.on_timeout() is called exactly once", "the timeout callback is called more or less than once")
    # removal of the identifier:  T.pop(id) / T.pop(id, default) / del T[id]
    removals = [(p, arg(p, 0)) for p in _tcalls(fi, "pop")] + [(d, t.slice) for d, t in _tdeletes(fi)]
    ctx.anchor(removals, "_identifiers.pop in _on_timeout")
    for p, key in removals:
        ctx.check(key is not None and is_key(key), "timeout-unregisters-first", fi, p,
                  "the expired cache's own identifier is removed", "_on_timeout removes a different identifier")
    pn = [n for p, _ in removals for n in cfg.nodes_for(p)]

    def absent_edge(a, b, lab) -> bool:
        # leaving a test with the outcome "this identifier is not registered"
        return a.kind == "cond" and lab in (True, False) and _absent_fact(fi, fact_of(a.ast, lab), is_key)

    for u in ucalls:
        for un in cfg.nodes_for(u):
            r = cfg.reach(cut_out_normal=pn, cut_edge=absent_edge)
            ctx.check(un not in r, "timeout-unregisters-first", fi, u, "identifier removed (or already absent) before the user callback runs",
                      "on_timeout runs while the identifier is still registered: a pop from inside the callback, or a late response, resolves the request a second time")
    sets = [c for c in calls(fi) if call_name(c) in ("set_result", "set_exception") and isinstance(c.func, ast.Attribute)]
    ctx.floor("timeout-unregisters-first.futures", len(sets), 2)
    visited = False
    for s in sets:
        fs = facts_at(cfg, s)
        base = s.func.value
        ok = any(f.op == "truthy" and not f.pos and isinstance(resolve(fi, f.left), ast.Call) and isinstance(resolve(fi, f.left).func, ast.Attribute)
                 and resolve(fi, f.left).func.attr == "done" and norm(resolve(fi, f.left).func.value) == norm(base) for f in fs)
        un = [n for u in ucalls for n in cfg.nodes_for(u)]
        after = all(cfg.must_complete(sn, un) for sn in cfg.nodes_for(s))
        ctx.check(ok and after, "timeout-unregisters-first", fi, s, "managed future completed only if not done, after the callback",
                  "a tied future is completed twice or before the timeout callback", [str(f) for f in fs])
        kind, loops = _site_kind(fi, base, {cache: "cache"})
        visited = visited or (kind == "future" and _complete(loops))
    ctx.check(visited, "timeout-unregisters-first", fi, fi.node, "every managed future is visited", "not all futures tied to the cache are completed on timeout")


def _delay_leaves(ctx: Ctx, fi: FuncInfo, e: ast.AST, bind: dict[str, str], depth: int = 3) -> list[str]:
    """Source texts (parameters of helpers substituted by the caller's arguments) of the values a delay expression can take."""
    e = strip_cast(e)
    if depth <= 0:
        return [norm(e)]
    if isinstance(e, ast.IfExp):
        return _delay_leaves(ctx, fi, e.body, bind, depth) + _delay_leaves(ctx, fi, e.orelse, bind, depth)
    if isinstance(e, ast.Name) and e.id not in fi.params():
        out = []
        for _, v, idx in local_defs(fi, e.id):
            out += _delay_leaves(ctx, fi, v, bind, depth - 1) if v is not None and idx is None else ["?"]
        return out or [e.id]
    if isinstance(e, ast.Call) and chain(e.func) is not None and chain(e.func).startswith("self.") and chain(e.func).count(".") == 1:
        # a helper method that selects the delay: its return values, with parameters bound to our arguments
        out = []
        for tgt in ctx.repo.resolve_call(fi, e) or []:
            if not isinstance(tgt, FuncInfo) or tgt.is_async:
                return ["?"]
            ps = tgt.params()[1:]
            b2 = {}
            for i, a in enumerate(e.args):
                if isinstance(a, ast.Starred) or i >= len(ps):
                    return ["?"]
                b2[ps[i]] = _subst(norm(a), bind)
            for k in e.keywords:
                if k.arg is None:
                    return ["?"]
                b2[k.arg] = _subst(norm(k.value), bind)
            rets = [r for r in walk_no_nested(tgt.node) if isinstance(r, ast.Return)]
            for r in rets:
                out += _delay_leaves(ctx, tgt, r.value, b2, depth - 1) if r.value is not None else ["None"]
        return out or ["?"]
    return [_subst_expr(e, bind)]


def _subst(text: str, bind: dict[str, str]) -> str:
    return bind.get(text, text)


def _subst_expr(e: ast.AST, bind: dict[str, str]) -> str:
    # `<param>.attr` / `<param>` of a helper, written in the caller's terms
    if isinstance(e, ast.Attribute) and isinstance(e.value, ast.Name) and e.value.id in bind:
        return f"{bind[e.value.id]}.{e.attr}"
    if isinstance(e, ast.Name) and e.id in bind:
        return bind[e.id]
    return norm(e)


def rule_add(ctx: Ctx) -> None:
    fi = _impl(ctx, "add")
    cfg = ctx.cfg(fi)
    cache = fi.params()[1]

    def shut(f: Fact, pos: bool) -> bool:
        return f.op == "truthy" and f.pos is pos and chain(resolve(fi, f.left)) == "self._shutdown"

    def locked(n) -> bool:
        return any(isinstance(a, ast.With) and any(chain(i.context_expr) == "self.lock" for i in a.items) for a in ancestors(n))

    sts = _tstores(fi)
    ctx.anchor(sts, "_identifiers[...] = cache in add")
    for st in sts:
        fs = facts_at(cfg, st)
        key = st.targets[0].slice
        not_shut = any(shut(f, False) for f in fs)
        free = any(_absent_fact(fi, f, lambda e: same_resolved(fi, e, key)) for f in fs)
        ident = _ident_call_ok(fi, key, f"{cache}.number", f"{cache}.prefix")
        ctx.check(not_shut and free and locked(st) and ident and chain(st.value) == cache, "add-gates", fi, st,
                  "store dominated by not _shutdown and identifier not in _identifiers, under the lock, keyed by _create_identifier(number, prefix)",
                  f"a cache can be added after shutdown / over a live identifier / outside the lock (not_shutdown={not_shut} free={free} locked={locked(st)} ident={ident})",
                  [str(f) for f in fs])
        regs = [c for c in calls(fi, "self.register_task") if chain(arg(c, 0, "name")) == cache and chain(arg(c, 1, "task")) == "self._on_timeout"
                and chain(arg(c, 2)) == cache and arg(c, None, "delay") is not None]
        rn = [n for c in regs for n in cfg.nodes_for(c)]
        ok = bool(rn) and all(cfg.always_followed_by(sn, rn) for sn in cfg.nodes_for(st))
        ctx.check(ok, "add-gates", fi, st, "every registered cache gets its timeout task register_task(cache, _on_timeout, cache, delay=..)",
                  "a cache is stored without a timeout task: it is never resolved if no response arrives")
        for c in regs:
            leaves = _delay_leaves(ctx, fi, arg(c, None, "delay"), {})
            ok_d = f"{cache}.timeout_delay" in leaves
            ctx.check(ok_d, "add-gates", fi, c, "timeout delay is the cache's timeout_delay (or the passthrough override)",
                      "the timeout task is not scheduled with the cache's own timeout_delay", [f"delay values: {sorted(set(leaves))}"])
    # success is reported only after the store: every other way out (shutdown, duplicate) returns None
    sn = [n for st in sts for n in cfg.nodes_for(st)]
    for r in [r for r in walk_no_nested(fi.node) if isinstance(r, ast.Return)]:
        fs = facts_at(cfg, r)
        stored = all(cfg.must_complete(n, sn) for n in cfg.nodes_for(r))
        if any(shut(f, True) for f in fs):
            ctx.check(_is_none(r.value), "add-gates", fi, r, "add after shutdown returns None", "add after shutdown reports success")
        elif any(_present_fact(fi, f) for f in fs):
            ctx.check(_is_none(r.value), "add-gates", fi, r, "duplicate add returns None", "duplicate add reports success")
        elif not stored:
            ctx.check(_is_none(r.value), "add-gates", fi, r, "add returns None unless the cache was stored", "add reports success without having stored the cache")
    # the shutdown branch cancels the futures tied to the refused cache
    cancels = []
    for c in calls(fi):
        if call_name(c) == "cancel" and isinstance(c.func, ast.Attribute) and any(shut(f, True) for f in facts_at(cfg, c)):
            kind, loops = _site_kind(fi, c.func.value, {cache: "cache"})
            if kind == "future" and _complete(loops):
                cancels.append((c, loops))
    ctx.check(bool(cancels), "add-gates", fi, fi.node, "futures of a cache refused at shutdown are cancelled",
              "futures tied to a cache that is refused after shutdown are left pending forever")
    if cancels:
        ln = [n for _, loops in cancels for n in cfg.nodes_for(loops[-1])]
        conds = [n for n in cfg.nodes if n.kind == "cond" and chain(resolve(fi, n.ast)) == "self._shutdown"]
        firsts = [v for n in conds for v, lab in n.succ if lab is True]
        r = cfg.reach(firsts, cut_nodes=ln, follow_exc=False)
        ctx.check(bool(firsts) and cfg.exit not in r, "add-gates", fi, cancels[0][0], "every refusal at shutdown passes the loop that cancels the tied futures",
                  "a path refuses the cache at shutdown without cancelling its futures")
    # NumberCache.__init__
    ni = ctx.repo.method("NumberCache", "__init__", RC)
    cfgn = ctx.cfg(ni)
    p = ni.params()
    for st, t in stores(ni, ["self._prefix", "self._number"]):
        fs = facts_at(cfgn, st)
        ok = any(_has_fact(ni, f, p[1], p[2], p[3]) for f in fs)
        ctx.check(ok, "duplicate-guard", ni, st, "NumberCache construction dominated by not request_cache.has(prefix, number)",
                  "a second request can take a (prefix, number) identity that is still outstanding", [str(f) for f in fs])
    _find_unclaimed(ctx)
    # has / get use the same identifier construction
    for name in ("has", "get"):
        f2 = _impl(ctx, name)
        cs = calls(f2, "self._create_identifier")
        ok = len(cs) == 1 and _ident_call_ok(f2, cs[0], f2.params()[2], f2.params()[1])
        ctx.check(ok, "duplicate-guard", f2, f2.node, f"{name} keys by _create_identifier(number, prefix)", f"{name} builds a different identifier than add")
    ci = _impl(ctx, "_create_identifier")
    rets = [r for r in walk_no_nested(ci.node) if isinstance(r, ast.Return)]
    parts = _string_parts(resolve(ci, rets[0].value)) if len(rets) == 1 and rets[0].value is not None else None
    ok = parts is not None and [v for k, v in parts if k == "val"] == [ci.params()[2], ci.params()[1]]
    ctx.check(ok, "duplicate-guard", ci, ci.node, "identifier = f'{prefix}:{number}'", "identifier no longer determined by (prefix, number)")


def _has_fact(fi: FuncInfo, f: Fact, recv: str, prefix: str, number: str) -> bool:
    """fact `not <recv>.has(prefix, number)`"""
    if not (f.op == "truthy" and not f.pos):
        return False
    c = resolve(fi, f.left)
    if not (isinstance(c, ast.Call) and chain(c.func) == f"{recv}.has"):
        return False
    a0, a1 = arg(c, 0, "prefix"), arg(c, 1, "number")
    return a0 is not None and a1 is not None and norm(a0) == prefix and norm(a1) == number


def _find_unclaimed(ctx: Ctx) -> None:
    """RandomNumberCache.find_unclaimed_identifier: a number leaves the function only through the outcome `not has(prefix, number)`
    of a test made after the number's last assignment; every other way out raises."""
    fu = ctx.repo.method("RandomNumberCache", "find_unclaimed_identifier", RC)
    cfg = ctx.cfg(fu)
    p = fu.params()
    rets = [r for r in walk_no_nested(fu.node) if isinstance(r, ast.Return)]
    ok = bool(rets)
    accept_all = []
    for r in rets:
        v = strip_cast(r.value) if r.value is not None else None
        if not isinstance(v, ast.Name):
            ok = False
            continue
        accept = [(n, lab) for n in cfg.nodes if n.kind == "cond" for lab in (True, False) if _has_fact(fu, fact_of(n.ast, lab), p[1], p[2], v.id)]
        accept_all += accept

        def cut(a, b, lab, accept=accept):
            return any(a is n and lab is l for n, l in accept)
        defs = [n for st, _, _ in local_defs(fu, v.id) for n in cfg.nodes_for(st)]
        starts = [cfg.entry] + [s for d in defs for s, lab in d.succ if lab != "exc"]
        reach = cfg.reach(starts, cut_edge=cut)
        ok = ok and bool(accept) and not any(n in reach for n in cfg.nodes_for(r))
    # exhaustion raises: no normal exit without an accepted number
    ok = ok and cfg.exit not in cfg.reach(cut_edge=lambda a, b, lab: any(a is n and lab is l for n, l in accept_all))
    ctx.check(ok, "duplicate-guard", fu, fu.node, "random identifier accepted only if not in use; exhaustion raises",
              "find_unclaimed_identifier can return a number that is in use")


def rule_shutdown(ctx: Ctx) -> None:
    fi = _impl(ctx, "shutdown")
    cfg = ctx.cfg(fi)

    def locked(n):
        return any(isinstance(a, (ast.With, ast.AsyncWith)) and any(chain(i.context_expr) == "self.lock" for i in a.items) for a in ancestors(n))
    flag = [s for s, t in stores(fi, "self._shutdown") if const_value(s.value) is True]
    cancel_all = calls(fi, "self.cancel_all_pending_tasks")
    clears = _tcalls(fi, "clear")
    # <future>.cancel() for every future of every cache in the table, whatever the loop / comprehension spelling
    fut_cancel = []
    for c in calls(fi):
        if call_name(c) == "cancel" and isinstance(c.func, ast.Attribute) and not c.args:
            kind, loops = _site_kind(fi, c.func.value, {})
            if kind == "future" and _complete(loops) and _only_done_guards(fi, facts_at(cfg, c), c.func.value):
                fut_cancel.append(c)
    reads = _tcalls(fi, "values") + _tcalls(fi, "items")
    ok = bool(flag) and bool(cancel_all) and bool(clears) and bool(fut_cancel) and bool(reads) and all(locked(x) for x in flag + cancel_all + clears + fut_cancel + reads)
    ctx.check(ok, "shutdown", fi, fi.node, "shutdown: flag, cancel all tasks, cancel every tied future, clear table - all under the lock",
              "shutdown leaves timeouts armed, futures pending or the table populated")
    if ok:
        # order: flag before cancel; futures cancelled before the table is cleared
        fn = [n for s in flag for n in cfg.nodes_for(s)]
        ctx.check(all(cfg.must_complete(n, fn) for c in cancel_all for n in cfg.nodes_for(c)), "shutdown", fi, cancel_all[0],
                  "_shutdown set before tasks are cancelled", "tasks are cancelled before the shutdown flag is set: a callback can re-add")
        cl = [n for c in clears for n in cfg.nodes_for(c)]
        after_clear = cfg.reach([v for n in cl for v, lab in n.succ])
        ctx.check(not any(n in after_clear for x in reads + fut_cancel for n in cfg.nodes_for(x)), "shutdown", fi, clears[0],
                  "tied futures are cancelled before the table is cleared", "the table is cleared before the tied futures are cancelled (nothing left to cancel)")
    clr = _impl(ctx, "clear")
    ok = bool(calls(clr, "self.cancel_all_pending_tasks")) and bool(_tcalls(clr, "clear"))
    ctx.check(ok, "shutdown", clr, clr.node, "clear cancels all timeout tasks and empties the table", "clear leaves timeout tasks armed")


def rule_who(ctx: Ctx) -> None:
    repo = ctx.repo
    rc = repo.cls("RequestCache", RC)
    n = 0
    for m, fi, a in repo.attribute_uses("_identifiers"):
        n += 1
        ctx.check(fi is not None and fi.cls is rc, "table-writers", fi or m.relpath, enclosing_stmt(a), "_identifiers used only inside RequestCache",
                  "the identifier table is accessed from outside RequestCache")
    ctx.floor("table-writers", n, 8)
    rf = repo.func("ipv8/lazy_community.py", "retrieve_cache.decorator.wrapper")
    pops = [c for c in calls(rf) if call_name(c) == "pop"]
    ctx.check(bool(pops), "late-response", rf, rf.node, "retrieve_cache claims the cache with request_cache.pop",
              "retrieve_cache no longer pops the cache: the same request can be answered twice and its timeout still fires")
    for p in pops:
        tr = next((a for a in ancestors(p) if isinstance(a, ast.Try) and any(p is x for b in a.body for x in ast.walk(b))), None)
        ok = tr is not None and any(chain(h.type) == "KeyError" and any(isinstance(s, ast.Return) and _is_none(s.value) for s in h.body)
                                    for h in tr.handlers)
        ctx.check(ok, "late-response", rf, p, "retrieve_cache: missing cache -> KeyError -> handler not called, returns None",
                  "a response without an outstanding request reaches the handler (or raises)")
        a0, a1 = arg(p, 0, "prefix"), arg(p, 1, "number")
        ok2 = a0 is not None and a1 is not None and norm(resolve(rf, a0)) == "cache_class.name" and norm(resolve(rf, a1)) == "payload.identifier"
        ctx.check(ok2, "late-response", rf, p, "cache matched by (cache_class.name, payload.identifier)", "retrieve_cache matches on something else")
    fcalls = [c for c in calls(rf, "func")]
    for c in fcalls:
        def popped(v) -> bool:
            if any(strip_cast(resolve(rf, v)) is p for p in pops):
                return True
            return isinstance(v, ast.Name) and any(st is enclosing_stmt(p) and val is not None and strip_cast(val) is p
                                                   for st, val, _ in local_defs(rf, v.id) for p in pops)
        ok = any(k.arg == "cache" and popped(k.value) for k in c.keywords)
        cfg = ctx.cfg(rf)
        pn = [n for p in pops for n in cfg.nodes_for(p)]
        ok = ok and all(cfg.must_complete(n, pn) for n in cfg.nodes_for(c))
        ctx.check(ok, "late-response", rf, c, "handler runs only after a successful pop, with the popped cache", "handler can run without a claimed cache")
    # informative census of request_cache.pop sites
    census = {"guarded-by-has/get": 0, "try-keyerror": 0, "in-handler-or-callback": 0}
    for m, fi, c in repo.callers_of_name("pop"):
        ch = chain(c.func) or ""
        if not ch.endswith("request_cache.pop") or fi is None:
            continue
        cfg = ctx.cfg(fi)
        fs = facts_at(cfg, c)
        if any(isinstance(f.left, ast.Call) and (chain(f.left.func) or "").endswith(("request_cache.has", "request_cache.get")) for f in fs) or \
                any(f.op == "truthy" and f.pos and isinstance(resolve(fi, f.left), ast.Call) and (chain(resolve(fi, f.left).func) or "").endswith("request_cache.get") for f in fs):
            census["guarded-by-has/get"] += 1
        elif any(isinstance(a, ast.Try) and any(chain(h.type) in ("KeyError", "Exception") for h in a.handlers) for a in ancestors(c)):
            census["try-keyerror"] += 1
        else:
            census["in-handler-or-callback"] += 1
    ctx.extra["request_cache_pop_census"] = census
    ctx.note(f"request_cache.pop call sites (informative, not judged): {census}")


def run(ctx: Ctx) -> None:
    rule_pop(ctx)
    rule_on_timeout(ctx)
    rule_add(ctx)
    rule_shutdown(ctx)
    rule_who(ctx)
    ctx.assume("a cancelled asyncio task never runs its body; TaskManager.cancel_pending_task cancels the named task (C11 checks its gates)")
    ctx.assume("pop/expiry inside one event-loop iteration: order is asyncio's; not decided")


WITNESSES = [
    {"name": "pop does not cancel timeout", "file": RC, "rule": "pop-cancels",
     "old": "            cache = self._identifiers.pop(identifier)\n            self.cancel_pending_task(cache)\n            return cache",
     "new": "            cache = self._identifiers.pop(identifier)\n            return cache"},
    {"name": "pop tolerates missing cache", "file": RC, "rule": "pop-cancels",
     "old": "            cache = self._identifiers.pop(identifier)\n            self.cancel_pending_task(cache)",
     "new": "            cache = self._identifiers.pop(identifier, None)\n            self.cancel_pending_task(cache)"},
    {"name": "timeout callback before unregister", "file": RC, "rule": "timeout-unregisters-first",
     "old": "        if identifier in self._identifiers:\n            self._identifiers.pop(identifier)\n\n        cache.on_timeout()\n",
     "new": "        cache.on_timeout()\n        if identifier in self._identifiers:\n            self._identifiers.pop(identifier)\n"},
    {"name": "future completed even if done", "file": RC, "rule": "timeout-unregisters-first",
     "old": "            if not future.done():\n                if isinstance(on_timeout, Exception):",
     "new": "            if future is not None:\n                if isinstance(on_timeout, Exception):"},
    {"name": "add after shutdown allowed", "file": RC, "rule": "add-gates",
     "old": "            if self._shutdown:\n                self._logger.warning(\"Dropping %s due to shutdown!\", str(cache))\n                for f, _ in cache.managed_futures:\n                    f.cancel()\n                return None\n",
     "new": "            if self._shutdown:\n                self._logger.warning(\"Dropping %s due to shutdown!\", str(cache))\n"},
    {"name": "duplicate identifier overwrites", "file": RC, "rule": "add-gates",
     "old": "                self._logger.error(\"add with duplicate identifier \\\"%s\\\"\", identifier)\n                return None\n",
     "new": "                self._logger.error(\"add with duplicate identifier \\\"%s\\\"\", identifier)\n"},
    {"name": "timeout task only for overridden caches", "file": RC, "rule": "add-gates",
     "old": "            self.register_task(cache, self._on_timeout, cache, delay=timeout_delay)\n",
     "new": "            if timeout_delay < 3600:\n                self.register_task(cache, self._on_timeout, cache, delay=timeout_delay)\n"},
    {"name": "number cache construction unchecked", "file": RC, "rule": "duplicate-guard",
     "old": "        if request_cache.has(prefix, number):\n            msg = f\"This number is already in use '{number}'\"\n            raise RuntimeError(msg)\n",
     "new": "        if request_cache.has(prefix, number):\n            self._logger.warning(\"This number is already in use '%s'\", number)\n"},
    {"name": "identifier ignores prefix", "file": RC, "rule": "duplicate-guard",
     "old": "        return f\"{prefix}:{number}\"", "new": "        return f\"{number}\""},
    {"name": "shutdown forgets futures", "file": RC, "rule": "shutdown",
     "old": "            for cache in self._identifiers.values():\n                # Cancel all managed futures, and suppress the CancelledErrors\n                for future, _ in cache.managed_futures:\n                    future.cancel()\n",
     "new": ""},
    {"name": "shutdown flag after cancel", "file": RC, "rule": "shutdown",
     "old": "                self._shutdown = True\n                tasks = self.cancel_all_pending_tasks()\n",
     "new": "                tasks = self.cancel_all_pending_tasks()\n                self._shutdown = True\n"},
    {"name": "retrieve_cache uses get", "file": "ipv8/lazy_community.py", "rule": "late-response",
     "old": "                cache = cast(\"RequestCache\", self.request_cache).pop(cache_class.name,  # type: ignore[attr-defined]\n                                                                     payload.identifier)  # type: ignore[attr-defined]",
     "new": "                cache = cast(\"RequestCache\", self.request_cache).get(cache_class.name,  # type: ignore[attr-defined]\n                                                                     payload.identifier)  # type: ignore[attr-defined]"},
    {"name": "foreign writer of _identifiers", "file": "ipv8/peerdiscovery/community.py", "rule": "table-writers",
     "old": "        cache.finish()\n", "new": "        cache.finish()\n        self.request_cache._identifiers.pop(\"x\", None)\n"},
]
